(* ocaml/driver.ml — hand-written glue (not verified): moves lines between stdin/stdout and the
   extracted functions.  usage: modelrun <entry>   where entry selects the extracted function. *)
let explode (s : string) : char list =
  let rec go i acc = if i < 0 then acc else go (i - 1) (s.[i] :: acc) in
  go (String.length s - 1) []

let implode (l : char list) : string =
  let b = Buffer.create 256 in
  List.iter (Buffer.add_char b) l;
  Buffer.contents b

let () =
  let entry = if Array.length Sys.argv > 1 then Sys.argv.(1) else "eval" in
  let _ = entry in
  let f = Model.run_line_all in
  (try
     while true do
       let line = input_line stdin in
       let out = (try implode (f (explode line))
                  with Stack_overflow -> (try String.sub line 0 (String.index line '|') with Not_found -> "?") ^ "|X stack-overflow") in
       print_string out; print_newline ()
     done
   with End_of_file -> ());
  flush stdout
