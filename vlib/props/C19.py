"""C19 — $fromMillis renders the right calendar fields and $toMillis inverts it."""
import itertools, random, datetime
from ..engine import simple_run

def ms_of(y, mo, d, h=0, mi=0, s=0, ms=0):
    # proleptic Gregorian days since epoch (independent of the code under test: Python's date ordinal)
    days = datetime.date(y, mo, d).toordinal() - datetime.date(1970, 1, 1).toordinal()
    return ((days * 24 + h) * 60 + mi) * 60000 + s * 1000 + ms

COMPONENTS = ['Y', 'M', 'D', 'd', 'F', 'W', 'w', 'H', 'h', 'P', 'm', 's', 'f', 'Z', 'z', 'C', 'E']
MODS = ['', '1', '01', '001', '0001', 'I', 'i', 'w', 'W', 'Ww', 'n', 'N', 'Nn', '1o', 'Wo', 'wo', '1o,3', '1o,2-4', '01o', '1o,*-2', 'Wo,12', 'wo,3-5', '1o,1', 'I,5', 'i,*-2', 'w,20', 'Ww,1-3', '01:01', '0101', '01:01t', '0t', 'Nn,3-3', 'N,*-3', '1,2', '1,2-3', '1,*-2', ',2', '01,3-4', 'Y', '#', '9', ',*-*']

def cases(tier, seed):
    rng = random.Random(seed)
    out = []; n = 0
    def add(expr, doc=None, tags=()):
        nonlocal n; n += 1
        out.append({'id': 'c%d' % n, 'kind': 'eval', 'expr': expr, 'input': doc, 'tags': list(tags)})
    def q(s):
        return '"' + s.replace('\\', '\\\\').replace('"', '\\"') + '"'
    # instants: day boundaries across 1000..9999 on a stride, all hours, leap days, ISO-week edge years
    instants = [0, 1, -1, 999, 1000, 86399999, 86400000, -86400000, 1521801216617, 1e12, -1e12, 253402300799999, -30610224000000, 9.2e12, 9.3e12]
    stride = 997 if tier == 'quick' else 41
    y0 = datetime.date(1000, 1, 1).toordinal(); y1 = datetime.date(9999, 12, 31).toordinal(); ep = datetime.date(1970, 1, 1).toordinal()
    for o in range(y0, y1, stride * (20 if tier == 'quick' else 1)):
        base = (o - ep) * 86400000
        instants += [base, base - 1, base + rng.randrange(86400000)]
    for (y, m, d) in [(2015, 12, 31), (2016, 1, 3), (2016, 2, 29), (2020, 12, 31), (2021, 1, 3), (2000, 2, 29), (1900, 2, 28), (1900, 3, 1), (2100, 2, 28), (1999, 12, 31), (2000, 1, 1), (1970, 1, 1), (1969, 12, 31),
                      (2018, 1, 1), (2018, 12, 30), (2018, 12, 31), (2024, 12, 29), (2024, 12, 30), (2026, 1, 1), (1000, 1, 1), (9999, 12, 31), (2262, 4, 11), (2262, 4, 12), (2262, 4, 13)]:
        for h in range(24):
            instants.append(ms_of(y, m, d, h, rng.randrange(60), rng.randrange(60), rng.randrange(1000)))
    alloff = [o for o in ['%s%02d%02d' % (sg, h, mi) for sg in '+-' for h in range(0, 15) for mi in (0, 15, 30, 45)] if int(o[1:3]) * 60 + int(o[3:5]) <= 14 * 60]
    offsets = [None] + (alloff if tier != 'quick' else ['+0000', '-0000', '+0015', '-0015', '-0030', '-0045', '+0045', '+0100', '-0100', '+0530', '-0330', '+1400', '-1400', '+0945', '-0930'] + rng.sample(alloff, 25))
    bad_offsets = ['+2500', '0100', '+1', '+01:00', 'Z', '', '+0160', '-00', 'abcde', '+1a00', '++100', '+-100']
    # default picture and its inverse
    for ms in instants:
        ms = int(ms)
        tz = rng.choice(offsets)
        a = '%d, (), %s' % (ms, q(tz)) if tz else '%d' % ms
        add('$fromMillis(%s)' % a, None, ('default',))
        add('$toMillis($fromMillis(%s)) = %d' % (a, ms), None, ('inverse',))
        add('$toMillis($fromMillis(%s))' % a, None, ('inverse',))
    # every component x modifier on sampled instants
    sample = [int(x) for x in rng.sample(instants, min(len(instants), 12 if tier == 'quick' else 200))]
    for c, m in itertools.product(COMPONENTS, MODS):
        for ms in (sample if tier != 'quick' else rng.sample(sample, 3)):
            tz = rng.choice(offsets[:16])
            add('$fromMillis(%d, %s%s)' % (ms, q('[%s%s]' % (c, m)), (', ' + q(tz)) if tz else ''), None, ('component',))
    # spec-level laws with an independent oracle (Python's proleptic Gregorian calendar)
    ep0 = datetime.datetime(1970, 1, 1)
    for ms in [int(x) for x in instants]:
        try:
            dt = ep0 + datetime.timedelta(milliseconds=ms)
        except OverflowError:
            continue
        if not (1000 <= dt.year <= 9999):
            continue
        want = '%04d-%02d-%02dT%02d:%02d:%02d.%03d' % (dt.year, dt.month, dt.day, dt.hour, dt.minute, dt.second, dt.microsecond // 1000)
        add('$fromMillis(%d, "[Y0001]-[M01]-[D01]T[H01]:[m01]:[s01].[f001]") = "%s"' % (ms, want), None, ('law', 'law-total', 'fields'))
        add('$fromMillis(%d) = "%sZ"' % (ms, want), None, ('law', 'law-total', 'default-picture'))
        iso = dt.isocalendar()
        add('$fromMillis(%d, "[W01]/[F1]/[d001]") = "%02d/%d/%03d"' % (ms, iso[1], dt.isoweekday() % 7 + 1, dt.timetuple().tm_yday), None, ('law', 'law-total', 'week-day'))
        h12 = dt.hour % 12 or 12
        add('$fromMillis(%d, "[h]:[m01] [P]") = "%d:%02d %s"' % (ms, h12, dt.minute, 'am' if dt.hour < 12 else 'pm'), None, ('law', 'law-total', 'hour12'))
        tz = rng.choice(offsets[1:])
        off = (1 if tz[0] == '+' else -1) * (int(tz[1:3]) * 60 + int(tz[3:5]))
        try:
            local_year = (dt + datetime.timedelta(minutes=off)).year
        except OverflowError:
            local_year = 0
        if 1000 <= local_year <= 9999:    # the rendered local date must itself lie in years 1000..9999
            add('$toMillis($fromMillis(%d, (), "%s")) = %d' % (ms, tz, ms), None, ('law', 'law-total', 'inverse'))
        add('$toMillis($fromMillis(%d)) = %d' % (ms, ms), None, ('law', 'law-total', 'inverse'))
    # ordinal modifier: every value a component can take (day of year 1..366, day 1..31, month, hour, minute, second, week,
    # years incl. those ending in 11/12/13 and 111..113), against the English ordinal suffix computed here
    def ordinal(k):
        return '%d%s' % (k, 'th' if 10 <= k % 100 <= 20 else {1: 'st', 2: 'nd', 3: 'rd'}.get(k % 10, 'th'))
    for doy in range(1, 367):
        dt = datetime.datetime(2020, 1, 1) + datetime.timedelta(days=doy - 1)
        ms = ms_of(dt.year, dt.month, dt.day, 12, doy % 60, (doy * 7) % 60)
        add('$fromMillis(%d, "[d1o]|[D1o]|[M1o]") = "%s|%s|%s"' % (ms, ordinal(doy), ordinal(dt.day), ordinal(dt.month)), None, ('law', 'law-total', 'ordinal'))
        if doy <= 60:
            ms2 = ms_of(2021, 3, 4, doy % 24, doy - 1, (doy * 7) % 60)
            add('$fromMillis(%d, "[H1o]|[m1o]|[s1o]") = "%s|%s|%s"' % (ms2, ordinal(doy % 24), ordinal(doy - 1), ordinal((doy * 7) % 60)), None, ('law', 'law-total', 'ordinal'))
    for y in list(range(1000, 1030)) + list(range(1100, 1125)) + list(range(2000, 2035)) + [2111, 2112, 2113, 3011, 4012, 5013, 9911, 9912, 9913, 9999, 1211, 1312, 1413]:
        add('$fromMillis(%d, "[Y1o]") = "%s"' % (ms_of(y, 6, 15, 0, 0, 0), ordinal(y)), None, ('law', 'law-total', 'ordinal'))
        add('$fromMillis(%d, "[Y1o,*-2]|[W1o]|[F1o]")' % ms_of(y, 6, 15, 0, 0, 0), None, ('ordinal',))
    # ordinal modifier combined with a minimum width: the digits are padded, the suffix follows
    for doy in range(1, 367, 5):
        dt = datetime.datetime(2021, 1, 1) + datetime.timedelta(days=doy - 1)
        ms = ms_of(dt.year, dt.month, dt.day, 7, 8, 9)
        for w in (2, 3, 4, 6):
            o = ordinal(dt.day); od = ordinal(dt.timetuple().tm_yday)
            add('$fromMillis(%d, "[D1o,%d]|[d1o,%d]") = "%s|%s"' % (ms, w, w, o[:-2].rjust(w, '0') + o[-2:], od[:-2].rjust(w, '0') + od[-2:]), None, ('law', 'law-total', 'ordinal-width'))
    # 12-hour clock at every hour
    for h in range(24):
        add('$fromMillis(%d, "[h]:[m01] [P] / [H01]")' % ms_of(2020, 6, 15, h, 7), None, ('hour12',))
    # pictures built from fixed-width components, and their inverse
    pics = ['[Y0001]-[M01]-[D01]', '[Y0001]-[M01]-[D01]T[H01]:[m01]:[s01]', '[Y0001]-[M01]-[D01]T[H01]:[m01]:[s01].[f001]', '[Y0001]-[M01]-[D01]T[H01]:[m01]:[s01].[f001][Z01:01]',
            '[Y0001][M01][D01] [H01][m01][s01] [Z0101]', '[D01]/[M01]/[Y0001]', '[H01]:[m01]', '[Y0001]', '[M01]-[Y0001]', '[D01].[M01].[Y0001] [H01]:[m01]:[s01] [Z01:01]',
            '[Y]-[M01]-[D01]T[H01]:[m]:[s].[f001][Z01:01t]', 'literal [[x]] [Y0001]', '[Y0001]-[M01]-[D01] [h01]:[m01] [P]', '[D1] [MNn] [Y0001]', '[FNn], [D1o] [MNn] [Y]']
    for pic in pics:
        for ms in (rng.sample(sample, 4) if tier == 'quick' else sample):
            ms2 = ms - ms % 86400000 if 'H' not in pic and 'h' not in pic else (ms - ms % 1000 if 'f' not in pic else ms)
            tz = rng.choice(offsets[:16]) if 'Z' in pic else None
            a = '%d, %s%s' % (ms2, q(pic), (', ' + q(tz)) if tz else '')
            add('$fromMillis(%s)' % a, None, ('picture',))
            add('$toMillis($fromMillis(%s), %s)' % (a, q(pic)), None, ('picture-inverse',))
    # malformed pictures, offsets, texts
    for pic in ['[', '[Y', '[Y,]', '[Y,*-*]', '[Y,2-1]', '[Y,0]', '[Y,a]', '[]', '[ ]', '[Q]', '[Y01', ']', ']]', '[[', '[[]', '[Y0001,5-4]', '[Y,99999999999]', '[H1o', '[Z0]', '[Z01:0]', '[Z00:00:00]', '[ZN]', '[zN]', '[MN,1-1]', '[Y1,*-0]', '[Y  0001 ]', '[Y\n]', '[é]', '[Yé]']:
        add('$fromMillis(1521801216617, %s)' % q(pic), None, ('malformed',))
        add('$toMillis("2018", %s)' % q(pic), None, ('malformed',))
    for tz in bad_offsets:
        add('$fromMillis(1521801216617, (), %s)' % q(tz), None, ('bad-offset',))
    for t in ['2018-03-23T10:33:36.617Z', '2018-03-23T10:33:36.617+01:00', '2018-03-23T10:33:36+0100', '2018-03-23T10:33:36', '2018-03-23', '2018', '2018-13-01', '2018-02-30', 'hello', '', '2018-03-23T25:00:00Z',
              '9999-01-01T00:00:00.000Z', '1000-01-01T00:00:00.000Z', '2262-04-11T23:47:16.854Z', '2262-04-11T23:47:16.855Z', '2018-03-23T10:33:36.617Z extra', '18', '0001-01-01T00:00:00Z', '2018-3-23']:
        add('$toMillis(%s)' % q(t), None, ('text',))
    add('$toMillis(5)'); add('$fromMillis("x")'); add('$fromMillis()'); add('$fromMillis(nothing)'); add('$fromMillis(1.5e12 + 0.7)'); add('1521801216617.$fromMillis()')
    # $now / $millis: one instant per evaluation
    for e in ['$millis() = $millis()', '$now() = $now()', '$fromMillis($millis()) = $now()', '[1,2,3].$millis() = [$millis(), $millis(), $millis()]', '$type($millis())', '$type($now())',
              '$toMillis($now()) = $millis()', '($a := $millis(); $sum([1..10000]); $a = $millis())', '$now("[Y0001]") = $fromMillis($millis(), "[Y0001]")', '$millis() > 1600000000000']:
        add(e, None, ('now',))
    return out

def now_concurrent(ck, part, res):
    """'within one evaluation every $now()/$millis() is one instant' must also hold when other evaluations
    (of the same and of other expressions) start in the meantime: run the time identities on 8 goroutines."""
    import json, os, subprocess
    from ..engine import WORK
    if getattr(ck, '_now_done', False):
        return
    ck._now_done = True
    race = os.path.join(WORK, 'bin', 'jvrace')
    if not os.path.exists(race):
        return
    progs = [{'expr': e, 'inputs': [{'n': i} for i in range(3)]} for e in [
        '($t0 := $millis(); $w := $sum($map([1..400], function($i){$i * 2})); $t1 := $millis(); $t0 = $t1)',
        '($n0 := $now(); $w := $join($map([1..300], $string)); $n0 = $now())',
        '[$millis() = $millis(), $now() = $now(), $toMillis($now()) = $millis()]',
        '($a := $millis(); $b := $map([1..200], function($i){$millis()}); $count($distinct($append($b, $a))) = 1)']]
    for mode in ('shared', 'own'):
        spec = {'programs': progs, 'goroutines': 8, 'iterations': 40 if ck.tier == 'quick' else 400, 'mode': mode}
        p = subprocess.run([race], input=json.dumps(spec), capture_output=True, text=True, env=dict(os.environ, GORACE='halt_on_error=0'), timeout=900)
        nr = p.stderr.count('WARNING: DATA RACE')
        try:
            out = json.loads(p.stdout.strip().splitlines()[-1])
        except Exception:
            ck.notes.append('concurrent $now/$millis run could not be read')
            continue
        ck.stats['now_concurrent_evaluations'] += out['evaluations']
        for mm in (out['mismatches'] or [])[:2]:
            ck.failing_case({'kind': 'race', 'expr': mm['expr'], 'input': json.loads(mm['input']), 'mode': mode, 'goroutines': 8}, mm,
                            'direct:now-concurrent: with other evaluations running, %s instead of %s' % (mm['got'][:80], mm['want'][:80]))
        if nr:
            frames = [l.strip() for l in p.stderr.splitlines() if 'jsonata-go' in l][:4]
            ck.failing_case({'kind': 'race', 'expr': '$now/$millis identities on 8 goroutines', 'mode': mode}, {'race_report': p.stderr[:2500]},
                            'direct:now-race: %d data race report(s) while evaluating $now/$millis concurrently; first at %s' % (nr, '; '.join(frames)[:300]))

def run(tier, seed, replay=None):
    return simple_run('C19', tier, seed, replay,
        'instants: day boundaries (+/-1 ms, random time of day) on a stride over 1000-01-01..9999-12-31, all 24 hours on leap days, year ends and ISO-week edge years, negative and post-2262 instants; '
        'offsets -1400..+1400 in 15-minute steps and malformed ones; default picture and $toMillis inverse; every component letter x presentation/width modifier; the ordinal modifier on every value of every component (days of year 1..366, years incl. ..11/..12/..13); 12-hour clock at every hour; '
        'fixed-width pictures and their inverse; malformed pictures and texts; $now/$millis identities (also on 8 goroutines under the race detector); calendar inputs computed with Python datetime (independent); distinct = distinct expression',
        cases, timeout_ms=3000, post=now_concurrent)
