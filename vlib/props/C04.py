"""C04 — the parse is fixed by precedence, associativity and parentheses; independent of optional
whitespace and of the quote character; / is a regex only where an operand is expected; and/or/in
are names in operand position."""
import itertools, re, random
from ..engine import simple_run

# the property's rows, tightest first (row index = precedence level); spec side, independent of the code
ROWS = [['.'], ['*', '/', '%'], ['+', '-', '&'], ['=', '!=', '<', '<=', '>', '>=', 'in', '~>'], ['and'], ['or']]
LEVEL = {op: i for i, row in enumerate(ROWS) for op in row}
BINOPS = [op for row in ROWS[1:] for op in row]
OPERANDS = ['a', 'b', '$x', '1', '2.5', '"s"', '$f(1)', 'true', 'c', '$and', '$or', '$in', '$true', '$null', 'and', 'or', 'in', '$', '$$', 'é', '`x y`', 'null', '$function']

def spec_group(operands, ops):
    """fully parenthesised text of the chain per the property: higher rows bind tighter, equal rows
    group to the left (precedence climbing written from the rows, not from the parser)."""
    def climb(i, maxlevel):
        # parse operand i, then absorb operators of level <= maxlevel (lower index = tighter)
        lhs = operands[i]; i += 1
        while i - 1 < len(ops) and LEVEL[ops[i - 1]] <= maxlevel:
            op = ops[i - 1]
            rhs, i = climb(i, LEVEL[op] - 1)
            lhs = '(%s %s %s)' % (lhs, op, rhs)
        return lhs, i
    t, _ = climb(0, len(ROWS))
    return t

def cases(tier, seed):
    rng = random.Random(seed)
    out = []; n = 0
    def add(src, tags=(), pair=None):
        nonlocal n; n += 1
        c = {'id': 'p%d' % n, 'kind': 'parse', 'expr': src.encode().hex(), 'tags': list(tags)}
        if pair: c['pair'] = pair
        out.append(c)
        return c['id']
    ws = ['', ' ', '  ', '\n', '\t ']
    WS1 = [' ', '\t', '\n', '\r', '\v', '\r\n']
    WS = ['  ', '\n', ' \t', '\r', '\v', '\r\n', '\t', ' \r\n ']
    def chain_text(operands, ops, sp=' '):
        parts = [operands[0]]
        for o, x in zip(ops, operands[1:]):
            parts += [o, x]
        return sp.join(parts)
    # exhaustive pairs and (quick: sampled) triples of binary operators; minimal vs spec-parenthesised
    k2 = list(itertools.product(BINOPS, repeat=2))
    k3 = list(itertools.product(BINOPS, repeat=3))
    if tier == 'quick':
        k3 = rng.sample(k3, 1200)
    for ops in k2 + k3:
        operands = [rng.choice(OPERANDS) for _ in range(len(ops) + 1)]
        # `x / y`: keep a space-separated form so that / after an operand is division
        plain = chain_text(operands, ops)
        full = spec_group(operands, ops)
        a = add(plain, ('chain', 'plain'))
        b = add(full, ('chain', 'spec-parenthesised'), pair=a)
        # whitespace variations parse identically (compared pairwise below)
        w = chain_text(operands, ops, rng.choice(WS))
        add(w, ('chain', 'ws'), pair=a)
    # every whitespace character of the language (space, tab, LF, CR, VT, and CRLF) as the only separator, around every
    # operator and every kind of operand; also leading and trailing
    for sp in WS1:
        for op in BINOPS:
            for x, y in [('a', 'b'), ('$x', '$y'), ('and', 'or'), ('1', '2'), ('"s"', "'t'"), ('a[0]', '(b)'), ('$f(1)', 'in'), ('true', 'null'), ('é', '`q r`')]:
                a = add('%s %s %s' % (x, op, y), ('ws-sweep', 'plain'))
                add('%s%s%s%s%s' % (x, sp, op, sp, y), ('ws-sweep', 'ws'), pair=a)
                add('%s%s %s %s%s' % (sp, x, op, y, sp), ('ws-sweep', 'ws'), pair=a)
        for e in ['a.b[0].c', '$f(a, b)', '[a, b]', '{"k": a}', 'a ? b : c', '$x := a', 'function($p){$p}', 'a^(>b, c)', 'a ~> |b|{"k": c}, ["d"]|', 'a{"k": b}', '(a; b)', 'a[b = 1]']:
            a = add(e, ('ws-sweep', 'plain'))
            add(e.replace(' ', sp), ('ws-sweep', 'ws'), pair=a)
            add(re.sub(r'(:=|~>|!=|<=|>=|\.\.|\^\(|[\[\](){},;:?.|=])', lambda m: sp + m.group(1) + sp, e), ('ws-sweep', 'ws'), pair=a)
    # longer random chains incl. ?: and :=
    for i in range(600 if tier == 'quick' else 40000):
        m = rng.randint(4, 12)
        ops = [rng.choice(BINOPS) for _ in range(m)]
        operands = [rng.choice(OPERANDS) for _ in range(m + 1)]
        a = add(chain_text(operands, ops), ('long', 'plain'))
        add(spec_group(operands, ops), ('long', 'spec-parenthesised'), pair=a)
    # postfix/tight operators, conditionals, assignment, sort, grouping: correspondence with the model parser
    tight = ['a.b', 'a.b.c', 'a[0]', 'a[0].b', 'a.b[0]', 'a{"k":b}', 'a.b{"k":c}', '$f(1)(2)', 'a[0][1]', 'a.b[c.d]', '(a.b)[0]', 'a.(b.c)', 'a.b[]', 'a[].b', 'a^(b)', 'a^(>b).c', 'a.b^(c)', '$f(a).b', '[1,2][0]', '{"a":1}.a', 'a.$f()', 'a.$', 'a.*', 'a.**.b', '-a.b', '-a[0]', 'a ~> $f.b', 'a.b ~> $f']
    rest = ['a ? b : c', 'a ? b : c ? d : e', 'a ? b ? c : d : e', 'a or b ? c : d', 'a ? b : c or d', '$x := a ? b : c', 'a ? b : $x := c', '$x := $y := 1', '$x := 1 + 2', 'a ? $x := 1 : 2', 'a ~> $f ~> $g', 'a & b ~> $f', 'a = b ~> $f', 'a in b = c', 'a ^(b) = c', 'a and b or c and d', 'a or b and c or d', '1 + 2 * 3 - 4 / 5 % 6', 'a . b', 'a .b', 'a. b', 'a [0]', 'a {"k":1}', '$f (1)', 'a ^ (b)', 'a ~ > b']
    for e in tight + rest:
        for _ in range(2):
            add(e, ('shape',))
    for t, r in itertools.product(tight, BINOPS):
        add('%s %s %s' % (t, r, rng.choice(tight)), ('tight-vs-binary',))
    # quotes
    for s in ['abc', '', 'a b', 'x\\ny', 'é', '\\u0041', 'a/b', 'it', '$x', '1+1']:
        a = add('"%s"' % s, ('quote',)); add("'%s'" % s, ('quote',), pair=a)
        a = add('a = "%s" & b' % s, ('quote',)); add("a = '%s' & b" % s, ('quote',), pair=a)
    # every word that is a keyword or literal name, as a field name, as a variable name and next to every operator
    words = ['and', 'or', 'in', 'true', 'false', 'null', 'function']
    for w in words:
        for op in BINOPS:
            add('$%s %s $%s' % (w, op, w), ('keyword-names',)); add('a %s $%s' % (op, w), ('keyword-names',)); add('$%s %s 1' % (w, op), ('keyword-names',))
            if w in ('and', 'or', 'in'):
                add('%s %s %s' % (w, op, w), ('keyword-names',)); add('x.%s %s 2' % (w, op), ('keyword-names',))
        for e in ['$%s', '$%s.x[0]', '$%s := 1', '($%s := 2; $%s)', '$%s(1)', 'a.$%s', '[$%s]', '{"k": $%s}', 'a $%s b', '$%s ? 1 : 2', 'function($%s){$%s}', '$%s ~> $f', 'a[$%s]', 'a^($%s)']:
            add(e.replace('%s', w), ('keyword-names',))
    # regex vs division; and/or/in as names
    for e in ['a / b / c', 'a /b/ c', '(/b/)', '[/b/, 1 / 2]', '$match(s, /a/i)', 'a = /b/', '1 / 2', '$x / $y / $z', 'a / /b/', '(a) / b', 'a[0] / b', 'f() / 2 / 3', '"s" / 2', '/a/ / /b/',
              'and', 'or', 'in', 'and.or', 'and and or', 'or or or', 'in in in', 'a.and', 'a.in.b', 'and = or', '$x.and', 'and[0]', 'or{"a":1}', 'and(1)', '[and, or, in]', '{"and": or}', 'a and and', 'in and in']:
        add(e, ('regex-div-names',))
    return out

def pairs_check(ck, part, res):
    """direct predicate on the implementation alone: a chain and its spec-parenthesised form have the
    same tree (block wrappers removed); whitespace/quote variants have the identical tree."""
    byid = {c['id']: c for c in part}
    import re
    def strip_blocks(w):
        # remove "Block L1" wrappers (single-expression parentheses)
        return re.sub(r'\bBlock L1 ', '', w)
    for c in part:
        if 'pair' not in c:
            continue
        r, r0 = res.get(c['id']), res.get(c['pair'])
        if not r or not r0:
            continue
        a, b = r.get('impl', ''), r0.get('impl', '')
        if not (a.startswith('A ') and b.startswith('A ')):
            if a[:1] != b[:1]:
                ck.failing_case(c, r, 'direct:pair: one form parses and the other does not (%s vs %s)' % (a[:60], b[:60]))
            continue
        ck.stats['direct_pairs_checked'] += 1
        if strip_blocks(a) != strip_blocks(b):
            ck.failing_case(c, r, 'direct:pair: tree differs from the tree of %s' % bytes.fromhex(byid[c['pair']]['expr']).decode())

def run(tier, seed, replay=None):
    return simple_run('C04', tier, seed, replay,
        'operator chains: all ordered pairs and (quick: 1200 sampled / thorough: all) triples of binary operators from the complete set with random operands, '
        'each also fully parenthesised according to the property rows (spec-side precedence climbing) and with varied whitespace; random chains of 4..12; '
        'postfix/tight forms, conditionals, assignment, sort, grouping; quote variants; regex-vs-division and and/or/in-as-names forms; '
        'exact AST correspondence with the model parser; distinct = distinct source text',
        cases, owner_direct=(), post=pairs_check, timeout_ms=2000)
