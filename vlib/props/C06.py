"""C06 — concurrent evaluations are isolated and race-free (partial: the proof covers the model's
process state; the Go memory model and scheduler are explored at run time under -race)."""
import json, os, random, re, subprocess, time
from ..engine import Check, WORK
from ..gen.exprs import Gen
from . import C05

def programs(rng, n):
    out = []
    def doc(i):
        return {'a': 'g%d-x%d' % (i, i * 7), 'b': {'c': '-w%dzz' % i}, 'nums': [i, i + 1, i * 2], 'list': [{'s': 'k%d-v%d' % (i, j), 'v': (i + j) % 5} for j in range(3)], 'n': i % 4 + 1}
    fixed = C05.CTX_PROGS + ['$sort(nums)', 'list^(>v).s', 'list{s: v}', '$map(nums, function($x){$x * n})', '( $f := function($k){$k <= 0 ? 0 : $k + $f($k - 1)}; $f(n) )',
                             '$replace(a, /[0-9]+/, function($m){$m.match & "!"})', '$match(a, /g(\\d+)/).groups', '$string(nums) & a', 'nums ~> $sum() ~> $string()', '$pad(?, n * 3)(a)',
                             '$ ~> |list|{"v": v + 1}|', '$formatNumber(n * 1000.5, "#,##0.00")', '$fromMillis(n * 86400000)', 'list.s.$uppercase()', '$join(list.s, a)', 'a.((n > 2 ? $uppercase : $lowercase)())', 'list.s.((n > 2 ? $substringAfter : $substringBefore)("-"))', 'a.(($exists(b) ? $length : $string)())',
                             # array built-ins on arrays of the (possibly shared) input, with differing second arguments
                             '$append(nums, [1])', '$append(nums, [2, 3])', '$append(nums, n)', '$append(list, {"x": n})', '$append(nums, nums)', '$append(list.s, a)', '$reverse(nums)', '$sort(nums, function($l, $r){$l < $r})',
                             '$zip(nums, list.v)', '$distinct($append(nums, nums))', '$append($append(nums, 7), 8)', '$reduce(nums, $append)', '$map(list, function($o){$append($o.s, n)})', 'nums[[0, -1]]', '[nums, nums]',
                             # the random built-ins (order- and value-insensitive observations)
                             '$count($shuffle(nums))', '$sort($shuffle(nums)) = $sort(nums)', '($r := $random(); $r >= 0 and $r < 1)', '$count($shuffle(list))', '$sum($shuffle(nums)) = $sum(nums)', '[$random() < 1, $random() < 1, $random() < 1]',
                             # one instant per evaluation
                             '($t0 := $millis(); $w := $sum($map([1..300], function($i){$i * 2})); $t1 := $millis(); $t0 = $t1)', '($n0 := $now(); $w := $join($map([1..200], $string)); $n0 = $now())',
                             '[$millis() = $millis(), $now() = $now(), $toMillis($now()) = $millis()]',
                             '( $fs := [$uppercase, $lowercase]; a.($fs[0]()) & a.($fs[1]()) )', '{"f": $substringBefore}.f(a, "-")', 'a.(($substringBefore)("-"))']
    for e in fixed:
        if any(t in e for t in ('$keys', '$each', '$spread', '$sift', '*')) or (('$now' in e or '$millis' in e) and '= $' not in e and '$t0 = $t1' not in e):
            continue
        out.append({'expr': e, 'inputs': [doc(i) for i in range(5)]})
    for i in range(n):
        g = Gen(rng, chaos=0.02, deny=('random', 'shuffle', 'now', 'millis', 'keys', 'each', 'spread', 'sift', 'merge', 'lookup'))
        e = g.program(rng.randint(1, 3))
        if '*' in e:
            continue
        out.append({'expr': e, 'inputs': [doc(i) for i in range(4)]})
    return out

def run(tier, seed, replay=None):
    ck = Check('C06', tier, seed, '', 'goroutines 2..32 looping over context-defaulting built-ins, chains, partials, lambdas, transforms, regexes, sorts and generated programs with goroutine-specific '
               'inputs whose correct results differ; configurations: one Expr shared by all goroutines (with per-goroutine copies of the input, and with ONE decoded document shared by all goroutines and programs), per-goroutine Expr, Compile + package-level Register* in parallel; every outcome compared '
               'with the sequentially computed one; runtime race-detector reports counted; distinct = distinct (program, input); non-trivial = program compiles')
    if not ck.build(['C06']):
        return ck.finish()
    proofs_ok = ck.proof_status(['C06'])
    race = os.path.join(WORK, 'bin', 'jvrace')
    if not os.path.exists(race):
        ck.report_violation({'kind': 'build-failure', 'broken': 'the race harness does not build against the current tree'}, no_input=True)
        return ck.finish()
    rng = random.Random(seed)
    progs = programs(rng, 40 if tier == 'quick' else 400)
    if replay:
        progs = [{'expr': replay[0]['expr'], 'inputs': replay[0].get('inputs') or [replay[0].get('input')]}]
    budget = 20 if tier == 'quick' else 600
    t0 = time.time()
    total = 0; races = 0; runs = []
    # every mode gets the same share of the time budget and cycles through the goroutine counts within it (at least one
    # run per mode whatever the budget)
    modes = ('sharedinput', 'shared', 'mixed', 'own')
    gcounts = (8, 32, 2) if tier == 'quick' else (8, 32, 2, 16, 4)
    confs = []
    for mi, m in enumerate(modes):
        for rnd in range(4 if tier == 'quick' else 12):
            confs.append((m, gcounts[rnd % len(gcounts)], mi, rnd))
    mode_t0 = {}
    for mode, gor, mi, rnd in confs:
        mode_t0.setdefault(mode, time.time())
        if rnd > 0 and time.time() - mode_t0[mode] > budget / len(modes):
            continue
        spec = {'programs': progs, 'goroutines': gor, 'iterations': 3 if tier == 'quick' else 25, 'mode': mode}
        p = subprocess.run([race], input=json.dumps(spec), capture_output=True, text=True, env=dict(os.environ, GORACE='halt_on_error=0'), timeout=900)
        nr = p.stderr.count('WARNING: DATA RACE')
        try:
            res = json.loads(p.stdout.strip().splitlines()[-1])
        except Exception:
            ck.report_violation({'kind': 'implementation-crashed', 'what': 'race harness died', 'mode': mode, 'goroutines': gor, 'stderr': p.stderr[-3000:]})
            continue
        total += res['evaluations']; races += nr
        runs.append({'mode': mode, 'goroutines': gor, 'evaluations': res['evaluations'], 'race_reports': nr, 'mismatches': len(res['mismatches'] or [])})
        ck.dist['mode'][mode] += res['evaluations']
        for mm in (res['mismatches'] or [])[:2]:
            ck.failing_case({'kind': 'race', 'expr': mm['expr'], 'input': json.loads(mm['input']), 'mode': mode, 'goroutines': gor}, mm,
                            'direct:concurrent: goroutine %d got %s, alone the outcome is %s' % (mm['goroutine'], mm['got'][:100], mm['want'][:100]))
        if nr:
            m = re.search(r'WARNING: DATA RACE.*?(?===================|\Z)', p.stderr, re.S)
            first = m.group(0)[:3000] if m else ''
            frames = [l.strip() for l in first.splitlines() if 'jsonata-go' in l][:6]
            ck.failing_case({'kind': 'race', 'expr': 'programs of this run (see spec)', 'mode': mode, 'goroutines': gor, 'spec_programs': [q['expr'] for q in progs][:60]},
                            {'race_report': first}, 'direct:race: %d data race report(s); first at %s' % (nr, '; '.join(frames)[:300]))
    ck.evaluations = total
    for q in progs:
        for d in q['inputs']:
            ck.distinct.add(json.dumps([q['expr'], d], sort_keys=True))
    ck.samples = [{'expr': q['expr'], 'inputs': q['inputs'][:2]} for q in progs[:4]]
    ck.stats['race_reports'] = races
    if not proofs_ok:
        pid, log = ck.proof_broken
        ck.report_violation({'kind': 'proof-broken', 'theorems': 'Properties/%s.v' % pid, 'log': log}, no_input=not ck.violations)
    return ck.finish(extra_cov={'runs': runs, 'schedules': 'whatever the Go scheduler produced in this run (not enumerated, not replayable); GOMAXPROCS=%d' % (os.cpu_count() or 1)},
                     assumptions=['the proof covers the model (process state machine): evaluation is read-only on shared state; the Go memory model, goroutine scheduling and the race detector are runtime and only explored'])
