"""C05 — evaluation is repeatable and leaves the compiled expression unchanged: histories of
2..5 Evals on one Expr with the same and different inputs, other expressions evaluated in between."""
import random
from ..engine import simple_run, project, outside_model
from ..gen.exprs import Gen
from ..gen.common import gen_doc

CTX_PROGS = ['a.$substringBefore("-")', 'list.s.$substringAfter("-")', '$pad(?, 5)("x")', '4 ~> $power(2)', 'a ~> $uppercase()', 'list.$string()', 'a.$length()', '$substring(?, 1)(a)',
             '(a ~> $substringBefore("-")) & "!"', 'list.s.$split("-")', 'a.$contains("-")', '$map(list.s, $uppercase)', '$sum(nums) ~> $string()', 'nums ~> $sort() ~> $reverse()',
             'a.$substringBefore($$.b.c.$substringBefore("z"))', 'nums^(>$)', 'list{s: $count($)}', '$ ~> |list|{"z": 1}|', '$.list[0] ~> |$|{"s": "changed"}, ["q"]|', '/a(b)/("xaby").groups',
             '$replace(a, /-/, "+")', 'a ~> $replace("-", "+", 1)', 'a ~> $replace("-", "+")', 'a ~> $substring(1, 3)', 'nums ~> $reduce(function($p,$q){$p+$q}, 100)',
             '($f := function($a,$b,$c,$d){[$a,$b,$c,$d]}; a ~> $f(10, 20, 30))', '($f := function($a,$b,$c,$d,$e,$g){$a & $b & $c & $d & $e & $g}; a ~> $f(1,2,3,4,5))',
             '($f := function($a,$b,$c,$d,$e,$g,$h){$a & $g & $h}; a ~> $f(1,2,3,4,5,6))', '($f := function($a,$b,$c,$d,$e,$g,$h,$i){$a & $h & $i}; a ~> $f(1,2,3,4,5,6,7))', 'a ~> $pad(20, "#") ~> $replace("#", "=", 2)', '( $f := function($x){$x * 2}; nums.$f($) )', '$reduce(nums, function($p,$q){$p + $q})', '$string($) & $string($)', '$keys($)',
             # date parsing/formatting with and without explicit pictures (default layouts must stay what they are)
             '$toMillis("2018-03-23T10:33:36.617+01:00")', '$toMillis("2018-03-23T10:33:36.617Z")', '$toMillis("2018-03-23")', '$toMillis("23/03/2018", "[D01]/[M01]/[Y0001]")', '$toMillis("2018-03-23 10:33", "[Y0001]-[M01]-[D01] [H01]:[m01]")',
             '$toMillis("10:33", "[H01]:[m01]")', '$toMillis("2018-03-23T10:33:36+0100")', '$fromMillis($toMillis("2018-03-23T10:33:36.617+01:00"))', '$toMillis("2018", "[Y0001]")', '$toMillis("2018-03-23T10:33:36.617+01:00") - $toMillis("2018-03-23T09:33:36.617Z")',
             '$fromMillis(1e12, "[Y]/[M]/[D]")', '$fromMillis(1e12)', '$now() = $now()', '$toMillis("23.03.2018", "[D01].[M01].[Y0001]") ~> $fromMillis()',
             # literal positions (also negative and out of range) over arrays whose length changes from input to input
             'nums[-1]', 'nums[-2]', 'nums[-7]', 'nums[0]', 'nums[3]', 'list[-1].s', 'list[-2]', '$.nums[-1] + 0', 'nums[-1][0]', 'nums[[-1, 0]]', 'nums[1.5]', 'nums[-1.5]', '(nums)[-1]', '$append(nums, 1)[-1]', 'list.s[-1]',
             # groupings and constructors whose member values ARE the grouped items (not aggregates of them)
             'list{s: $}', 'list{s: [$]}', 'list{s: $.s}', 'nums{$string($ % 2): $}', 'nums{$string($ % 3): [$, $count($)]}', 'list{$substringBefore(s, "-"): $}', '$ ~> |list|{"grp": $$.list{s: $}}|',
             '(nums{$string($ % 2): $}).*', 'nums{$string($ > 4): $}.`true`', 'list{s: ($g := $; $g)}', 'list{s: function(){$}}.*()' ,
             # the same picture under different decimal formats, the same built-in under different options
             '$formatNumber(-1.5, "0.0")', '$formatNumber(-1.5, "0.0", {"minus-sign": "m"})', '$formatNumber(-1.5, "0.0", {"minus-sign": "~"})', '$formatNumber(1234.5, "0,0")',
             '$formatNumber(1234.5, "0,0", {"decimal-separator": ",", "grouping-separator": "."})', '$formatNumber(0.25, "0%")', '$formatNumber(0.25, "0%", {"percent": "p"})', '$formatNumber(0.25, "0p", {"percent": "p"})',
             '$formatNumber(nums[0], "00.0")', '$formatNumber(nums[0], "00.0", {"zero-digit": "\u0660"})', '$formatNumber(12, "#;(#)")', '$formatNumber(-12, "#;(#)")', '$formatNumber(-12, "#!(#)", {"pattern-separator": "!"})',
             '$fromMillis(86400000 * nums[0], "[D01]/[M01]")', '$fromMillis(86400000 * nums[0], "[D01]/[M01]", "+0100")', '$fromMillis(0, "[H01]:[m01]", "-0330")', '$fromMillis(0, "[H01]:[m01]")',
             '$formatBase(nums[0] + 20, 2)', '$formatBase(nums[0] + 20, 16)', '$round(nums[0] + 0.125, 2)', '$round(nums[0] + 0.125, 1)', '$split(a, "-", 1)', '$split(a, "-")', '$match(a, /l/, 1)', '$match(a, /l/)',
             # partial applications of context-defaulting built-ins, and the same built-ins invoked through ~> with a bare function (no call node)
             '$substringBefore(?, "-")(a)', '$substringAfter(?, "-")(a)', '($p := $substringBefore(?, "-"); list.s.$p($))', '$contains(?, "-")(a)', '$pad(?, 7, "*")(a)', '$split(?, "-")(a)', '$length(?)(a)',
             'a.("-" ~> $substringBefore)', 'a.("-" ~> $substringAfter)', '"-" ~> $substringBefore', '"-" ~> $substringAfter', 'b.c.("z" ~> $substringBefore)', 'a.("-" ~> $contains)', 'a.("-" ~> $split)', 'a.(7 ~> $pad)',
             'list.s.("-" ~> $substringBefore)', 'a ~> $uppercase', 'a ~> $length', 'a.$uppercase()', 'list.s.$length()', 'a.($f := $substringBefore; "-" ~> $f)', 'nums.($string ~> $length)', 'a.($uppercase ~> $length)()',
             '$map(list.s, $substringBefore(?, "-"))', '$map(list.s, $length)', '$filter(list.s, $contains(?, "-"))', 'a.$substringBefore("-").$length()', '$each($, function($v,$k){$k})', '$now() = $now()']

def cases(tier, seed):
    rng = random.Random(seed)
    out = []; n = 0
    def doc():
        return {'a': rng.choice(['hello-world', 'ab-cd', 'x']), 'b': {'c': rng.choice(['-wzzz', 'lo-z'])}, 'nums': [rng.randint(0, 9) for _ in range(rng.randint(0, 5))],
                'list': [{'s': rng.choice(['ab-cd', 'ef-gh', 'q'])} for _ in range(rng.randint(1, 3))]}
    def add(expr, inputs, others, tags=()):
        nonlocal n; n += 1
        out.append({'id': 'h%d' % n, 'kind': 'history', 'expr': expr, 'input': inputs[0], 'inputs': inputs[1:], 'others': others, 'tags': list(tags)})
        for i, d in enumerate(inputs):
            out.append({'id': 'h%d.e%d' % (n, i), 'kind': 'eval', 'expr': expr, 'input': d, 'tags': ['step-of:h%d' % n]})
    # expressions with variables registered on them (Expr.RegisterVars): assignments in every position, also outside
    # any block, must not outlive the evaluation; the registered values are read, shadowed, re-bound
    REG = ['[$limit, $limit := 1]', '[$limit, $limit := $limit + 1, $limit]', '$limit := $sum(nums)', '[$total, $total := $sum(nums)]', '$string($limit := 2) & $limit',
           '($limit := 3; $limit)', '[$cfg.k, $cfg := {"k": "changed"}, $cfg.k]', '$count($seen := nums) & "/" & $count($seen)', '[$exists($seen), $seen := a]', '$limit + nums[0]', '$cfg.k & a',
           '$map(nums, function($n){$limit := $n}) ~> $append($limit)', 'nums.($acc := $ + $limit)', '$lst ~> $append(nums[0])', '$lst ~> $reverse()', '$cfg ~> |$|{"k": a}|', '[$lst[0], $lst := nums, $lst[0]]',
           '$limit ? ($limit := 0) : 7', '[$f, $f := function(){a}, $f()]', '$limit := $limit * 2', '[$limit := $limit * 2][0]']
    for i in range(150 if tier == 'quick' else 8000):
        n += 1
        e = rng.choice(REG)
        ds = [doc() for _ in range(rng.randint(2, 5))]
        vars_ = {'limit': rng.choice([10, 0, 2.5]), 'cfg': {'k': 'orig', 'n': [1, 2]}, 'lst': [3, 1, 2]}
        others = [rng.choice(REG + CTX_PROGS) for _ in range(rng.randint(0, 2))]
        out.append({'id': 'h%d' % n, 'kind': 'history', 'expr': e, 'input': ds[0], 'inputs': ds[1:], 'others': others, 'vars': vars_, 'tags': ['registered']})
        for j, d in enumerate(ds):
            out.append({'id': 'h%d.e%d' % (n, j), 'kind': 'eval', 'expr': e, 'input': d, 'vars': vars_, 'tags': ['step-of:h%d' % n]})
    N = 500 if tier == 'quick' else 30000
    for i in range(N):
        g = Gen(rng, chaos=0.05, deny=('random', 'shuffle'))
        if rng.random() < 0.5:
            e = rng.choice(CTX_PROGS); ds = [doc() for _ in range(rng.randint(2, 5))]
            if rng.random() < 0.5: ds[-1] = ds[0]
        else:
            e = g.program(rng.randint(1, 3)); d0 = gen_doc(rng, 3, 3)
            ds = [d0] + [rng.choice([d0, gen_doc(rng, 2, 3)]) for _ in range(rng.randint(1, 4))]
        others = [rng.choice(CTX_PROGS) for _ in range(rng.randint(0, 3))]
        add(e, ds, others, ('ctx' if e in CTX_PROGS else 'generated',))
    return out

def hist_vs_model(ck, part, res):
    """the outcome of every step of a history equals the model's outcome for that (expression, input)
    evaluated on its own (the model has no state between evaluations)"""
    for c in part:
        if c['kind'] != 'history':
            continue
        r = res.get(c['id'])
        if not r or r.get('compile') != 'ok':
            continue
        for i, got in enumerate(r.get('hist') or []):
            e = res.get('%s.e%d' % (c['id'], i))
            if not e or not e.get('model') or e['model'].startswith('X') or 'S756e6d6f64656c6c6564' in e['model']:
                continue
            ck.stats['history_steps_vs_model'] += 1
            if project(got) != project(e['model']) and not (got.startswith('P') or ('{' in c['expr'] and (got.startswith('E') or e['model'].startswith('E'))) or outside_model(c, {'impl': got, 'model': e['model']})):
                ck.failing_case(c, r, 'direct:history-vs-model: step %d gives %s, the model (stateless) gives %s' % (i, got[:80], e['model'][:80]))

def run(tier, seed, replay=None):
    return simple_run('C05', tier, seed, replay,
        'histories of 2..5 Eval calls on one compiled expression (also with variables registered on the expression and assignments to them in every position) with the same and different inputs, with 0..3 other expressions (other calls of the same built-ins under other contexts, '
        'chains, partials, transforms) evaluated in between; programs: context-defaulting/chain/partial/transform witnesses and generated programs over every node type; every step compared '
        'with a freshly compiled copy on the same input, with the stateless model, and String()/tree before = after; distinct = distinct (expression, inputs, others)',
        cases, owner_direct=('history', 'string_same', 'tree_same', 'repeat'), value_compare=False, panics_are='C09', post=hist_vs_model)
