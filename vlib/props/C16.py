"""C16 — string functions on code points; inverse laws."""
import itertools, random
from ..engine import simple_run

ALPHA = ['a', 'b', ' ', ',', 'é', '€', '😀', '\n', '\ufffd', ' ', '%', '+', '=', '-', 'B']

def cases(tier, seed):
    rng = random.Random(seed)
    out = []; n = 0
    def add(expr, doc, tags=()):
        nonlocal n; n += 1
        out.append({'id': 'c%d' % n, 'kind': 'eval', 'expr': expr, 'input': doc, 'tags': list(tags)})
    params = [x / 2 for x in range(-16, 17)]
    def p(x):
        return ('%g' % x)
    strs = ['']
    maxlen = 2 if tier == 'quick' else 3
    for L in range(1, maxlen + 1):
        for t in itertools.product(ALPHA[:9] if tier == 'quick' else ALPHA, repeat=L):
            strs.append(''.join(t))
    if tier == 'quick':
        strs = strs[:1] + rng.sample(strs[1:], min(70, len(strs) - 1))
    seps = ['', ',', 'a', ' ', 'é', 'ab', ',,', '😀', 'a,']
    # every string parameter of every string function over a tiny alphabet that includes the empty string and the
    # whole subject (exhaustive): the degenerate combinations (empty source, empty pattern, pattern = source)
    tiny = ['', 'a', 'ab', 'é', 'a,a', ' ']
    for s0, p0, r0 in itertools.product(tiny, tiny, tiny):
        d3 = {'s': s0, 'p': p0, 'r': r0}
        for e in ['$replace(s, p, r)', '$replace(s, p, r, 1)', '$split(s, p)', '$split(s, p, 1)', '$contains(s, p)', '$substringBefore(s, p)', '$substringAfter(s, p)', '$join([s, p], r)', '$pad(s, 3, p)',
                  '$substringBefore(s, p) & p & $substringAfter(s, p)', '$join($split(s, p), p)', '$replace(s, p, p)', '$split(s, p) ~> $count()']:
            if r0 != '' and 'r' not in e.replace('$replace', '').replace('$substringBefore', '').replace('$substringAfter', ''):
                continue
            add(e, d3, ('degenerate',))
    for s0 in tiny:
        for e in ['$length(s)', '$uppercase(s)', '$lowercase(s)', '$trim(s)', '$substring(s, 0)', '$substring(s, 1, 0)', '$substring(s, -1)', '$pad(s, 0)', '$pad(s, -2)', '$base64encode(s)', '$base64decode($base64encode(s)) = s',
                  '$encodeUrlComponent(s)', '$decodeUrlComponent($encodeUrlComponent(s)) = s', '$string(s)', '$number(s)', '$split(s, "")', '$join([s])', '$join([])', '$contains(s, s)', '$substringBefore(s, s)', '$substringAfter(s, s)', '$replace(s, s, "x")']:
            add(e, {'s': s0}, ('degenerate',))
    # $pad: every pad string of 1..4 code points over characters of UTF-8 width 1, 2, 3 and 4, every width -12..12, on
    # subjects of 0..3 code points: the result is subject + the pad string repeated and cut to the missing code points
    padchars = ['a', 'é', '€', '😀']
    padstrs = [''.join(t) for L in (1, 2, 3, 4) for t in itertools.product(padchars, repeat=L)]
    if tier == 'quick':
        padstrs = [x for x in padstrs if len(x) <= 2] + rng.sample([x for x in padstrs if len(x) > 2], 60)
    for c in padstrs:
        for s0 in (['', 'x', 'é😀', 'a€b'] if tier != 'quick' else rng.sample(['', 'x', 'é😀', 'a€b'], 2)):
            for w in (range(-12, 13) if tier != 'quick' else rng.sample(range(-12, 13), 6)):
                add('$pad(s, %d, c)' % w, {'s': s0, 'c': c}, ('pad-multi',))
                need = max(abs(w) - len(s0), 0)
                filler = (c * (need // len(c) + 1))[:need]
                want = (s0 + filler) if w >= 0 else (filler + s0)
                add('$pad(s, %d, c) = w' % w, {'s': s0, 'c': c, 'w': want}, ('pad-multi', 'law', 'law-total'))
    for s in strs:
        d = {'s': s}
        add('$length(s)', d, ('length',))
        add('[$uppercase(s), $lowercase(s), $trim(s)]', d, ('case-trim',))
        for a in (params if tier != 'quick' else rng.sample(params, 6)):
            add('$substring(s, %s)' % p(a), d, ('substring',))
            for b in rng.sample(params, 3):
                add('$substring(s, %s, %s)' % (p(a), p(b)), d, ('substring',))
            add('$pad(s, %s)' % p(a), d, ('pad',))
            c = rng.choice(seps)
            add('$pad(s, %s, c)' % p(a), {'s': s, 'c': c}, ('pad',))
            add('$length($pad(s, %s, c))' % p(a), {'s': s, 'c': c}, ('pad-law',))
            if c != '' and a == int(a): add('$length($pad(s, %s, c)) = $max([$abs(%s), $length(s)])' % (p(a), p(a)), {'s': s, 'c': c}, ('law', 'law-total'))
        for c in (seps if tier != 'quick' else rng.sample(seps, 4)):
            d2 = {'s': s, 'c': c}
            add('[$substringBefore(s, c), $substringAfter(s, c), $contains(s, c)]', d2, ('before-after',))
            add('$contains(s, c) ? ($substringBefore(s, c) & c & $substringAfter(s, c) = s) : ($substringBefore(s, c) = s and $substringAfter(s, c) = s)', d2, ('law',))
            add('$split(s, c)', d2, ('split',))
            add('$join($split(s, c), c) = s', d2, ('law', 'law-total'))
            lim = rng.choice(params)
            add('$split(s, c, %s)' % p(lim), d2, ('split',))
            add('$join($split(s, c), c)', d2, ('join',))
            r = rng.choice(seps)
            add('$replace(s, c, r)', {'s': s, 'c': c, 'r': r}, ('replace',))
            add('$replace(s, c, r, %s)' % p(lim), {'s': s, 'c': c, 'r': r}, ('replace',))
        add('$base64decode($base64encode(s)) = s', d, ('law', 'law-total'))
        add('$base64encode(s)', d, ('codec',))
        add('$decodeUrlComponent($encodeUrlComponent(s)) = s', d, ('law', 'law-total') if s != '\ufffd' else ('law',))
        add('[$encodeUrlComponent(s), $decodeUrlComponent(s), $decodeUrl(s)]', d, ('codec',))
        add('$base64decode(s)', d, ('codec',))
    # random longer strings
    for i in range(300 if tier == 'quick' else 20000):
        s = ''.join(rng.choice(ALPHA) for _ in range(rng.randint(4, 40)))
        c = rng.choice(seps); a = rng.choice(params); b = rng.choice(params)
        d = {'s': s, 'c': c}
        for e in ['$substring(s, %s, %s)' % (p(a), p(b)), '$pad(s, %s, c)' % p(a * 5), '$split(s, c)', '$join($split(s, c), c) = s', '$trim(s)', '$replace(s, c, "_")',
                  '$substringBefore(s, c) & c & $substringAfter(s, c)', '$base64decode($base64encode(s)) = s', '$decodeUrlComponent($encodeUrlComponent(s)) = s', '$length(s)',
                  's.$length()', 's.$substring(%s)' % p(a), 's.$pad(%s)' % p(a), 's.$split(c)' , '$uppercase(s) & $lowercase(s)']:
            add(e, d, ('random',))
    # non-string / missing arguments, context forms
    for e in ['$length(5)', '$length()', '$substring(5, 1)', '$substring("abc")', '$pad("a")', '$pad("a", "b")', '$split("a,b")', '$join(["a", 1])', '$join("a")', '$join(["a","b"])',
              '$replace("abc", "", "x")', '$replace("abc", "b", 5)', '$replace("aaa", "a", "b", -1)', '$split("a", ",", -1)', '$trim(5)', '$uppercase(nothing)', '$contains("a", 5)',
              '$encodeUrlComponent("�")', '$base64decode("@@")', '$decodeUrlComponent("%zz")', '$substringBefore("abc")', '$substring("héllo", -2)', '$pad("é", -4, "ab")']:
        add(e, 'ctx-string', ('args',))
    return out

def run(tier, seed, replay=None):
    return simple_run('C16', tier, seed, replay,
        'strings up to length 2 (quick, sampled) / 3 (thorough, exhaustive) over an alphabet of ASCII, 2-, 3- and 4-byte characters, white space and separators; '
        'start/length/width/limit parameters -8..8 in steps of 0.5; pad/separator strings of length 0..2; $pad with every pad string of 1..4 code points over UTF-8 widths 1..4 x widths -12..12 (with the expected result computed in Python); random strings of 4..40 code points; the inverse laws '
        'evaluated inside JSONata; wrong-typed and missing arguments; distinct = distinct (expression, input)',
        cases)
