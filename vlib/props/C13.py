"""C13 — order-by and $sort: stable, correctly ordered permutations; typed errors."""
import itertools, random
from ..engine import simple_run
from ..gen.common import lit
from .. import wirepy

def cases(tier, seed):
    rng = random.Random(seed)
    out = []; n = 0
    def add(expr, doc, tags=()):
        nonlocal n; n += 1
        out.append({'id': 'c%d' % n, 'kind': 'eval', 'expr': expr, 'input': doc, 'tags': list(tags)})
    dirs = ['', '<', '>']
    # exhaustive: length <= 4 (quick: <= 3) over a 3-value key domain (+ missing), 1..2 terms, all direction combinations
    dom = [1, 2, 3, None]
    maxlen = 3 if tier == 'quick' else 4
    for L in range(0, maxlen + 1):
        for keys in itertools.product(dom, repeat=L):
            arr = []
            for i, k in enumerate(keys):
                o = {'id': i, 's': 'xyz'[i % 3]}
                if k is not None: o['k'] = k
                arr.append(o)
            for d in dirs:
                add('a^(%sk)' % d, {'a': arr}, ('ex',))
            if L == maxlen or tier != 'quick':
                for d1, d2 in itertools.product(dirs, dirs):
                    add('a^(%sk, %ss)' % (d1, d2), {'a': arr}, ('ex',))
    # random arrays up to 8 and 13..200 items with many ties
    def recs(m):
        arr = []
        for i in range(m):
            o = {'id': i}
            if rng.random() < 0.85: o['k'] = rng.choice([1, 2, 3])
            if rng.random() < 0.85: o['s'] = rng.choice(['a', 'b', 'é', 'ab', ''])
            if rng.random() < 0.5: o['n'] = rng.choice([0.5, -1, 10])
            arr.append(o)
        return arr
    terms = ['k', 's', 'n', 'id', '$.k', 'k * -1', '$string(k)', 'k + n', 's & "x"']
    N = 600 if tier == 'quick' else 30000
    for i in range(N):
        m = rng.randint(0, 8) if rng.random() < 0.6 else rng.randint(13, 200)
        arr = recs(m)
        nt = rng.randint(1, 3)
        ts = ', '.join(rng.choice(dirs) + rng.choice(terms) for _ in range(nt))
        add('a^(%s)' % ts, {'a': arr}, ('rand',))
        if i % 5 == 0:
            add('a^(%s).id' % ts, {'a': arr}, ('rand',))
    # keys whose Go representation differs between items (a member is a float64, $count / $length / array positions are ints):
    # numerically equal keys tie whatever their representation, and the next term decides
    mixterms = ['$exists(n) ? n : $count(t)', '$count(t)', '$length(s)', '$exists(n) ? n : $length(s)', 'n ? n : $count(t) + 0', '$count(t) * 1.0', '$floor(n)', '$exists(n) ? $count(t) : 2']
    for i in range(300 if tier == 'quick' else 15000):
        m = rng.randint(2, 9)
        arr = []
        for j in range(m):
            o = {'id': j, 't': [0] * rng.randint(0, 3), 's': 'x' * rng.randint(0, 3), 'r': rng.randint(0, 3)}
            if rng.random() < 0.5: o['n'] = rng.choice([0, 1, 2, 3, 2.5])
            arr.append(o)
        t1 = rng.choice(dirs) + rng.choice(mixterms)
        t2 = rng.choice(dirs) + rng.choice(['r', 'id', '$count(t)', 'n'])
        add('a^(%s, %s).id' % (t1, t2), {'a': arr}, ('mixed-repr',))
        add('a^(%s, %s, >id).id' % (t1, t2), {'a': arr}, ('mixed-repr',))
    # $sort default and with comparators
    for i in range(300 if tier == 'quick' else 15000):
        m = rng.randint(0, 8) if rng.random() < 0.6 else rng.randint(13, 120)
        nums = [rng.choice([1, 2, 3, 2.5, -1, 0]) for _ in range(m)]
        strs = [rng.choice(['a', 'b', 'ab', 'é', '', 'B']) for _ in range(m)]
        add('$sort(a)', {'a': nums}, ('sort',))
        add('$sort(a)', {'a': strs}, ('sort',))
        arr = recs(m)
        add('$sort(a, function($x,$y){$x.k > $y.k})', {'a': [r for r in arr if 'k' in r]}, ('sortf',))
        add('$sort(a, function($x,$y){$x.k < $y.k})', {'a': [r for r in arr if 'k' in r]}, ('sortf',))
        add('$sort(a, function($x,$y){$x.s > $y.s or ($x.s = $y.s and $x.k > $y.k)})', {'a': [r for r in arr if 'k' in r and 's' in r]}, ('sortf',))
    # error clause
    bad = [[{'k': 1}, {'k': 'a'}], [{'k': True}], [{'k': [1]}], [{'k': {}}], [{'k': 1}, {'k': None}]]
    for b in bad:
        for d in dirs:
            add('a^(%sk)' % d, {'a': [x for x in b if x.get('k', 0) is not None]}, ('err',))
    # mixed kinds anywhere in the array, with items whose term is missing in between (exhaustive over
    # a 4-value domain {number, string, missing, boolean} up to length 4, and random longer ones)
    kd = [1, 'x', None, True]
    for L in range(1, 5):
        for keys in itertools.product(kd, repeat=L):
            if len(set(type(k) for k in keys if k is not None)) < 2:
                continue
            arr = [dict({'id': i}, **({} if k is None else {'k': k})) for i, k in enumerate(keys)]
            add('a^(%sk)' % rng.choice(dirs), {'a': arr}, ('err', 'mixed'))
            if tier != 'quick' or rng.random() < 0.3:
                add('a^(id, %sk)' % rng.choice(dirs), {'a': arr}, ('err', 'mixed'))
                add('a^(k ? k : nothing)', {'a': arr}, ('err', 'mixed'))
    for i in range(200 if tier == 'quick' else 10000):
        m = rng.randint(2, 12)
        arr = [dict({'id': j}, **({} if rng.random() < 0.4 else {'k': rng.choice([1, 2, 'a', 'b', 2.5])})) for j in range(m)]
        add('a^(%sk)' % rng.choice(dirs), {'a': arr}, ('err', 'mixed'))
    for v in [[1, 'a'], [True], [[1], [2]], [{}], 'x', 5, [1, 2, 'b'], []]:
        add('$sort(a)', {'a': v}, ('err',))
        add('$sort(a, function($x,$y){$x})', {'a': v}, ('err',))
    add('$sort([3,1,2], function($x,$y){"no"})', None, ('err',))
    add('$sort([3,1,2], $string)', None, ('err',))
    return out

def sorted_check(ck, part, res):
    """direct predicate on the implementation's own output: permutation of the input, adjacent
    pairs in order, ties in input order — for single-term numeric key sorts (independent of the model)."""
    byid = {c['id']: c for c in part}
    import re
    for cid, r in res.items():
        c = byid[cid]
        m = re.fullmatch(r'a\^\((<|>|)k\)', c['expr'])
        if not m or not r.get('impl', '').startswith('V '):
            continue
        arr = c['input']['a']
        if not isinstance(arr, list) or any(not isinstance(x, dict) or 'id' not in x for x in arr):
            continue
        if any(not isinstance(x.get('k', 0), (int, float)) or isinstance(x.get('k'), bool) for x in arr):
            continue
        v = wirepy.value(r['impl'])
        items = wirepy.items(v)
        def fields(o):
            return dict(o[1]) if o[0] == 'O' else {}
        import struct
        def num(t):
            return struct.unpack('>d', bytes.fromhex(t[0][1:]))[0]
        ids = []; keys = []
        for it in items:
            f = fields(it)
            if 'S6964' not in f:
                ids = None; break
            ids.append(int(num(f['S6964'])))
            keys.append(num(f['S6b']) if 'S6b' in f else None)
        if ids is None:
            ck.failing_case(c, r, 'direct:sorted: result members are not the input members'); continue
        ok = sorted(ids) == list(range(len(arr)))
        desc = m.group(1) == '>'
        for a, b, ia, ib in zip(keys, keys[1:], ids, ids[1:]):
            if a is None and b is not None: ok = False
            if a is not None and b is not None:
                if (a > b and not desc) or (a < b and desc): ok = False
                if a == b and ia > ib: ok = False
            if a is None and b is None and ia > ib: ok = False
        ck.stats['direct_sorted_checked'] += 1
        if not ok:
            ck.failing_case(c, r, 'direct:sorted: result is not the stable sorted permutation of the input')

def run(tier, seed, replay=None):
    return simple_run('C13', tier, seed, replay,
        'exhaustive arrays of length <= 3 (quick) / <= 4 (thorough) over a 3-value key domain + missing, all 1..2-term direction combinations; '
        'random arrays <= 8 and 13..200 items with many ties and missing members, 1..3 terms (members, computed keys); $sort on number/string arrays '
        'and with comparators from strict weak orders; error inputs; distinct = distinct (expression, array); non-trivial = compiles, model has a verdict',
        cases, post=sorted_check)
