"""C01 — paths: every step kind, with and without [], over null-free documents with arrays
nested in arrays at every position and members missing in some elements."""
import itertools, random, json
from ..engine import Check, run_cases, classify, project
from ..gen.common import gen_doc, NAMES
from .. import wirepy

def gen_docs(rng, n, single_member=False):
    docs = []
    def doc(depth):
        k = rng.random()
        if depth <= 0 or k < 0.2:
            return rng.choice([1, 2, 3, 'x', 'y', True])
        if k < 0.6:
            ks = rng.sample(NAMES, 1 if single_member else rng.randint(1, 3))
            return {kk: doc(depth - 1) for kk in ks}
        return [doc(depth - 1) for _ in range(rng.randint(0, 3))]
    for _ in range(n):
        d = doc(rng.randint(2, 4))
        if not isinstance(d, (dict, list)):
            d = {'a': d}
        docs.append(d)
    return docs

FIXED_DOCS = [
    {"a": [[[{"b": 1}]]]}, {"a": [1]}, {"a": [[1, 2], [3]]}, {"a": {"b": [1, 2]}}, {"a": [{"b": 1}, {"c": 2}, {"b": 3}]},
    {"a": [{"b": [1, 2]}, {"b": [3]}]}, {"a": [{"b": {"c": 1}}, {"b": [{"c": 2}, {"c": [3, 4]}]}]}, [{"a": 1}, {"a": [2, 3]}, [{"a": 4}]],
    {"a": []}, {"a": [[]]}, {"a": {"a": {"a": 1}}}, [[1, 2], [3, [4]]], {"a": [{"b": []}, {"b": [[]]}]}, 5, "s", [], {},
]

PAREN_FORMS = ['a.(b)', 'a.(b.c)', '(a.b)', '(a.b).c', '(a).b.c', 'a.(b.[c])', 'a.([b])', 'a.(b)[]', 'a.b.[c]', 'a.[b]', 'a.[b.c]', 'a.(b.{"k": c})', 'a.($.b)', 'a.(b.c)[]', '(a.b.c)', 'a.((b).c)',
               'a.(b.c).$count($)', 'a.[b].$count($)', 'a.(b.[c]).$count($)', '$count(a.(b.c))', 'a.(b)[0]', '(a.b)[0]', 'a.(b[0])', 'a.(b.c[0])', '[a.(b.c)]', 'a.(b.c).$string()', 'a.{"v": (b.c)}.v']

def steps_pool(rng):
    names = NAMES[:3]
    return names + ['`%s`' % n for n in names] + ['*', '**', '(a.b)', '(b)', '[a]', '[a, b]', '[b]', '{"k": a}', '{"k": b}',
                                                   '$count(a)', '$string()', '$', '(a.b.c)', '$keys()']

def cases(tier, seed):
    rng = random.Random(seed)
    out = []
    n = 0
    def add(expr, doc, tags=()):
        nonlocal n
        n += 1
        out.append({'id': 'c%d' % n, 'kind': 'eval', 'expr': expr, 'input': doc, 'tags': list(tags)})
    heads = ['a', 'b', 'c', '`a`', '$', '$$', '*', '**', '(a.b)', '[a]', '[a,b]', '{"k":a}', '$v', '$count(a)', '$string(a)']
    pool = steps_pool(rng)
    docs = FIXED_DOCS + gen_docs(rng, 25 if tier == 'quick' else 150)
    docs1 = gen_docs(rng, 15 if tier == 'quick' else 80, single_member=True)
    # exhaustive: all paths of <= 2 steps (quick) / 3 steps (thorough) over a 3-name alphabet + wildcards
    alpha = ['a', 'b', 'c', '*', '**', '$', '[a]']
    exdocs = FIXED_DOCS[:10]
    maxlen = 2 if tier == 'quick' else 3
    for L in range(1, maxlen + 1):
        for steps in itertools.product(alpha, repeat=L):
            if '$' in steps[1:]:
                pass
            p = '.'.join(steps)
            for d in exdocs:
                unordered = any(s in ('*', '**') for s in steps)
                add(p, d, ('ex', 'unordered' if unordered else 'ordered'))
                add(p + '[]', d, ('ex', 'unordered' if unordered else 'ordered'))
    # systematic nested-array shapes: T ::= {"b": n} | {"b": [n, n]} | {} | {"b": {"c": n}} | [T, ...]; document {"a": T}
    leaves = [{'b': 1}, {'b': [2, 3]}, {}, {'b': {'c': 4}}, {'c': 5}, {'b': []}, {'b': [[6, 7]]}, {'b': {'c': []}}, {'b': {'c': [[8, 9]]}}, {'b': [{'c': 1}, {'c': [2]}]}]
    def shapes(depth):
        if depth == 0:
            return list(leaves)
        inner = shapes(depth - 1)
        out_ = list(leaves)
        pool2 = inner if len(inner) <= 12 else rng.sample(inner, 12)
        for k in (1, 2, 3):
            combos = list(itertools.product(pool2, repeat=k))
            if len(combos) > (60 if tier == 'quick' else 600):
                combos = rng.sample(combos, 60 if tier == 'quick' else 600)
            out_ += [list(c) for c in combos]
        return out_
    counter = [0]
    def renumber(t):
        if isinstance(t, dict):
            return {k: renumber(v) for k, v in t.items()}
        if isinstance(t, list):
            return [renumber(x) for x in t]
        counter[0] += 1
        return counter[0]
    for t in shapes(3):
        counter[0] = 0
        d = {'a': renumber(t)}
        for e in ('a.b', 'a.b[]', 'a.b.c', '$count(a.b)', 'a.*'):
            add(e, d, ('nested-shape', 'unordered' if '*' in e else 'ordered'))
        # the same selections written with parenthesised sub-paths and constructor steps: a parenthesised step is ONE step
        # whose value is mapped like any other; an array-constructor step keeps each result as a unit
        for e in (rng.sample(PAREN_FORMS, 4) if tier == 'quick' else PAREN_FORMS):
            add(e, d, ('nested-shape', 'paren'))
        add('b', d['a'], ('nested-shape',))
        add('b[]', d['a'], ('nested-shape',))
    # random paths of 1..6 steps
    for i in range(2500 if tier == 'quick' else 120000):
        L = rng.randint(1, 6)
        head = rng.choice(heads)
        steps = [head] + [rng.choice(pool) for _ in range(L - 1)]
        p = '.'.join(steps)
        if rng.random() < 0.3:
            p += '[]'
        wild = any(('*' in s) or s == '$keys()' for s in steps)
        d = rng.choice(docs1 if (wild and rng.random() < 0.6) else docs)
        if head == '$v':
            p = '($v := %s; %s)' % (rng.choice(['a', '$', 'a.b', '[1,2]', '{"a":{"b":1}}']), p)
        add(p, d, ('rand', 'unordered' if wild and d not in docs1 else 'ordered'))
    return out

def run(tier, seed, replay=None):
    ck = Check('C01', tier, seed, '', 'paths of 1..6 steps over names, quoted names, $, $$, variables, *, **, parenthesised sub-paths, '
               'array/object-constructor steps and function-call steps, with and without []; exhaustive for <=2 (quick) / <=3 (thorough) steps over '
               '{a,b,c,*,**,$,[a]} x 10 fixed documents; null-free documents with nested arrays; results through * / ** over multi-member objects '
               'compared as multisets; distinct = distinct (path, document); non-trivial = compiles and model has a verdict')
    if not ck.build():
        return ck.finish()
    proofs_ok = ck.proof_status()
    cs = replay if replay else cases(tier, seed)
    for i in range(0, len(cs), 20000):
        chunk = cs[i:i + 20000]
        res, crashed, err = run_cases(ck.b, chunk, 'C01')
        # order-insensitive projection for wildcard results over multi-member objects
        for c in chunk:
            r = res.get(c['id'])
            if r and 'unordered' in c.get('tags', []) and r.get('model') and r.get('impl') != r.get('model'):
                a, b = wirepy.value(r['impl']), wirepy.value(r['model'])
                if a is not None and b is not None and wirepy.deep_multiset(a) == wirepy.deep_multiset(b):
                    r['model'] = r['impl']
                    ck.stats['agree_as_multiset'] += 1
        ck.std_analyze(chunk, res, crashed, owner_direct=())
        for c in chunk:
            for t in c.get('tags', [])[:2]:
                ck.dist['tags'][t] += 1
    if not proofs_ok:
        pid, log = ck.proof_broken
        ck.report_violation({'kind': 'proof-broken', 'theorems': 'Properties/%s.v' % pid, 'log': log}, no_input=not ck.violations)
    return ck.finish()
