"""C03 — operators: exhaustive operator x operand-kind x operand-kind (several representatives
per kind, as literals and as input members), random nesting, ranges, conditionals."""
import itertools, random
from ..engine import Check, run_cases
from ..gen.common import lit

REPS = {
    'number': ['0', '-0', '1.5', '-2', '3', '1e308', '5e-324', '9007199254740993', '0.1', '7'],
    'string': ['""', '"a"', '"10"', '"é"', '"b"', '"ab"'],
    'boolean': ['true', 'false'],
    'null': ['null'],
    'array': ['[]', '[1]', '[1,2]', '["a"]', '[[1]]'],
    'object': ['{}', '{"a":1}'],
    'function': ['$sum', 'function($x){$x}'],
    'missing': ['nothing'],
}
DOCVALS = {'number': [0, 1.5, -2, 3, 7, 1e308], 'string': ['', 'a', '10', 'é'], 'boolean': [True, False],
           'array': [[], [1], [1, 2], ['a']], 'object': [{}, {'a': 1}]}
BINOPS = ['+', '-', '*', '/', '%', '=', '!=', '<', '<=', '>', '>=', 'in', 'and', 'or', '&']

def cases(tier, seed):
    rng = random.Random(seed)
    out = []
    n = 0
    def add(expr, inp=None, tags=()):
        nonlocal n
        n += 1
        out.append({'id': 'c%d' % n, 'kind': 'eval', 'expr': expr, 'input': inp, 'tags': list(tags)})
    kinds = list(REPS)
    # exhaustive operator x kind x kind, literals; representatives: all in thorough, 2 per kind in quick
    for op in BINOPS:
        for ka, kb in itertools.product(kinds, kinds):
            ra, rb = REPS[ka], REPS[kb]
            if tier == 'quick':
                ra = [ra[0], rng.choice(ra)]; rb = [rb[0], rng.choice(rb)]
            for a, b in itertools.product(ra, rb):
                add('%s %s %s' % (a, op, b), None, ('lit', op, ka, kb))
    # number x number over the edges of the double and of the integer types a port might convert to
    # (2^31, 2^32, 2^52, 2^53, 2^63, 2^64, 1e19..1e22, subnormals, the largest double), both signs
    pos = ['0', '1', '2', '3', '7', '10', '0.5', '1.5', '2.5', '0.1', '0.3', '1e-7', '5e-324', '2.2250738585072014e-308', '2147483647', '2147483648', '4294967296', '4503599627370496',
           '9007199254740992', '9007199254740993', '9223372036854775807', '9223372036854775808', '1e19', '18446744073709551616', '3e19', '1e20', '1e21', '1e22', '1e100', '1e308', '1.7976931348623157e308']
    edge = pos + ['-' + x for x in pos]
    for op in ['%', '+', '-', '*', '/', '=', '!=', '<', '<=', '>', '>=']:
        for a, b in itertools.product(edge, edge):
            if tier == 'quick' and op != '%' and rng.random() < 0.85:
                continue
            if tier == 'quick' and op == '%' and rng.random() < 0.5:
                continue
            add('%s %s %s' % (a, op, b) if not b.startswith('-') else '%s %s (%s)' % (a, op, b), None, ('num-edge', op))
            if rng.random() < 0.15:
                add('x %s y' % op, {'x': float(a), 'y': float(b)}, ('num-edge-doc', op))
    # operands supplied as input members
    for op in BINOPS:
        for ka, kb in itertools.product(list(DOCVALS) + ['missing'], repeat=2):
            va = rng.choice(DOCVALS[ka]) if ka != 'missing' else None
            vb = rng.choice(DOCVALS[kb]) if kb != 'missing' else None
            doc = {}
            if va is not None: doc['x'] = va
            if vb is not None: doc['y'] = vb
            add('x %s y' % op, doc, ('doc', op, ka, kb))
    # unary minus
    for k in kinds:
        for a in REPS[k]:
            add('-(%s)' % a, None, ('neg', k))
            add('-%s' % a if not a.startswith('-') else '- %s' % a, None, ('neg', k))
    # chains of unary minus (1..4 deep, with and without blanks and parentheses), on literals and on input members:
    # every level is a negation of its own (number check at every level, sign flips, -0)
    for k in kinds:
        for a in REPS[k]:
            if a.startswith('-'):
                continue
            for pre in ['--', '- -', '---', '- - -', '-(-', '-(-(-', '----', '- -(-']:
                closing = ')' * pre.count('(')
                add('%s%s%s' % (pre, a, closing), None, ('neg-chain', k))
        for v in DOCVALS.get(k, []):
            for pre in ['--x', '- -x', '---x', '-(-x)', '- - - x']:
                add(pre, {'x': v}, ('neg-chain-doc', k))
    for pre in ['--', '- -', '---']:
        add(pre + 'nothing', {}, ('neg-chain', 'missing')); add(pre + 'x', {}, ('neg-chain', 'missing'))
        add('1 %s 2' % pre, None, ('neg-chain', 'binary')); add('"a" & %s1' % pre, None, ('neg-chain', 'binary'))
    # ranges
    bounds = ['0', '1', '3', '-2', '1.5', '"a"', 'true', 'nothing', '[1]', '5', '2', '10', '1e3', '-0',
              '1e19', '2e19', '-1e19', '1e300', '-1e300', '9223372036854775807', '9223372036854775808', '-9223372036854775808', '10001000', '4294967296', '2147483648', '1e15', '9007199254740993']
    for a, b in itertools.product(bounds, bounds):
        add('[%s..%s]' % (a, b), None, ('range',))
    add('[1..10000001]', None, ('range',))
    for a, b in [(1e19, 2e19), (-1e19, 1e19), (9.3e18, 9.4e18), (-9.4e18, -9.3e18), (1e300, 1e300), (-1e300, 1e300), (2**63, 2**63 + 4096), (1e19, 1e19), (5, 1e19), (-1e19, 5)]:
        add('[lo..hi]', {'lo': a, 'hi': b}, ('range', 'huge'))
        add('$count([lo..hi])', {'lo': a, 'hi': b}, ('range', 'huge'))
    add('[0..10000000]', None, ('range',))
    add('[1..1e10]', None, ('range',))
    add('[-1e15..1e15]', None, ('range',))
    # conditionals: only the chosen branch is evaluated
    conds = ['true', 'false', '0', '1', '""', '"a"', '[]', '[0]', '[0,1]', '{}', '{"a":1}', 'nothing', 'null', '$sum']
    for c in conds:
        add('%s ? 1 : 2' % c); add('%s ? 1' % c)
        add('%s ? 1 : $error("boom")' % c); add('%s ? $error("boom") : 2' % c)
        add('%s ? 1 : (1/0)' % c); add('%s ? ("a" + 1) : 2' % c)
    # random nesting
    atoms = sum(REPS.values(), []) + ['x', 'y', 'z']
    def rexpr(d):
        if d == 0 or rng.random() < 0.3:
            return rng.choice(atoms)
        k = rng.random()
        if k < 0.75:
            return '(%s %s %s)' % (rexpr(d - 1), rng.choice(BINOPS), rexpr(d - 1))
        if k < 0.85:
            return '-(%s)' % rexpr(d - 1)
        if k < 0.93:
            return '(%s ? %s : %s)' % (rexpr(d - 1), rexpr(d - 1), rexpr(d - 1))
        return '[%s..%s]' % (rng.choice(['0', '1', '2', 'x']), rng.choice(['3', '1', 'y', '2.5']))
    for i in range(1500 if tier == 'quick' else 60000):
        doc = {'x': rng.choice([1, 2.5, 'a', '10', True, [1, 2], {'a': 1}]), 'y': rng.choice([3, 0, 'b', False, [], [1]])}
        add(rexpr(rng.randint(1, 4)), doc, ('nest',))
    return out

def run(tier, seed, replay=None):
    ck = Check('C03', tier, seed, '', 'operator x operand-kind x operand-kind over literal and input-member operands, '
               'unary minus (single and chains of 2..4 on every operand kind), number x number over 62 edge operands for every arithmetic/comparison operator, ranges incl. limits, lazy conditionals, random nesting <= 4; distinct = distinct (expression, input); '
               'non-trivial = compiles and the model has a verdict')
    if not ck.build():
        return ck.finish()
    proofs_ok = ck.proof_status()
    cs = replay if replay else cases(tier, seed)
    ck.exhaustive = False
    # chunk to bound memory
    for i in range(0, len(cs), 20000):
        chunk = cs[i:i + 20000]
        res, crashed, err = run_cases(ck.b, chunk, 'C03')
        ck.std_analyze(chunk, res, crashed, owner_direct=())
        for c in chunk:
            for t in c.get('tags', [])[:2]:
                ck.dist['tags'][t] += 1
    if not proofs_ok:
        pid, log = ck.proof_broken
        ck.report_violation({'kind': 'proof-broken', 'theorems': 'Properties/%s.v' % pid, 'log': log}, no_input=not ck.violations)
    return ck.finish()
