"""C10 — results are JSON-representable; ErrUndefined iff no value; EvalBytes agrees."""
from ..engine import simple_run, classify
from . import C09

def undefined_iff(ck, part, res):
    """ErrUndefined is reported exactly when the model says the expression has no value
    (null-free documents; programs inside the modelled domain)."""
    byid = {c['id']: c for c in part}
    for cid, r in res.items():
        c = byid[cid]
        if 'nulldoc' in c.get('tags', []) or r.get('compile', 'ok') != 'ok':
            continue
        i, m = r.get('impl', ''), r.get('model') or ''
        if not m or m.startswith('X') or 'S756e6d6f64656c6c6564' in m or m.startswith('P') or i.startswith('P') or i == 'H':
            continue
        ck.stats['undefined_iff_checked'] += 1
        if (i == 'U') != (m == 'U') and (i[:1] in 'UV') and (m[:1] in 'UV'):
            ck.failing_case(c, r, 'direct:undefined-iff: implementation reports %s where the model has %s' % (i[:60], m[:60]))

def run(tier, seed, replay=None):
    return simple_run('C10', tier, seed + 7, replay,
        'same generator as C09 (directed and chaotic programs, every built-in, JSON inputs incl. nulls): every nil-error result is walked for non-JSON dynamic types and non-finite numbers, '
        'marshalled, and compared with EvalBytes on the same input text; ErrUndefined is compared with the model verdict "no value"; distinct = distinct (expression, input)',
        C09.cases, owner_direct=('json', 'evalbytes'), value_compare=False, panics_are='C09', post=undefined_iff)
