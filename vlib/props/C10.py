"""C10 — results are JSON-representable; ErrUndefined iff no value; EvalBytes agrees."""
from ..engine import simple_run, classify, outside_model
from . import C09

def undefined_iff(ck, part, res):
    """ErrUndefined is reported exactly when the model says the expression has no value
    (null-free documents; programs inside the modelled domain)."""
    byid = {c['id']: c for c in part}
    for cid, r in res.items():
        c = byid[cid]
        if 'nulldoc' in c.get('tags', []) or r.get('compile', 'ok') != 'ok' or outside_model(c, r):
            continue
        i, m = r.get('impl', ''), r.get('model') or ''
        if not m or m.startswith('X') or 'S756e6d6f64656c6c6564' in m or m.startswith('P') or i.startswith('P') or i == 'H':
            continue
        ck.stats['undefined_iff_checked'] += 1
        if (i == 'U') != (m == 'U') and (i[:1] in 'UV') and (m[:1] in 'UV'):
            ck.failing_case(c, r, 'direct:undefined-iff: implementation reports %s where the model has %s' % (i[:60], m[:60]))

EXTREME = ['1e308', '-1e308', '1.7976931348623157e308', '-1.7976931348623157e308', '9e307', '5e-324', '-5e-324', '0', '-0', '1', '-1', '2', '0.5', '1e-308', '1e200', '-1e200', '1e154', '1.5e154']

def cases(tier, seed):
    """C09's programs, plus every number-producing operation at the edge of the double range: a nil
    error must never come with an infinity or a NaN, wherever the number ends up in the result."""
    import itertools, random
    rng = random.Random(seed)
    out = C09.cases(tier, seed)
    n = 0
    def add(expr, doc, tags=()):
        nonlocal n; n += 1
        out.append({'id': 'x%d' % n, 'kind': 'eval', 'expr': expr, 'input': doc, 'tags': list(tags)})
    wrappers = ['%s', '[%s]', '{"k": %s}', '$map([1], function($v){%s})', '[1, [%s]]', '($x := %s; $x)', '$string(%s)', '(%s) = (%s)']
    for op in ['+', '-', '*', '/', '%']:
        for a, b in itertools.product(EXTREME, EXTREME):
            w = rng.choice(wrappers) if tier == 'quick' else None
            for ww in ([w] if w else wrappers):
                e = '(%s) %s (%s)' % (a, op, b)
                add(ww.replace('%s', e), None, ('edge', 'binop'))
            add('a %s b' % op, {'a': float(a), 'b': float(b)}, ('edge', 'binop-doc'))
    for a in EXTREME:
        for f in ['-(%s)', '$abs(%s)', '$floor(%s)', '$ceil(%s)', '$round(%s)', '$round(%s, 2)', '$round(%s, -2)', '$round(%s, -308)', '$round(%s, 308)', '$sqrt(%s)', '$number("%s")', '$number("%s0")', '$string(%s)',
                  '$power(%s, 2)', '$power(%s, -1)', '$power(%s, 0.5)', '$power(2, %s)', '$power(10, %s)', '$sum([%s, %s])', '$sum([%s, %s, %s])', '$average([%s, %s])', '$max([%s, 1])', '$min([%s, 1])',
                  '$reduce([%s, %s], function($p, $q){$p + $q})', '$reduce([%s, %s], function($p, $q){$p * $q})', '$formatBase(%s, 2)', '$formatNumber(%s, "0")', '$formatNumber(%s, "0.0e0")', '$formatNumber(%s, "0%%")',
                  '[1..%s]', '$count([1..%s])', '$pad("x", %s)', '$substring("abc", %s)', '$fromMillis(%s)', '$sum(a.(%s * 2))', '[%s][0] * [%s][0]', '$number($string(%s) & "0")', '$number("%se1")', '%s * 10 / 10']:
            e = f.replace('%s', a) if '%%' not in f else f.replace('%s', a).replace('%%', '%')
            if ('[1..' in e or '$pad' in e) and a not in ('0', '-0', '1', '-1', '2', '0.5', '5e-324', '-5e-324', '1e-308'):
                continue  # sizes are bounded (C09's quantifier)
            add(e, {'a': [1, 2]}, ('edge', 'unary'))
    # 'no value' produced INSIDE built-ins: callbacks that yield nothing on the first / a middle / the last / every member,
    # for every higher-order function; the outcome must be 'no value' (ErrUndefined) or a value without holes, never a
    # null that stands for a missing result
    cbs1 = ['function($v,$i){$i = 0 ? $v}', 'function($v,$i){$i > 0 ? $v}', 'function($v,$i,$a){$i = $count($a) - 1 ? nothing : $v}', 'function($v){nothing}', 'function($v){$v.nosuch}', 'function($v,$i){$i = 1 ? nothing : $v}']
    cbs2 = ['function($p,$q){$q > 5 ? $p + $q}', 'function($p,$q){nothing}', 'function($p,$q){$q = 7 ? nothing : $p}', 'function($p,$q){$q = 6 ? nothing : $q}', 'function($p,$q){$p.nosuch}', 'function($p,$q){$exists($p) ? nothing : $q}', 'function($p,$q){$q < $$.limit ? $p + $q}']
    subs = ['[5]', '[5,6]', '[5,6,7]', '[7,6,5]', '[]', '5', 'nums']
    wr = ['%s', '[%s]', '$exists(%s)', '{"r": %s}', '$string(%s)', '$count(%s)', '%s ~> $type()']
    for sb in subs:
        for cb in cbs1:
            for h in ['$map(%s, %s)', '$filter(%s, %s)', '$single(%s, %s)', '$each({"a": 1, "b": 2}, %.0s%s)', '$sift({"a": 1, "b": 2}, %.0s%s)', '$sort(%s, %s)']:
                add(rng.choice(wr) % (h % (sb, cb)), {'nums': [5, 6, 7], 'limit': 7}, ('hof-undefined',))
        for cb in cbs2:
            for init in ['', ', 0', ', nothing']:
                add(rng.choice(wr) % ('$reduce(%s, %s%s)' % (sb, cb, init)), {'nums': [5, 6, 7], 'limit': 7}, ('hof-undefined',))
    return out

def run(tier, seed, replay=None):
    return simple_run('C10', tier, seed + 7, replay,
        'every arithmetic operator on all ordered pairs of 18 edge-of-range operands (literal and from the document, nested in arrays/objects/$map results) and 39 numeric built-in forms on each; same generator as C09 (directed and chaotic programs, every built-in, JSON inputs incl. nulls): every nil-error result is walked for non-JSON dynamic types and non-finite numbers, '
        'marshalled, and compared with EvalBytes on the same input text; ErrUndefined is compared with the model verdict "no value"; distinct = distinct (expression, input)',
        cases, owner_direct=('json', 'evalbytes'), value_compare=False, panics_are='C09', post=undefined_iff, quiet_tie=True)
