"""C09 — Eval is total: outcomes are returned, never thrown, even for ill-typed programs.
C10 shares the generator (see C10.py)."""
import random, json
from ..engine import simple_run
from ..gen.exprs import Gen, BUILTINS
from ..gen.common import gen_doc, struct_field_names

CORPUS = [
    ('a.b', {"a": [[[{"b": 1}]]]}), ('a.b[0]', {"a": [[[{"b": 1}]]]}), ('x[$$.idx]', {"x": [10, 20, 30], "idx": [0, 2]}), ('arr[o]', {"arr": [[1]]}),
    ('$distinct([[1],[1]])', None), ('$sum.*', None), ('$type($lookup({},"a"))', None), ('$formatNumber(0,"0.0e0")', None), ('$sum([1e308,1e308])', None),
    ('function($x, $y)<nn+>{$y}(1, nothing)', None), ('$string.x', None), ('[$sum.name]', None), ('$keys($sum)', None), ('$distinct([$sum, $sum])', None), ('$sum.**', None),
    ('$each($sum, function($v){$v})', None), ('$spread($sum)', None), ('$merge([$sum])', None), ('$sift($sum, function($v){true})', None), ('$lookup($sum, "name")', None),
    ('{"a": $sum}.a.b', None), ('[$sum][0].x', None), ('$string([$sum, function(){1}])', None), ('$count($sum)', None), ('$reverse($sum)', None), ('$append($sum, $sum)', None),
    ('$zip($sum)', None), ('$sort([$sum])', None), ('$shuffle($sum)', None), ('$boolean($sum)', None), ('$exists($sum)', None), ('$not($sum)', None), ('$sum ~> $string', None),
    ('$replace("abc", /b/, "$9999999999999999999")', None), ('$formatNumber(-1, "0e0")', None), ('$pad("a", 1000)', None), ('$formatBase(1e300, 2)', None), ('$round(1e300, 400)', None),
    ('$round(1, 1e300)', None), ('$substring("abc", 1e300)', None), ('$substring("abc", -1e300, 1e300)', None), ('$fromMillis(1e300)', None), ('$fromMillis(-1e300)', None),
    ('$power(-8, 1/3)', None), ('$sqrt(-1)', None), ('1/0', None), ('-1/0', None), ('0/0', None), ('$number("1e999")', None), ('[1..1e8]', None), ('$map([1,2], $map)', None),
    ('$reduce([1,2,3], $reduce)', None), ('$filter([1], $filter)', None), ('$sort([1,2], $sort)', None), ('$each({"a":1}, $each)', None), ('$sift({"a":1}, $sift)', None),
    ('$single([1], $single)', None), ('$map($map, $map)', None), ('null.a', {'a': 1}), ('a.null', {'a': 1}), ('$$.$$.$$', {'a': 1}), ('**.**.**', {'a': {'b': [1, {'c': 2}]}}),
    ('a^(k)', {'a': [{'k': 1}, {}, {'k': 'x'}]}), ('a^(k)', {'a': [{'k': 'x'}, {}, {}, {'k': 1}]}), ('a^(>k)', {'a': [{'k': 1}, {'k': 'x'}, {}]}), ('a^(k, j)', {'a': [{'k': 1, 'j': 1}, {'k': 1}, {'k': 1, 'j': 'x'}]}),
    ('$ ~> |$|{"self": $}|', {'a': 1}), ('$ ~> |a|{"up": $$}|', {'a': {'b': 1}}),
    ('$fromMillis(0, "[ ]")', None), ('$fromMillis(0, "[Y]-[\t]")', None), ('$toMillis("2020", "[ ]")', None), ('$now("[  ]")', None), ('$fromMillis(0, "[Y,*-64]")', None), ('$fromMillis(0, "[")', None),
    ('(true ? $uppercase : $lowercase)()', 'x'), ('a.((b ? $substringAfter : $substringBefore)("-"))', {'a': 'p-q', 'b': True}),
    ('*[0][0][0]', {'a': [[1]]}), ('$[0][0]', [[1]]), ('[[[]]][0][0][0]', None), ('{}[0]', None), ('{}.a.b.c', None), ('$keys({})', None), ('$merge([])', None), ('$spread([])', None),
]

def cases(tier, seed, chaos=0.25):
    rng = random.Random(seed)
    out = []; n = 0
    def add(expr, doc, tags=()):
        nonlocal n; n += 1
        out.append({'id': 'c%d' % n, 'kind': 'eval', 'expr': expr, 'input': doc, 'tags': list(tags)})
    for e, d in CORPUS:
        add(e, d, ('corpus',))
    deny = ('random', 'shuffle', 'now', 'millis')
    docs = [gen_doc(rng, 3, 3) for _ in range(30)] + [None, [], {}, [[]], [[1, [2, [3]]]], {'a': None, 'b': [None]}, 0, '', 'str', True]
    N = 4000 if tier == 'quick' else 250000
    for i in range(N):
        g = Gen(rng, chaos=(chaos if i % 2 else 0.03), deny=deny)
        e = g.program(rng.randint(1, 4))
        d = rng.choice(docs)
        add(e, d, ('chaotic' if i % 2 else 'directed', 'nulldoc' if d is None or (isinstance(d, dict) and None in d.values()) else 'plain'))
    # functions used as data: a name step on a function value, for every identifier that is a struct field
    # somewhere in the implementation (function values are Go structs), under every kind of consumer
    fvals = ['$sum', 'function($x){$x}', 'function($x)<n:n>{$x}', '/a/', '$substring(?, 1)', '($string ~> $length)', '|a|{"z":1}|', '$f']
    wraps = ['%s', '$string(%s)', '%s[0]', '$type(%s)', '%s.*', '$keys(%s)', '$count(%s)', '[%s]', '{"k": %s}', '%s = 1', '$reverse(%s)', '$distinct(%s)', '$append(%s, 1)', '%s ~> $string', '$exists(%s)', '%s.**', '$boolean(%s)', '%s & ""']
    fields = struct_field_names()
    for fv in fvals:
        for nm in fields:
            for w in (rng.sample(wraps, 3) if tier == 'quick' else wraps):
                e = w % ('%s.%s' % (fv, nm))
                if fv == '$f': e = '($f := $uppercase; %s)' % e
                add(e, {}, ('funcfield',))
            if tier != 'quick' or rng.random() < 0.2:
                add('$string(%s.%s.%s)' % (fv, nm, rng.choice(fields)), {}, ('funcfield',))
                add('[%s, %s].%s' % (fv, rng.choice(fvals[:7]), nm), {}, ('funcfield',))
    # every higher-order built-in with callbacks of every arity 0..6 (lambdas, typed lambdas, multi-parameter built-ins, partials)
    cbs = ['function(){1}', 'function($a){$a}', 'function($a,$b){$b}', 'function($a,$b,$c){$c}', 'function($a,$b,$c,$d){$d}', 'function($a,$b,$c,$d,$e){$e}', 'function($a,$b,$c,$d,$e,$g){$g}',
           '$replace', '$substring', '$pad', '$split', '$formatNumber', '$reduce', '$replace(?, ?, ?, ?)', '$substring(?, ?, ?)', 'function($a,$b,$c,$d)<xxxx:x>{$d}', '$sum', '$string', '$zip', '$append', '$match', '/a/']
    hofs = ['$map(%s, %s)', '$filter(%s, %s)', '$single(%s, %s)', '$reduce(%s, %s)', '$reduce(%s, %s, 0)', '$each(%s, %s)', '$sift(%s, %s)', '$sort(%s, %s)', '$replace("aXbX", "X", %.0s%s)', '$replace("aXbX", /X/, %.0s%s)', '%s ~> %s']
    subs = ['[1]', '[1,2,3]', '["a","b"]', '5', '{"a":1,"b":2}', '[{"a":1}]', '[]', 'nothing', '[[1]]']
    for h in hofs:
        for cb in cbs:
            for sb in (rng.sample(subs, 3) if tier == 'quick' else subs):
                add(h % (sb, cb), {}, ('hof-arity',))
    # every numeric parameter of every built-in at the edges of the integer and double ranges (other arguments valid)
    edges = ['-9223372036854775808', '9223372036854775807', '-9223372036854775809', '9223372036854775808', '1e19', '-1e19', '1e300', '-1e300', '2147483647', '2147483648', '-2147483648', '-2147483649',
             '4294967296', '10000000', '10000001', '-10000000', '-10000001', '0.5', '-0.5', '1e-300', '-0', '1.7976931348623157e308', '-1.7976931348623157e308', '5e-324', '9007199254740993', '4611686018427387904', '-4611686018427387904']
    valid = {'s': '"héllo wörld"', 'n': '2', 'x': '"v"', 'b': 'true', 'a': '[3,1,2]', 'an': '[3,1,2]', 'as': '["b","a"]', 'ao': '[{"a":1}]', 'o': '{"a":1}', 'f1': 'function($v){$v}', 'f2': 'function($p,$q){$p}',
             'f': 'function($v){$v}', 'pic': '"#,##0.00"', 're': '/l+/', 'dpic': '"[Y]-[M01]"', 'fcmp': 'function($l,$r){$l > $r}'}
    for (name, rt, ats) in BUILTINS + [('fromMillis', 's', ['n', 'dpic?', 's?']), ('formatNumber', 's', ['n', 'pic']), ('substring', 's', ['s', 'n', 'n?']), ('pad', 's', ['s', 'n', 's?']), ('round', 'n', ['n', 'n?']),
                                       ('split', 'a', ['s', 's', 'n?']), ('replace', 's', ['s', 's', 's', 'n?']), ('match', 'a', ['s', 're', 'n?']), ('formatBase', 's', ['n', 'n?']), ('power', 'n', ['n', 'n'])]:
        base = [a.rstrip('?') for a in ats]
        for i, at in enumerate(base):
            if at != 'n':
                continue
            for ed in (edges if tier != 'quick' else rng.sample(edges, 12)):
                if name in ('pad',) and False:
                    continue
                args = [valid.get(t, '1') for t in base]
                args[i] = ed
                if name == 'split' and i == 2: args[1] = '"l"'
                if name == 'replace': args[1] = '"l"'; args[2] = '"L"'
                add('$%s(%s)' % (name, ', '.join(args)), {}, ('edge-int',))
                if rng.random() < 0.2:
                    add('$%s(%s)' % (name, ', '.join(args[:i] + ['v'] + args[i + 1:])), {'v': float(ed)}, ('edge-int',))
    for ed in edges:
        add('[1,2,3][%s]' % ed, {}, ('edge-int',)); add('"abc" ~> $substring(%s, %s)' % (ed, ed), {}, ('edge-int',)); add('[1..3][[0, %s]]' % ed, {}, ('edge-int',))
    # pictures with hundreds of digit positions (the number of mandatory digits exceeds what a double can scale to)
    for w in (5, 17, 18, 23, 100, 308, 309, 310, 311, 325, 400, 1000):
        for tail in ['', 'e0', 'e00', '.0', '.0e0', '%', ',000', '#']:
            for x in ['1', '0', '-1', '12345.678', '1e300', '5e-324', '0.5']:
                if tier == 'quick' and rng.random() < 0.6:
                    continue
                add('$formatNumber(%s, $pad("", %d, "0") & "%s")' % (x, w, tail), {}, ('wide-picture',))
                if rng.random() < 0.3:
                    add('$formatNumber(%s, $pad("", %d, "#") & "0%s")' % (x, w, tail), {}, ('wide-picture',))
                    add('$formatNumber(%s, "0." & $pad("", %d, "0") & "%s")' % (x, w, tail.replace('.0', '')), {}, ('wide-picture',))
    for w in (50, 64, 65, 100, 1000, 65536, 65537):
        add('$fromMillis(0, "[Y,%d]")' % w, {}, ('wide-picture',)); add('$fromMillis(0, "[MNn,%d]")' % w, {}, ('wide-picture',)); add('$fromMillis(0, "[Y,*-%d]")' % w, {}, ('wide-picture',))
        add('$formatBase(%d, 2)' % (2 ** min(w, 1000)), {}, ('wide-picture',)); add('$pad("x", %d) ~> $length()' % w, {}, ('wide-picture',))
    # every built-in at every arity 0..4 with chaotic arguments
    atoms = ['1', '"s"', 'true', 'null', '[]', '[1,2]', '{}', '{"a":1}', '$sum', 'function($x){$x}', 'nothing', '/a/', '-1', '1e300', '""', '[[1]]', '["a","b"]', '$', 'a']
    for (name, rt, ats) in BUILTINS + [('error', 'x', ['s']), ('fromMillis', 's', ['n']), ('toMillis', 'n', ['s']), ('match', 'a', ['s', 'f']), ('encodeUrl', 's', ['s']), ('decodeUrl', 's', ['s'])]:
        for k in range(0, 5):
            for _ in range(3 if tier == 'quick' else 40):
                add('$%s(%s)' % (name, ', '.join(rng.choice(atoms) for _ in range(k))), rng.choice(docs), ('arity',))
    return out

def run(tier, seed, replay=None):
    return simple_run('C09', tier, seed, replay,
        'every numeric parameter of every built-in at 27 edges of the integer/double ranges; every higher-order built-in x 22 callbacks of arity 0..6 x 9 subjects; name steps on function values for every struct field identifier found in the implementation source x 18 consumers; type-directed (chaos 3%) and type-chaotic (chaos 25%) programs of depth <= 4 over every node type and every built-in at arities 0..4 with arguments of every kind incl. functions used as data, '
        'nested arrays, regexes, huge numbers; JSON inputs incl. nulls, empty containers and arrays nested in arrays; corpus of every quoted witness; sizes bounded; '
        'a panic or hang of the implementation is the violation; outcome classes are also compared with the model; distinct = distinct (expression, input)',
        cases, owner_direct=(), value_compare=False, quiet_tie=True)
