"""C12 — scoping, closures, signatures, partial application, chaining, context defaulting."""
import itertools, random
from ..engine import simple_run
from ..gen.common import lit

ARGS = ['1', '"s"', 'true', '[1,2]', '["a"]', '{"a":1}', '$sum', 'nothing', 'null', '[]', '[[1]]', '[1,"a"]']
SIG1 = ['n', 's', 'b', 'a', 'o', 'f', 'j', 'x', 'l', '(ns)', '(sa)', 'a<n>', 'a<s>', 'a<(ns)>', 'n?', 's?', 'n+', 's+', 'x+', 'n-', 's-', 'a<n>?', 'a<a<n>>', 'f<n:n>', 'o-', 'a-']

def cases(tier, seed):
    rng = random.Random(seed)
    out = []; n = 0
    def add(expr, doc=None, tags=()):
        nonlocal n; n += 1
        out.append({'id': 'c%d' % n, 'kind': 'eval', 'expr': expr, 'input': doc, 'tags': list(tags)})
    doc = {'a': 'ctx-a', 'n': 7, 'arr': [3, 4], 'o': {'a': 'inner'}, 'list': [{'s': 'ab-cd'}, {'s': 'ef-gh'}]}
    # signatures: exhaustive one-parameter signatures x argument lists of length 0..2; two-parameter x length 0..3
    for s in SIG1:
        for k in range(0, 3):
            for args in itertools.product(ARGS, repeat=k):
                if k == 2 and tier == 'quick' and rng.random() < 0.6:
                    continue
                add('function($p)<%s>{[$p]}(%s)' % (s, ', '.join(args)), doc, ('sig1',))
    two = list(itertools.product(SIG1, SIG1))
    if tier == 'quick':
        two = rng.sample(two, 80)
    for s1, s2 in two:
        for k in range(0, 4):
            argl = [tuple(rng.choice(ARGS) for _ in range(k)) for _ in range(2 if tier == 'quick' else 6)]
            for args in argl:
                add('function($p,$q)<%s%s>{[$p,$q]}(%s)' % (s1, s2, ', '.join(args)), doc, ('sig2',))
    for s1, s2 in [('n-', 'n?'), ('s-', 's?'), ('x-', 'x?'), ('n-', 'n?n?'), ('s-', 'ns?'), ('a-', 'n?'), ('o-', 's?s?')]:
        k = 1 + s2.count('n') + s2.count('s') + s2.count('x')
        names = ', '.join('$p%d' % i for i in range(k))
        for nargs in range(0, k + 2):
            for _ in range(3):
                args = ', '.join(rng.choice(ARGS) for _ in range(nargs))
                for ctx in ['n', 'a', 'arr', 'o', 'list']:
                    add('%s.function(%s)<%s%s>{[%s]}(%s)' % (ctx, names, s1, s2, names, args), doc, ('sig-ctx-opt',))
    for s in ['nn:n', 'n:n', ':n', 'n<s>', 'x<n>', '()', 'n??', '+', 'nns', 'q', 'a<n', '(n', 'a<>']:
        add('function($p)<%s>{$p}(1)' % s, doc, ('sigparse',))
        add('function($p,$q)<%s>{$p}(1,2)' % s, doc, ('sigparse',))
    # scoping / closures
    progs = [
        '($x := 1; ($x := 2; $x); $x)', '($x := 1; $f := function(){$x}; $x := 2; $f())', '($x := 1; $f := function($x){$x}; [$f(5), $x])',
        '(($y := 3); $y)', '($f := function($n){$n <= 1 ? 1 : $n * $f($n - 1)}; $f(6))', '($f := function($n){$n = 0 ? 0 : $g($n - 1)}; $g := function($n){$n = 0 ? 1 : $f($n - 1)}; [$f(4), $g(4)])',
        '($add := function($a){function($b){$a + $b}}; $add(2)(3))', '($c := function(){a}; o.$c())', 'o.(function(){a})()', '($f := function(){$}; o.$f())',
        '($f := function($x, $y){[$x, $y]}; [$f(), $f(1), $f(1,2), $f(1,2,3)])', '($x := 1; [1,2].($x := $; $x); $x)', '[1,2,3].($y := $ * 2; $y)',
        '($count := function($z){"shadow"}; $count([1,2]))', '($sum := 5; $sum)', '($a := a; $b := o.a; [$a, $b])', '(a; n)', '()', '(;)', '($x := ($y := 4; $y + 1); [$x, $y])',
        '($f := function($k){$k > 0 ? $f($k - 1) & "x" : ""}; $f(20))', '($twice := function($f){function($x){$f($f($x))}}; $twice(function($x){$x * 3})(2))',
        '$map([1,2,3], function($v){function(){$v}}).$()', '($fs := [1,2].(function(){$}); $fs[0]())',
    ]
    for p in progs:
        add(p, doc, ('scope',))
    # generated scoping programs: assignments in every position an expression can stand (block items, condition
    # branches, array and object members, arguments, function bodies, path steps), nested blocks, closures
    # created before and after re-binding; the result lists what every variable denotes at the end
    VARS = ['$x', '$y', '$z']
    def sexpr(d):
        k = rng.random()
        if d <= 0 or k < 0.18:
            return rng.choice(VARS + ['1', '2', '"s"', 'n', 'nothing', '$x + 1', '$y & "!"'])
        if k < 0.34: return '%s := %s' % (rng.choice(VARS), sexpr(d - 1))
        if k < 0.5: return sblock(d - 1)
        if k < 0.6: return '(%s ? %s : %s)' % (rng.choice(['true', 'false', '$x = 1', '$exists($y)']), sexpr(d - 1), sexpr(d - 1))
        if k < 0.66: return '(%s ? %s)' % (rng.choice(['true', 'false', '$exists($z)']), sexpr(d - 1))
        if k < 0.74: return '[%s]' % ', '.join(sexpr(d - 1) for _ in range(rng.randint(1, 2)))
        if k < 0.8: return '{"k": %s}' % sexpr(d - 1)
        if k < 0.86: return 'function(){%s}()' % sexpr(d - 1)
        if k < 0.9: return 'function(%s){%s}(%s)' % (rng.choice(VARS), sexpr(d - 1), sexpr(0))
        if k < 0.94: return 'arr.(%s)' % sexpr(d - 1)
        if k < 0.97: return '$string(%s)' % sexpr(d - 1)
        return '(%s) + 1' % sexpr(d - 1)
    def sblock(d):
        items = [sexpr(d) for _ in range(rng.randint(1, 3))]
        return '(%s)' % '; '.join(items)
    # functions created inside nested scopes that READ outer variables, returned to the outer block, and called after the
    # outer block has re-bound those variables: a function value refers to the bindings of its definition site, it does
    # not snapshot them
    inner_reads = ['$seen := $x', '$x', '[$x, $y]', '$x + 1', '$string($y)', '$exists($z)']
    makers = ['function(){$x}', 'function(){[$x, $y]}', 'function($k){$x + $k}', 'function(){function(){$x}}()', 'function(){$y & "/" & $x}']
    for rd, mk in itertools.product(inner_reads, makers):
        for rebind in ['$x := 2', '$x := $x + 10', '$y := "later"', '$x := 5; $y := "q"', '($x := 99)', 'nothing']:
            arg = '3' if '$k' in mk else ''
            add('($x := 1; $y := "first"; $get := (%s; %s); %s; $get(%s))' % (rd, mk, rebind, arg), doc, ('scope-closure',))
            add('($x := 1; $y := "first"; $mk := function(){(%s; %s)}; $get := $mk(); %s; [$get(%s), $mk()(%s)])' % (rd, mk, rebind, arg, arg), doc, ('scope-closure',))
            add('($x := 1; $y := "first"; $gs := [1,2].(%s; %s); %s; $gs[0](%s))' % (rd, mk, rebind, arg), doc, ('scope-closure',))
    for i in range(900 if tier == 'quick' else 60000):
        pre = []
        for v in rng.sample(VARS, rng.randint(0, 3)):
            pre.append('%s := %s' % (v, rng.choice(['1', '"a"', '[1,2]'])))
        if rng.random() < 0.4:
            pre.append('$f := function(){[$x, $y]}')
        mid = [sexpr(rng.randint(1, 3)) for _ in range(rng.randint(1, 2))]
        fin = '[%s%s]' % (', '.join('{"v": %s}' % v for v in VARS), ', $f()' if any(p.startswith('$f') for p in pre) else '')
        add('(%s)' % '; '.join(pre + ['$r := (%s)' % m if rng.random() < 0.3 else m for m in mid] + [fin]), doc, ('scope-gen',))
    # partial application
    for f, call in itertools.product(['$substring(?, 1, ?)', '$substring("hello", ?, ?)', '$append(?, 9)', '$pad(?, 5)', '$power(?, 2)', 'function($a,$b,$c){[$a,$b,$c]}(?, "m", ?)',
                                      '$string(?)', '$substringBefore(?, "-")', '($p := $substringAfter(?, "-"); $p)', '$join(?, ?)', '5(?)', 'nothing(?)', '"s"(?)'],
                                     ['()', '(1)', '("hello-world")', '(1, 2)', '("ab-cd", 1)', '(["a","b"], "+")', '(1,2,3,4)']):
        add('%s%s' % (f, call), doc, ('partial',))
    # a partial application captures the context item of the place where it is DEFINED (its bound arguments are evaluated
    # there); calling it under another context item (call syntax, ~>, $map, bare ~>) must not change that
    d2 = {'rate': 10, 'sep': '-', 'a': 'ctx-a', 'items': [{'qty': 2, 'rate': 100, 'sep': '+', 's': 'ab-cd+ef', 'a': 'item-a'}, {'qty': 3, 'rate': 1000, 'sep': 'c', 's': 'gh-ij+kl', 'a': 'item-b'}]}
    defs = ['$p := $power(?, rate)', '$p := $substringAfter(?, sep)', '$p := $substringBefore(?, sep)', '$p := function($x, $y){[$x, $y]}(?, a)', '$p := $append(?, rate)', '$p := $pad(?, rate, sep)', '$p := $join(?, sep)', '$p := $string(?) ~> $append(a)']
    uses = ['items.$p(qty)', 'items.$p(s)', 'items.(qty ~> $p())', 'items.(s ~> $p)', '$map(items.s, $p)', 'items.($q := $p; $q(s))', '[items.$p(s), $p("x-y+z")]', '[$p("x-y+z"), items.$p(s), $p("x-y+z")]', 'items[0].$p([s])', 'items.qty.$p($)']
    for df, us in itertools.product(defs, uses):
        add('(%s; %s)' % (df, us), d2, ('partial', 'partial-context'))
        add('items[1].(%s; $$.%s)' % (df, us), d2, ('partial', 'partial-context'))
    add('$type($substring(?, 1))', doc, ('partial',)); add('list.$substringBefore(?, "-")(s)', doc, ('partial',))
    # chaining
    chain_l = ['4', '"hello-world"', '[1,2,3]', 'n', 'nothing', '$sum', '$uppercase']
    chain_r = ['$power(2)', '$string()', '$string', '$uppercase', '$substringBefore("-")', '$sum()', '$sum', '$count', 'function($x){$x}', '$substring(?, 1)', '5', '"s"', 'nothing', '$append(9)', '$power(?, 2)']
    for l in chain_l:
        for k in range(1, 5 if tier != 'quick' else 3):
            combos = list(itertools.product(chain_r, repeat=k))
            if len(combos) > (60 if tier == 'quick' else 2500):
                combos = rng.sample(combos, 60 if tier == 'quick' else 2500)
            for rs in combos:
                add(' ~> '.join((l,) + rs), doc, ('chain',))
    # composed functions are values: bound to a variable, extended several times, each extension used afterwards.
    # stage i maps x to 10x+i, so the digits of the result spell the order in which the stages ran
    def stage(i): return 'function($x){$x * 10 + %d}' % i
    for k in range(1, 7):
        for ext in range(1, 4):
            for el in (1, 2):
                base = ' ~> '.join(stage(i + 1) for i in range(k))
                exts = []
                d = 7
                for j in range(ext):
                    exts.append('$e%d := $base ~> %s' % (j, ' ~> '.join(stage((d + j * el + t) % 10) for t in range(el))))
                calls = ', '.join(['$e%d(0)' % j for j in range(ext)] + ['$base(0)'] + ['$e%d(5)' % j for j in reversed(range(ext))])
                add('($base := %s; %s; [%s])' % (base, '; '.join(exts), calls), doc, ('chain', 'chain-values'))
                add('($s1 := %s; $base := %s; %s; [%s])' % (stage(1), ' ~> '.join(['$s1'] * k), '; '.join(exts), calls), doc, ('chain', 'chain-values'))
    add('($f := $uppercase ~> $substring(?, 0, 2); $g := $f ~> $length; $h := $f ~> $lowercase; [$f("hello"), $g("hello"), $h("hello")])', doc, ('chain', 'chain-values'))
    add('($f := $uppercase ~> $substring(?, 0, 2); $f("hello"))', doc, ('chain',)); add('(4 ~> $power(2)) = $power(4, 2)', doc, ('chain',))
    # context-defaulting built-ins nested in each other's arguments under different contexts
    ctxfns = [('$string()', 'x'), ('$length()', 's'), ('$substringBefore("-")', 's'), ('$substringAfter("-")', 's'), ('$uppercase()', 's'), ('$substring(1)', 's'),
              ('$pad(8)', 's'), ('$contains("b")', 's'), ('$split("-")', 's'), ('$number()', 's'), ('$boolean()', 'x'), ('$keys()', 'o'), ('$lookup("s")', 'o'), ('$type()', 'x'), ('$trim()', 's')]
    for (f, _), (g, _) in itertools.product(ctxfns, ctxfns):
        inner = g
        outer = f.replace('("-")', '($$.o.a.%s)' % inner.lstrip('$').join(['$', '']) if False else '("-")')
        add('list.s.%s' % f, doc, ('ctx',))
        add('list.(s.%s & "|" & $$.a.%s)' % (f, g), doc, ('ctx',))
        add('list.s.$substringBefore($$.a.%s)' % g if g.startswith('$substring') or g in ('$string()', '$uppercase()', '$trim()') else 'list.s.%s' % f, doc, ('ctx',))
    add('a.$substringBefore($$.b.c.$substringBefore("z"))', {'a': 'hello-world', 'b': {'c': '-wzzz'}}, ('ctx',))
    add('list.s.$substringBefore($$.a.$substringAfter("x"))', doc, ('ctx',))
    # non-callables
    for e in ['5()', '"s"(1)', 'nothing()', 'a()', '[1]()', '{}()', '(1 ~> 2)', '1 ~> a', '$undefinedfn(1)', 'true()', 'null()']:
        add(e, doc, ('noncallable',))
    return out

def run(tier, seed, replay=None):
    return simple_run('C12', tier, seed, replay,
        'signatures: every one-parameter signature (type letters, unions, array subtypes, ? + -) against all argument lists of length 0..2 over 12 '
        'argument kinds, sampled two-parameter signatures against lists of length 0..3; signature syntax errors; block scoping / shadowing / closures / '
        'recursion programs; partials with placeholders in every position; chains of length 1..4 over values, calls, bare functions, partials; '
        'context-defaulting built-ins nested in each other under different path contexts; non-callables; distinct = distinct (expression, input)',
        cases)
