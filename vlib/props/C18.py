"""C18 — number conversion, rounding and formatting: exact and always terminating."""
import itertools, random, math, struct
from ..engine import simple_run

def fl(x):
    """JSONata literal of a double (repr round-trips)"""
    if x == 0 and math.copysign(1, x) < 0:
        return '-0'
    r = repr(float(x))
    if r.endswith('.0'): r = r[:-2]
    return r

def doubles(rng, n):
    out = [0.0, -0.0, 1.0, -1.0, 0.5, 1.5, 2.5, -2.5, 0.125, 0.375, 1e21, 1e-7, 1e-6, 123456.0, 1234567.0, 0.1, 0.2, 0.30000000000000004, 5e-324, 1.7976931348623157e308,
           2.0 ** 53, 2.0 ** 53 + 2, 2.0 ** 52 + 0.5, 450359962737049.7, 4503599627370497.0, 1e15, 1e16, 999999999999999.9, 0.045, 1.005, 2.675, 1.45, 8.345, 0.5e-6, 12345.6789, 100.0, 1e100]
    for _ in range(n):
        k = rng.random()
        if k < 0.3: out.append(float(rng.randint(-10 ** 6, 10 ** 6)))
        elif k < 0.6:
            d = rng.randint(0, 6); out.append(rng.randint(-10 ** 7, 10 ** 7) / 10 ** d)
        elif k < 0.7: out.append(10.0 ** rng.randint(-12, 21))
        elif k < 0.8:
            t = (rng.randint(-10 ** 5, 10 ** 5) * 2 + 1) / 2 / 10 ** rng.randint(0, 4)
            out.append(math.nextafter(t, rng.choice([math.inf, -math.inf])) if rng.random() < 0.5 else t)
        elif k < 0.9: out.append(struct.unpack('>d', struct.pack('>Q', rng.getrandbits(64) & 0x7fefffffffffffff | (rng.getrandbits(1) << 63)))[0])
        else: out.append(rng.uniform(-1000, 1000))
    return [x for x in out if math.isfinite(x)]

INT_PICS = ['0', '#', '#0', '000', '#,##0', '#,###', '0,000', '##,#0,00', '#,##,##0', '00000']
FRAC_PICS = ['', '.0', '.00', '.#', '.##', '.0#', '.000', '.0##', '.#0']
def gen_picture(rng):
    k = rng.random()
    p = rng.choice(INT_PICS) + rng.choice(FRAC_PICS)
    if k < 0.12: p += rng.choice(['%', '‰'])
    elif k < 0.3: p = rng.choice(['0', '00', '#0', '0.0', '0.00', '00.0#', '#.0']) + 'e' + rng.choice(['0', '00', '000'])
    if rng.random() < 0.25: p = rng.choice(['$', 'x ', '(', 'EUR ']) + p
    if rng.random() < 0.25: p = p + rng.choice([' kg', ')', 'x', ' %' if '%' not in p else 'y'])
    if rng.random() < 0.15: p = p + ';' + rng.choice(['(#0.0)', '-#,##0.00', 'neg 0', '#'])
    return p
def mutate_picture(rng, p):
    ops = [lambda s: s + rng.choice(['.', ',', ';', 'e', '%', '0', '#', ',,', '.0.0', 'e0e0']), lambda s: rng.choice([',', '.', '%', 'e', ';']) + s,
           lambda s: s.replace('0', '', 1), lambda s: s.replace('.', ',.') if '.' in s else s + ',', lambda s: s[:len(s) // 2] + rng.choice(['#0#', '0#0', '%%', ';;', 'ee']) + s[len(s) // 2:],
           lambda s: '', lambda s: s.replace('#', '0#', 1)]
    return rng.choice(ops)(p)

def cases(tier, seed):
    rng = random.Random(seed)
    out = []; n = 0
    def add(expr, doc=None, tags=()):
        nonlocal n; n += 1
        out.append({'id': 'c%d' % n, 'kind': 'eval', 'expr': expr, 'input': doc, 'tags': list(tags)})
    ds = doubles(rng, 400 if tier == 'quick' else 30000)
    for x in ds:
        l = fl(x)
        add('$string(%s)' % l, None, ('string',))
        add('$number($string(%s)) = %s' % (l, l), None, ('roundtrip',))
        add('[$floor(%s), $ceil(%s), $abs(%s)]' % (l, l, l), None, ('floor-ceil-abs',))
        add('$sqrt(%s)' % l, None, ('sqrt',))
        p = rng.randint(-6, 12)
        add('$round(%s)' % l, None, ('round',))
        add('$round(%s, %d)' % (l, p), None, ('round',))
        add('$formatBase(%s)' % l, None, ('formatBase',))
        add('$formatBase(%s, %s)' % (l, rng.choice(['2', '8', '16', '36', '10', '1', '0', '37', '40', '2.5', '1.5', '35.5', '-2', '36.4', '36.5'])), None, ('formatBase',))
        add('$power(%s, %s)' % (l, rng.choice(['0', '1', '2', '0.5', '-1', '10', '100', '-0.5', '1000'])), None, ('power',))
        add('%s & ""' % l, None, ('string',))
    # $round against an exact oracle (Python decimal): the shortest decimal of x rounded half-to-even at digit p,
    # then the nearest double; domain |x|*10^p < 2^53
    import decimal
    decimal.getcontext().prec = 60
    def round_oracle(x, p):
        d = decimal.Decimal(repr(float(x)))
        q = d.quantize(decimal.Decimal(1).scaleb(-p), rounding=decimal.ROUND_HALF_EVEN)
        return float(q)
    def false_tie(x, p):
        d = decimal.Decimal(repr(float(x))).scaleb(p)
        f = float(d)
        return abs(f - math.floor(f) - 0.5) == 0 and (d - d.to_integral_value(rounding=decimal.ROUND_FLOOR)) != decimal.Decimal('0.5')
    big = [225179981368524.94, 450359962737049.7, 0.49999999999999994, -0.49999999999999994, 2251799813685249.5, 1125899906842624.9, 4503599627370495.5, 1.005, 2.675, 1.45, 8.345, 0.285, 1.0049999999999999]
    for x in ds + big + [b / 10 for b in big]:
        for pp in set([0, 1, 2, rng.randint(-6, 12)]):
            if x == 0 or not math.isfinite(x) or abs(x) * 10.0 ** pp >= 2.0 ** 53 or abs(x) < 1e-300:
                continue
            want = round_oracle(x, pp)
            tags = ('law', 'law-total', 'round-oracle') + (('round-false-tie',) if false_tie(x, pp) else ())
            add('$round(%s, %d) = %s' % (fl(x), pp, fl(want) if want != 0 else '0'), None, tags)
    # $round ties and neighbours, exhaustively for small decimals
    for i in range(-50, 51):
        for p in (0, 1, 2, -1):
            x = i / 2 / 10 ** max(p, 0) if p >= 0 else i * 5
            add('$round(%s, %d)' % (fl(x), p), None, ('round-ties',))
    # $number on strings from a number-like alphabet: all up to length 3 (quick) / 4 (thorough), sampled longer
    alpha = ['0', '1', '9', '-', '+', '.', 'e', 'E', ' ', 'a']
    maxlen = 3 if tier == 'quick' else 4
    for L in range(0, maxlen + 1):
        for t in itertools.product(alpha, repeat=L):
            add('$number(s)', {'s': ''.join(t)}, ('number',))
    for i in range(1500 if tier == 'quick' else 40000):
        add('$number(s)', {'s': ''.join(rng.choice(alpha) for _ in range(rng.randint(5, 8)))}, ('number',))
    for v in ['true', 'false', 'null', '[]', '{}', '"1e400"', '"-1e400"', '"1e-400"', '"0x10"', '"1_0"', '" 1"', '"1 "', '"Infinity"', '"NaN"', '"١٢"', '$sum', 'nothing', '[1]', '"00012"', '"-0"']:
        add('$number(%s)' % v, None, ('number',))
    # grouping: every placement of separators in an integer part of up to 9 digit positions and in a fraction part of up
    # to 5 (all subsets, quick: sampled), on numbers of 1..13 integer digits: regular placements repeat, irregular ones do not
    def group_pics(width, mand):
        for mask in range(1, 1 << (width - 1)):
            digs = ['#'] * (width - mand) + ['0'] * mand
            p = ''
            for i, dch in enumerate(digs):
                p += dch
                if i < width - 1 and (mask >> (width - 2 - i)) & 1:
                    p += ','
            yield p
    gp = [p for w in range(2, 10) for p in group_pics(w, 1)]
    if tier == 'quick':
        gp = rng.sample(gp, 260)
    for pic in gp:
        for x in (rng.sample([7, 42, 123, 1234, 12345, 123456, 1234567, 12345678, 123456789, 1234567890, 123456789012, 1234567890123, -9876543, 1234.5], 4)):
            add('$formatNumber(%s, "%s")' % (x, pic), None, ('grouping',))
    fgp = ['0.' + ''.join(d + (',' if (m >> i) & 1 else '') for i, d in enumerate('#####')).rstrip(',') for m in range(0, 16)] + ['#,##0.0,0#', '0.00,0', '0.#,#,#', '#,#0.0,00,0']
    for pic in fgp:
        for x in [0.123456, 1.5, 12345.678912, 0.1, -3.14159265]:
            add('$formatNumber(%s, "%s")' % (x, pic), None, ('grouping', 'fraction'))
    # pictures written in another digit family (zero-digit option): Arabic-Indic (2 bytes), Devanagari (3 bytes), mathematical bold (4 bytes)
    for z in [chr(0x660), chr(0x966), chr(0x1d7ce)]:
        for pic in ['0', '000', '00000', '#,##0', '0,000', '000.00', '#0.0#', '00.000e0', '0%', '#,###,##0.00', '00;(00)']:
            zp = pic.replace('0', z)
            for x in [0, 5, 12, 123, 1234, 12345.678, -7, 0.5, 1e6, 0.004]:
                add('$formatNumber(%s, "%s", {"zero-digit": "%s"})' % (x, zp, z), None, ('digit-family',))
    # $formatNumber: valid pictures, mutated (invalid) pictures, options
    opts = ['', ', {"decimal-separator": ",", "grouping-separator": "."}', ', {"zero-digit": "٠"}', ', {"minus-sign": "−"}', ', {"percent": "pc", "per-mille": "pm"}', ', {"digit": "D", "pattern-separator": "|"}',
            ', {"exponent-separator": "x"}', ', {"infinity": "inf", "NaN": "nan"}', ', {"decimal-separator": "ab"}', ', {"unknown": "x"}', ', {"zero-digit": 5}', ', 5', ', {"decimal-separator": ""}']
    N = 1500 if tier == 'quick' else 80000
    for i in range(N):
        x = rng.choice(ds)
        if abs(x) > 1e15 or (x != 0 and abs(x) < 1e-9):
            x = rng.choice([0.0, 1.0, 12345.678, -42.5, 0.5, 1e6])
        pic = gen_picture(rng)
        if rng.random() < 0.25:
            pic = mutate_picture(rng, pic)
        o = rng.choice(opts) if rng.random() < 0.2 else ''
        add('$formatNumber(%s, %s%s)' % (fl(x), repr(pic).replace("'", '"') if '"' not in pic else '"0"', o), None, ('formatNumber',))
    for x in ['0', '-0', '1', '-1', '0.5', '123', '1e-5', '1e10', '-5.5']:
        for pic in ['0.0e0', '00e0', '#.#e0', '0e00', '0.00e0', '#e0', '000.0e0', '0.0e0;neg0e0']:
            add('$formatNumber(%s, "%s")' % (x, pic), None, ('formatNumber-exp',))
    add('$formatNumber(1/3, "0.000")'); add('$formatNumber(1e308 * 10, "0")'); add('$formatNumber("1", "0")'); add('$formatNumber(1)'); add('12.5.$formatNumber("0.0")'); add('$formatNumber(1, 2)')
    return out

def run(tier, seed, replay=None):
    return simple_run('C18', tier, seed, replay,
        'doubles from integers, decimal fractions with 0..6 digits incl. exact ties and their neighbours, powers of ten 1e-12..1e21, random bit patterns, 0, -0, negatives, the 2^52..2^53 region: '
        '$string, $number($string(x)) = x, $floor/$ceil/$abs/$sqrt/$power, $round with precisions -6..12 (ties exhaustively for small decimals), $formatBase with bases 0..40 incl. fractional; '
        '$number on all strings of length <= 3 (quick) / <= 4 (thorough) over {0,1,9,-,+,.,e,E,space,a} plus random longer ones; $formatNumber with pictures generated from the decimal-format grammar '
        '(grouping — every separator placement over up to 9 integer and 5 fraction positions —, percent, per-mille, exponent, prefix/suffix, two sub-pictures, format options) and mutated into invalid ones; distinct = distinct (expression, input)',
        cases, timeout_ms=3000)
