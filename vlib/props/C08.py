"""C08 — Compile is total: an expression or a typed parse error, never a panic or hang.
Exact correspondence (AST dump or complete error tuple) on byte strings."""
import random, re, glob
from ..engine import simple_run
from ..gen.exprs import Gen

SYMS = ['[', ']', '{', '}', '(', ')', '.', ',', ';', ':', '?', '+', '-', '*', '/', '%', '|', '=', '<', '>', '^', '&', '!', '~',
        '!=', '<=', '>=', '..', '~>', ':=', '**', 'and', 'or', 'in', 'true', 'false', 'null', 'function', 'λ', '$', '$x', '$$', 'a', 'b', '$and', '$or', '$in', '$true', '$false', '$null', '$function',
        '"s"', "'t'", '`q`', '1', '2.5', '1e3', '/re/', '/a(b)/i', ' ', '\n', '\t', '"', "'", '`', '\\', '\\u', 'é', '䑁', '😀', '1.', '.5', '0x1', '1e', '@', '#']

SEEDS = [
    '$substring(?, 0, cfg.len)', '($f := $substring(?, 0, lens[1]); $f("abcdef"))', '$lookup(?, cfg.key)', '$append(?, lens[])', '$f(?, a.b.c, d[0], e[])', '$f(a.b, ?)', '$f(?, {"k": a.b})', '$f(?, [a.b])', '$f(?, a.b ~> $g)',
    'function($x)<(>{$x}', '!é', '[1.䑁]', 'function($x)<!>{$x}', '1.', 'HELLO!', 'a ~ b', '!a', 'function($x)<a<n>>{$x}', 'λ($x)<n?:n>{$x}',
    '"\\ud83d\\ude00"', '"\\ud83d"', '"\\ud83d\\u0041"', '"\\u00e9"', '"\\u12"', '"\\x"', '"abc', "'abc", '`abc', '/abc', '/a\\/b/', '//', '/(/', '/[a-/',
    '1e400', '-1e400', '1e-400', '00', '01', '1.5.2', '1..2', '[1..2]', 'a[', 'a[]', 'a[][]', 'a[0][1]', '(a)[0]', 'a{', 'a{"k":1}{"k":2}', 'a{"k":1}[0]',
    '1.a', '"s".a', 'a."s"', 'a.1', 'true.a', 'null.a', 'a.null', '$x := 1', 'a := 1', '"s" := 1', '(1; 2;)', '()', '(;)', 'a ? b', 'a ? b : c', 'a ? b : c ? d : e',
    'a ? b : c := d', '$f(1,)', '$f(,1)', '$f(?)', '$f(?, 1)', 'function(){1}', 'function($a, $a){1}', 'function(a){1}', 'function($a)<n>{1}', 'function($a)<nn>{1}',
    'function($a)<x>{1}', 'function($a)<n', 'function($a)<n>', 'function($a)<q>{1}', 'function($a)<(nq)>{1}', 'function($a)<?>{1}', 'function($a)<<>{1}', 'function($a)<n<s>>{1}',
    'function($a)<a<s>>{1}', '|a|{"b":1}|', '|a|{"b":1}, ["c"]|', '|a|', '|a|b', 'a^(b)', 'a^(<b, >c)', 'a^()', 'a^(', 'a^b', 'a ~> $f', 'a ~> $f(1) ~> $g',
    'and', 'or', 'in', 'and and and', 'a.and', 'or.or', 'in in in', '-a', '--a', '- -1', '-"s"', 'a -1', 'a/b', 'a /b/ c', '$a/b/', '(/b/)', '[/b/]', 'a = /b/',
    '*', '**', '*.a', 'a.*', 'a.**.b', '%', 'a %', '% a', '', ' ', '\n', '\v', ';', ')', ']', '}', ',', 'a b', '1 2', 'a,b', '`a b`.c', '``', '`\n`', '$', '$$', '$.a', '$$.a',
]

def mutate(rng, s):
    b = bytearray(s.encode('utf-8', 'surrogatepass'))
    k = rng.random()
    if not b:
        return bytes([rng.randrange(256)])
    i = rng.randrange(len(b))
    if k < 0.2: del b[i]
    elif k < 0.4: b.insert(i, rng.choice(b'[](){}.,;:?+-*/%|=<>^&!~"\'`\\$ua019 \n') if rng.random() < 0.8 else rng.randrange(256))
    elif k < 0.6: b[i] = rng.choice(b'[](){}.,;:?+-*/%|=<>^&!~"\'`\\$ua019 \n') if rng.random() < 0.8 else rng.randrange(256)
    elif k < 0.75: b[i:i] = b[i:i + rng.randint(1, 4)]
    elif k < 0.9: b = b[:i]
    else:
        t = rng.choice(SYMS).encode()
        b[i:i] = t
    return bytes(b)

def harvest():
    out = []
    pat = re.compile(r'(?:Input|Expression|expr(?:ession)?):\s*(`[^`]*`|"(?:[^"\\\n]|\\.)*")')
    for f in glob.glob('/repo/*_test.go') + glob.glob('/repo/jparse/*_test.go'):
        try:
            src = open(f, encoding='utf-8').read()
        except Exception:
            continue
        for m in pat.finditer(src):
            t = m.group(1)
            if t.startswith('`'):
                out.append(t[1:-1])
            else:
                try:
                    out.append(bytes(t[1:-1], 'utf-8').decode('unicode_escape').encode('latin-1', 'ignore').decode('utf-8', 'ignore'))
                except Exception:
                    pass
    return sorted(set(out))

def cases(tier, seed):
    rng = random.Random(seed)
    out = []; n = 0
    def add(src, tags=()):
        nonlocal n; n += 1
        b = src if isinstance(src, bytes) else src.encode('utf-8', 'surrogatepass')
        out.append({'id': 'p%d' % n, 'kind': 'parse', 'expr': b.hex(), 'tags': list(tags)})
    for s in SEEDS:
        add(s, ('seed',))
    hv = harvest()
    for s in hv[: (400 if tier == 'quick' else 100000)]:
        add(s, ('harvest',))
    g = Gen(rng, chaos=0.1)
    valid = []
    for i in range(1500 if tier == 'quick' else 60000):
        valid.append(g.program(rng.randint(1, 4)))
    for s in valid:
        add(s, ('generated',))
    base = SEEDS + valid + hv[:300]
    for i in range(6000 if tier == 'quick' else 400000):
        s = rng.choice(base)
        m = mutate(rng, s)
        if rng.random() < 0.2:
            m = mutate(rng, m.decode('utf-8', 'replace'))
        add(m, ('mutation',))
    for i in range(2500 if tier == 'quick' else 150000):
        add(''.join(rng.choice(SYMS) + rng.choice(['', '', ' ']) for _ in range(rng.randint(1, 9))), ('soup',))
    for i in range(1000 if tier == 'quick' else 60000):
        add(bytes(rng.randrange(256) for _ in range(rng.randint(1, 12))), ('random-bytes',))
    # errors raised while the tree is being optimised (literal path steps, group of a group, ...) in EVERY position of every
    # container, with well-formed members before and after: the error of any member is the error of the whole
    bad = ['x.1', '"a".b', 'true.z', 'null.q', 'a{"k":1}{"j":2}', 'x.1.y', '$f(x."s".t)', 'a.2[0]', '(1).b' , 'y."lit"']
    good = ['a', '2', '"s"', '$v', 'b.c']
    frames = ['[%s]', '[G, %s]', '[%s, G]', '[G, %s, G]', '{"a": %s}', '{"a": %s, "b": G}', '{"a": G, "b": %s}', '{"a": G, "b": %s, "c": G}', '{%s: 1, "b": G}', '(%s)', '(G; %s)', '(%s; G)', '$f(%s)', '$f(G, %s)', '$f(%s, G)',
              'function($p){%s}', 'G ? %s : G', '%s ? G : G', 'G ? G : %s', 'G[%s]', 'G^(%s)', 'G^(G, %s)', 'G^(%s, G)', 'G{"k": %s}', 'G{"k": G, "j": %s}', 'G{"k": %s, "j": G}', '$ ~> |%s|{"z": 1}|', '$ ~> |G|{"z": %s}|',
              '$ ~> |G|{"z": 1}, [%s]|', '$x := %s', 'G + %s', '%s + G', '-%s', '[G..%s]', '%s ~> $f', 'G ~> $f(%s)', '$f(?, %s)', 'G & %s & G', 'G and %s', '%s in G', '[[%s], G]', '{"a": {"b": %s, "c": G}}', 'G.(%s)', 'G.{"k": %s, "j": G}']
    for fr in frames:
        for b in (bad if tier != 'quick' else rng.sample(bad, 4)):
            t = fr
            while 'G' in t:
                t = t.replace('G', rng.choice(good), 1)
            add(t % b, ('optimize-error',))
    # focused: string escapes, numbers, regex, back-quoted names, signatures
    esc = ['\\"', '\\\\', '\\/', '\\b', '\\f', '\\n', '\\r', '\\t', '\\u0041', '\\u00e9', '\\ud83d\\ude00', '\\ud83d', '\\ude00', '\\uD83D\\uDE00', '\\u12', '\\uzzzz', '\\x', '\\', 'a', 'é', '😀', "'", ' ']
    for i in range(800 if tier == 'quick' else 40000):
        q = rng.choice('"\'')
        add(q + ''.join(rng.choice(esc) for _ in range(rng.randint(0, 4))) + (q if rng.random() < 0.9 else ''), ('escapes',))
    numparts = ['0', '1', '9', '00', '.', 'e', 'E', '+', '-', '10', '308', '400', '5', '1.', '.5']
    for i in range(800 if tier == 'quick' else 40000):
        add(''.join(rng.choice(numparts) for _ in range(rng.randint(1, 5))), ('numbers',))
    reparts = ['a', 'b', '(', ')', '[', ']', '{', '}', '|', '*', '+', '?', '\\/', '\\', '.', '^', '$', 'a-z', '\n', '/', 'i', 'm', 's', 'x', '(?', ':']
    for i in range(800 if tier == 'quick' else 40000):
        add('/' + ''.join(rng.choice(reparts) for _ in range(rng.randint(0, 6))) + rng.choice(['/', '/i', '/ms', '/x', '', '/ i']), ('regex',))
    sigparts = list('nsblaofjx') + ['(', ')', '<', '>', '?', '+', '-', ':', '(ns)', 'a<n>', 'q', ' ']
    for i in range(2500 if tier == 'quick' else 120000):
        k = rng.randint(0, 3)
        # mostly signature characters, sometimes any token of the language (they reach the signature scanner as whole tokens: <= >= "<" ~> ...)
        body = ''.join((rng.choice(sigparts) if rng.random() < 0.8 else rng.choice(SYMS + ['"<"', "'>'", '"<<"', '<=', '>=', '<=', '>=', '`<`', '/</'])) for _ in range(rng.randint(0, 6)))
        add('%s(%s)<%s%s{%s}' % (rng.choice(['function', 'function', 'λ']), ', '.join('$p%d' % j for j in range(k)), body, rng.choice(['>', '>', '>', '', '>>']), rng.choice(['1', '$p0', ''])), ('signatures',))
    return out

def run(tier, seed, replay=None):
    return simple_run('C08', tier, seed, replay,
        'byte strings: seeds (every quoted witness), expressions harvested from the repository tests, generated valid programs, single- and double-edit '
        'mutations (delete/insert/replace/duplicate/truncate/token insert), token soup over the full symbol alphabet, random bytes / invalid UTF-8, focused '
        'streams for string escapes, number literals, regex literals, lambda signatures; exact comparison of AST dump or (type, position, token, hint); '
        'distinct = distinct byte string; non-trivial = any input (both outcomes are meaningful)',
        cases, owner_direct=('errwf', 'usable', 'must'), timeout_ms=2000, disagree_is_input=False)
