"""C20 — extensions: faithful argument passing, typed failures, registry visibility."""
import itertools, json, random
from ..engine import simple_run

TYPES = ['f64', 'int', 'u8', 'str', 'bool', 'bytes', 'iface', 'value', 'slice', 'map', 'fn']
OPTS = ['opt:f64', 'opt:int', 'opt:str', 'opt:bool', 'opt:iface', 'opt:value', 'opt:fn']
ARGS = ['1', '2.5', '-3', '300', '"s"', '""', 'true', 'false', 'null', '[1,2]', '[]', '{"a":1}', '{}', '$sum', 'nothing', '1e20', '"é"']

def cases(tier, seed):
    rng = random.Random(seed)
    out = []; n = 0
    def add_ext(**kw):
        nonlocal n; n += 1
        d = dict(name='ext', params=[], variadic=False, nout=1, errsecond=False, undef='none', ctx='none', mode='ok', ctxvalue=rng.choice(['"ctx"', '5', '{"k":1}', 'true']), args=[])
        d.update(kw)
        out.append({'id': 'x%d' % n, 'kind': 'ext', 'expr': '', 'input': d, 'tags': ['ext']})
    # exhaustive: one parameter of every type (plain / optional / variadic) x every argument kind x 0..2 arguments
    for t in TYPES + OPTS:
        for k in range(0, 3):
            for args in itertools.product(ARGS, repeat=k):
                if k == 2 and rng.random() < (0.9 if tier == 'quick' else 0.5):
                    continue
                add_ext(params=[t], args=list(args))
    for t in TYPES:
        for k in range(0, 4):
            for _ in range(4 if tier == 'quick' else 40):
                add_ext(params=[t], variadic=True, args=[rng.choice(ARGS) for _ in range(k)])
    # exhaustive over the two handlers: each handler present/absent x defined/undefined/absent context x all argument
    # lists of length 0..3 over {number, string, missing} x five parameter lists
    for undef, ctxh, ctxv in itertools.product(['none', 'arg0'], ['none', 'argc0', 'argc1'], ['"ctx"', 'null', '5']):
        for ps in (['iface'], ['iface', 'iface'], ['iface', 'iface', 'iface'], ['str'], ['f64', 'str'], ['str', 'opt:str']):
            for k in range(0, 4):
                for args in itertools.product(['1', '"s"', 'nothing'], repeat=k):
                    if tier == 'quick' and k == 3 and rng.random() < 0.7:
                        continue
                    add_ext(params=ps, undef=undef, ctx=ctxh, ctxvalue=ctxv, args=list(args))
    # result shapes: one result; two results whose second is error, a concrete error type, interface{}, string, int; 0 and 3 results
    for ps in ([], ['iface'], ['str', 'opt:f64'], ['f64', 'f64']):
        for nout, second, iserr in [(1, '', True), (2, '', True), (2, 'myerr', True), (2, 'iface', False), (2, 'string', False), (2, 'int', False), (0, '', True), (3, '', True)]:
            for args in ([], ['1'], ['"s"', '2'], ['1', '2']):
                add_ext(params=ps, nout=nout, second=second, errsecond=iserr, args=args, mode='ok')
    # parameter lists of length 0..4, handlers, result modes
    N = 2500 if tier == 'quick' else 150000
    for i in range(N):
        L = rng.randint(0, 4)
        ps = [rng.choice(TYPES) for _ in range(L)]
        # trailing optionals (valid), sometimes misplaced (invalid shape)
        if L and rng.random() < 0.35:
            k = rng.randint(1, L)
            for j in range(L - k, L): ps[j] = rng.choice(OPTS)
        if L > 1 and rng.random() < 0.05:
            ps[0] = rng.choice(OPTS)
        variadic = L > 0 and rng.random() < 0.2
        nout = rng.choice([1, 1, 2, 2, 2, 0, 3])
        errsecond = nout != 2 or rng.random() < 0.9
        mode = rng.choice(['ok', 'ok', 'err', 'undef']) if nout == 2 and errsecond else 'ok'
        add_ext(params=ps, variadic=variadic, nout=nout, errsecond=errsecond, mode=mode, undef=rng.choice(['none', 'none', 'arg0']), ctx=rng.choice(['none', 'none', 'argc0', 'argc1']),
                args=[rng.choice(ARGS) for _ in range(rng.randint(0, 5))], name=rng.choice(['ext', 'ext', 'f_1', 'Abc9', 'bad name', 'a-b', '']))
    # argument errors name the function that was called, also after the same function has been called through another
    # name (alias variable) earlier in the evaluation, and on every route to a call (named call, ~>, $map, partial, chain)
    fns = [('sum', '[1,2]', '"x"'), ('max', '[1]', '"s"'), ('power', '2, 2', '"a", 2'), ('join', '["a"]', '5'), ('append', '1, 2', None), ('reverse', '[1]', None), ('abs', '1', '"q"'), ('sqrt', '4', 'true'),
           ('keys', '{"a":1}', None), ('zip', '[1]', None), ('number', '"1"', '[1]'), ('floor', '1.5', '{}'), ('average', '[1]', '["a"]'), ('base64encode', '"a"', '5'), ('length', '"a"', '5'), ('uppercase', '"a"', '5')]
    for fn, good, bad in fns:
        for alias in ['alias', 'other', 'sum2']:
            head = '$%s := $%s; $r := $%s(%s); ' % (alias, fn, alias, good)
            if bad is not None and ',' not in bad:
                for route in ['%s ~> $%s' % (bad, fn), '$map([%s], $%s)' % (bad, fn), '$%s(?)(%s)' % (fn, bad), '($%s ~> $string)(%s)' % (fn, bad), '$%s(%s)' % (fn, bad), '$%s(%s)' % (alias, bad), '[%s].$%s($)' % (bad, fn)]:
                    n += 1
                    out.append({'id': 'e%d' % n, 'kind': 'eval', 'expr': '(' + head + route + ')', 'input': {}, 'tags': ['errname']})
            n += 1
            out.append({'id': 'e%d' % n, 'kind': 'eval', 'expr': '(' + head + '$%s(1, 2, 3, 4, 5)' % fn + ')', 'input': {}, 'tags': ['errname']})
            n += 1
            out.append({'id': 'e%d' % n, 'kind': 'eval', 'expr': '(' + head + '[$%s(1, 2, 3, 4, 5, 6)]' % alias + ')', 'input': {}, 'tags': ['errname']})
    # registry histories (each runs in a fresh process)
    names = ['x1', 'x2', 'x3', 'random', 'millis', 'now']
    H = 120 if tier == 'quick' else 5000
    for i in range(H):
        ops = []; nexpr = 0; b = 1
        for _ in range(rng.randint(3, 10)):
            k = rng.random()
            def vals():
                nonlocal b
                d = {}
                for nm in rng.sample(names, rng.randint(1, 2)):
                    d[nm] = b; b += 1
                return d
            if k < 0.25:
                ops.append({'op': 'G', 'vals': vals(), 'var': rng.random() < 0.3, 'bad': rng.choice(['', '', '', 'name', 'shape'])})
            elif k < 0.45:
                ops.append({'op': 'C', 'src': nexpr}); nexpr += 1
            elif k < 0.65 and nexpr:
                ops.append({'op': 'E', 'e': rng.randrange(nexpr + (1 if rng.random() < 0.05 else 0)), 'vals': vals(), 'var': rng.random() < 0.3, 'bad': rng.choice(['', '', '', 'name', 'shape'])})
            elif nexpr:
                ops.append({'op': 'R', 'e': rng.randrange(nexpr), 'name': rng.choice(names)})
        if nexpr:
            for e in range(nexpr):
                for nm in rng.sample(names, 3):
                    ops.append({'op': 'R', 'e': e, 'name': nm})
        for o in ops:
            if o.get('bad') == 'shape': o['var'] = False
        n += 1
        out.append({'id': 'h%d' % n, 'kind': 'reghistory', 'expr': '', 'input': {'names': names, 'ops': ops}, 'tags': ['reghistory']})
    return out

def run(tier, seed, replay=None):
    return simple_run('C20', tier, seed, replay,
        'Go functions generated by reflection (reflect.MakeFunc): one parameter of every type of the universe (float64, int, uint8, string, bool, []byte, interface{}, reflect.Value, []interface{}, '
        'map[string]interface{}, jtypes.Callable, Optional*) plain/optional/variadic against all argument lists of length 0..2 over 17 argument kinds; parameter lists of length 0..4 incl. invalid shapes, '
        'one or two results (nil / error / ErrUndefined), both handlers (exhaustively: handler present/absent x defined/undefined context x argument lists of length 0..3 over {number, string, missing} x 6 parameter lists), valid and invalid names; observed: arguments received by the Go function, outcome class, argument position; '
        'registry histories interleaving package-level registration, Compile, Expr-level registration and lookups, each in a fresh process; distinct = distinct case',
        cases, timeout_ms=3000)
