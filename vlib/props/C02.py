"""C02 — predicates: truth-value filtering and positional selection, per context item."""
import itertools, random
from ..engine import Check, run_cases
from ..gen.common import lit

def num(x):
    return ('%g' % x) if x != int(x) else str(int(x))

def cases(tier, seed):
    rng = random.Random(seed)
    out = []
    n = 0
    def add(expr, doc, tags=()):
        nonlocal n
        n += 1
        out.append({'id': 'c%d' % n, 'kind': 'eval', 'expr': expr, 'input': doc, 'tags': list(tags)})
    positions = [x / 2 for x in range(-14, 15)]
    # exhaustive: lengths 0..5 x positions -7..7 step 0.5
    for L in range(0, 6):
        arr = [10 * (i + 1) for i in range(L)]
        doc = {'arr': arr, 'w': {'arr': arr}}
        for p in positions:
            ps = num(p) if p >= 0 else '-' + num(-p)
            add('arr[%s]' % ps, doc, ('ex', 'literal'))
            add('($k := %s; arr[$k])' % ps, doc, ('ex', 'computed'))
            add('arr[$$.idx]', dict(doc, idx=p), ('ex', 'from-doc'))
            add('w.arr[%s]' % ps, doc, ('ex', 'in-path'))
            add('(w.arr)[%s]' % ps, doc, ('ex', 'paren'))
            add('%s[%s]' % (lit(arr), ps), None, ('ex', 'constructor'))
        for p, q in itertools.product([-7, -1.5, -1, 0, 0.5, 1, 2, 4, 5, 7], repeat=2):
            add('arr[[%s,%s]]' % (num(p), num(q)), doc, ('ex', 'index-array'))
            add('arr[$$.idx]', dict(doc, idx=[p, q]), ('ex', 'index-array-doc'))
    # predicates of every kind on every kind of step
    docs = [
        {'a': [{'b': 1, 'c': 'x'}, {'b': 2, 'c': 'y'}, {'b': 3}, {'c': 'z'}]},
        {'a': [{'b': [1, 2]}, {'b': [3]}, {'b': []}]},
        {'a': {'b': [{'c': 1}, {'c': 2}, {'c': 3}]}},
        {'a': [[1, 2], [3, 4], [5]]},
        {'a': [1, 2, 3, 4, 5], 'k': 2},
        {'a': [{'b': {'c': [1, 2, 3]}}, {'b': {'c': [4]}}]},
        [1, 2, 3], [{'a': 1}, {'a': 2}], {'a': 1}, {'a': []},
    ]
    preds = ['b = 2', 'b > 1', 'b', 'c', 'c = "x"', 'b and c', 'b or c', '$ > 2', '$ = 3', 'true', 'false', '0', '1', '-1', '1.5',
             '[0,1]', '[0,0]', '[]', '"s"', '""', '{}', '{"a":1}', 'nothing', 'b[0]', '$count(b) > 1', 'c in ["x","z"]', '$$.k',
             '[1..2]', '$string() = "2"', 'b = 1 or b = 3', '$boolean(b)', 'null']
    heads = ['a', 'a.b', 'a.b.c', '$', '$.a', '(a)', '(a.b)', '[1,2,3]', '[[1,2],[3]]', '$v', '$append(a, 9)', '$$.a', 'a[]']
    for h, p in itertools.product(heads, preds):
        for d in (docs if tier != 'quick' else rng.sample(docs, 3)):
            e = '%s[%s]' % (h, p)
            if h == '$v':
                e = '($v := a; %s)' % e
            add(e, d, ('kind',))
    # predicates whose NUMBER depends on the context item (each item is tested against its own value)
    pdocs = [
        {'a': [{'b': 1, 'pos': 0}, {'b': 2, 'pos': 1}, {'b': 3, 'pos': 2}]},
        {'a': [{'b': 1, 'pos': 0}, {'b': 2, 'pos': 5}, {'b': 3, 'pos': 2}, {'b': 4, 'pos': -1}, {'b': 5}]},
        {'a': [{'b': 1, 'pos': 1.5}, {'b': 2, 'pos': [0, 1]}, {'b': 3, 'pos': -1}, {'b': 4, 'pos': 'x'}]},
        {'a': [0, 1, 7, 3]}, {'a': [3, 2, 1, 0]}, {'a': [-1, -1, -1]}, {'a': [0.5, 1.9, 2.1, -0.5]},
        [0, 1, 7, 3], [1, 1, 1], [-4, -3, -2, -1],
    ]
    ppreds = ['pos', 'b - 1', 'b', '-b', 'pos + 0.5', '$', '$ - 1', '-$', 'pos ? pos : false', 'b > 1 ? 0 : true', '$ < 2 ? 0 : true',
              '[pos]', '[pos, 0]', '[$]', 'pos = 1 ? 1', '$count($string($))', 'b = 2 or pos', '$number($)', 'pos[0]']
    pheads = ['a', '$', '$.a', '(a)', '$$.a', '$v', 'a[]', '$append(a, [])', '$reverse(a)']
    for h, p in itertools.product(pheads, ppreds):
        for d in pdocs:
            e = '%s[%s]' % (h, p)
            if h == '$v':
                e = '($v := a; %s)' % e
            add(e, d, ('per-item-number',))
            if tier != 'quick' or rng.random() < 0.3:
                add(e + '[%s]' % rng.choice(ppreds + preds), d, ('per-item-number', 'stacked'))
    # a predicate on a variable ($, $$, named) as FIRST step of a longer path, on array-rooted and object-rooted
    # documents: the variable is ONE context item, whatever the current context is
    adocs = [[{'id': 1, 'tag': 'a'}, {'id': 2, 'tag': 'b'}, {'id': 3, 'tag': 'c'}], [{'id': 1, 'tag': 'a'}], [], [[{'id': 1, 'tag': 'a'}, {'id': 2, 'tag': 'b'}]],
             {'list': [{'id': 1, 'tag': 'a'}, {'id': 2, 'tag': 'b'}, {'id': 3, 'tag': 'c'}], 'id': 9, 'tag': 'root'}, [1, 2, 3], [[1, 2], [3]]]
    vpreds = ['0', '1', '-1', 'id > 1', 'id = 2', 'tag', 'true', 'false', '[0, 2]', '$ > 1', 'id', '1.5', 'nothing', '$count($) > 1']
    vtails = ['', '.tag', '.id', '.tag[0]', '[0]', '.$string()', '.{"t": tag}', '.[tag]', '.id[$ > 1]', '.(tag)']
    vheads = [('$$', '%s'), ('$', '%s'), ('$v', '($v := $; %s)'), ('$w', '($w := $$; %s)'), ('$l', '($l := list; %s)'), ('$$.list', '%s'), ('$$', 'list.(%s)'), ('$$', '$map($, function($i){%s})'), ('$v', '($v := $; list.(%s))'), ('$v', '($v := $; $.(%s))')]
    for (h, wrap), pr, tl in itertools.product(vheads, vpreds, vtails):
        if tier == 'quick' and rng.random() < 0.55:
            continue
        add(wrap % ('%s[%s]%s' % (h, pr, tl)), rng.choice(adocs), ('var-head',))
    # stacked predicates (<= 3), on name steps and on other heads
    for i in range(1200 if tier == 'quick' else 60000):
        h = rng.choice(heads)
        k = rng.randint(2, 3)
        ps = [rng.choice(preds) for _ in range(k)]
        e = h + ''.join('[%s]' % p for p in ps)
        if rng.random() < 0.3:
            e += '.' + rng.choice(['b', 'c', '$string()']) + ('[%s]' % rng.choice(preds) if rng.random() < 0.5 else '')
        if h == '$v':
            e = '($v := a; %s)' % e
        add(e, rng.choice(docs), ('stacked',))
    return out

def run(tier, seed, replay=None):
    ck = Check('C02', tier, seed, '', 'exhaustive array lengths 0..5 x positions -7..7 step 0.5 (as literal, computed, index array, '
               'taken from the document, inside a path, on a parenthesised path, on a constructor); every predicate kind on every kind of head; '
               'predicates on variables ($, $$, named) as first step of longer paths on array- and object-rooted documents (10 heads x 14 predicates x 10 continuations); predicates whose number depends on the context item (member values, $, conditionals) on 9 heads x 10 documents; stacked predicates <= 3; distinct = distinct (expression, document); non-trivial = compiles and model has a verdict')
    if not ck.build():
        return ck.finish()
    proofs_ok = ck.proof_status()
    cs = replay if replay else cases(tier, seed)
    ck.exhaustive = False
    for i in range(0, len(cs), 20000):
        chunk = cs[i:i + 20000]
        res, crashed, err = run_cases(ck.b, chunk, 'C02')
        ck.std_analyze(chunk, res, crashed, owner_direct=())
        for c in chunk:
            for t in c.get('tags', [])[:2]:
                ck.dist['tags'][t] += 1
    if not proofs_ok:
        pid, log = ck.proof_broken
        ck.report_violation({'kind': 'proof-broken', 'theorems': 'Properties/%s.v' % pid, 'log': log}, no_input=not ck.violations)
    return ck.finish()
