"""C14 — object construction, grouping, object functions."""
import itertools, random
from ..engine import simple_run
from ..gen.common import lit

def cases(tier, seed):
    rng = random.Random(seed)
    out = []; n = 0
    def add(expr, doc, tags=()):
        nonlocal n; n += 1
        out.append({'id': 'c%d' % n, 'kind': 'eval', 'expr': expr, 'input': doc, 'tags': list(tags)})
    def recs(m):
        arr = []
        for i in range(m):
            o = {'v': rng.choice([1, 2, 3, 10])}
            if rng.random() < 0.9: o['g'] = rng.choice(['x', 'y', 'z', 'w', 'lit'])
            if rng.random() < 0.8: o['h'] = rng.choice(['p', 'q'])
            if rng.random() < 0.15: o['g'] = rng.choice([1, True, ['x']])
            if rng.random() < 0.5: o['w'] = rng.choice([[1, 2], [3], 5])
            arr.append(o)
        return arr
    keys = ['g', 'h', '"lit"', 'g & h', '$string(v)', 'g & ""', '"k" & v']
    vals = ['v', '$sum(v)', '$count($)', '[v]', '{"n": $count(v), "s": $sum(v)}', 'w', '$', 'v[0]', '$join(h)', 'nothing', '$max(v)']
    N = 1500 if tier == 'quick' else 60000
    for i in range(N):
        arr = recs(rng.randint(0, 6))
        np_ = rng.randint(1, 3)
        pairs = ', '.join('%s: %s' % (rng.choice(keys), rng.choice(vals)) for _ in range(np_))
        form = rng.random()
        if form < 0.6:
            add('a{%s}' % pairs, {'a': arr}, ('group',))
        elif form < 0.8:
            add('a.{%s}' % pairs, {'a': arr}, ('ctor-step',))
        else:
            add('{%s}' % pairs, rng.choice(arr) if arr else {}, ('ctor',))
    # one grouping per step (parse-time errors), predicates after grouping
    for e in ['a{g: v}{h: v}', 'a{g: v}[0]', 'a{g: v}.x', '(a{g: v}){"k": $}', 'a[v>1]{g: v}', 'a.b{g: v}', '$.a{g: v}', 'a{"x": v, "x": v}', 'a{g: v, g: v}', '{}{}']:
        add(e, {'a': recs(4)}, ('shape',))
    # object functions
    def obj(depth=2):
        ks = rng.sample(['a', 'b', 'c', 'd', 'e'], rng.randint(0, 4))
        return {k: (rng.choice([1, 2, 'x', True, [1, 2], []]) if depth <= 0 or rng.random() < 0.7 else obj(depth - 1)) for k in ks}
    fns = ['$keys($)', '$count($keys($))', '$spread($)', '$merge($spread($))', '$merge($spread($)) = $', '$each($, function($v, $k){$k})',
           '$each($, function($v){$v})', '$sift($, function($v){$boolean($v)})', '$sift($, function($v,$k){$k != "a"})',
           '$lookup($, "a")', '$lookup($, "a") = a', '$lookup($, "zz")', '$merge([$, {"a": 99}])', '$merge([{"a": 99}, $])', '$merge([$,$])',
           '$count($spread($)) = $count($keys($))', '$keys($spread($))', '$merge($)', '$each($, $string)', '$each($, function($v,$k,$o){$count($keys($o))})',
           '$sift($, function($v,$k,$o){$v = $lookup($o,$k)})', '$keys([$, {"zz":1}])', '$spread([$, $])', '$type($)', '$each($, function(){1})', '$sift($, function($a,$b,$c,$d){true})']
    for i in range(400 if tier == 'quick' else 20000):
        o = obj()
        for f in (fns if tier != 'quick' else rng.sample(fns, 8)):
            add(f, o, ('objfn', 'unordered'))
    # the same functions over ARRAYS of 0..5 objects whose key sets overlap (also between objects that are not neighbours)
    afns = ['$keys($)', '$count($keys($))', '$keys(a)', '$spread($)', '$merge($)', '$lookup($, "a")', '$lookup($, "b")', '$keys($spread($))', '$merge($spread($))', '$count($spread($))', 'a.$keys($)',
            '$keys($) ~> $sort()', '$count($keys($)) = $count($distinct($keys($)))', '$keys($merge($)) ~> $sort()', '$.*', '$lookup($, "c") ~> $count()', '$each($merge($), function($v,$k){$k})']
    small = [{}, {'a': 1}, {'b': 2}, {'a': 3}, {'a': 1, 'b': 2}, {'c': [1]}, {'b': 'x', 'c': 0}, {'a': {'a': 1}}]
    for L in range(0, 4):
        for objs in itertools.product(small, repeat=L):
            if tier == 'quick' and L == 3 and rng.random() < 0.8:
                continue
            for f in (rng.sample(afns, 3) if tier == 'quick' else afns):
                add(f, list(objs), ('objfn-array', 'unordered'))
                if rng.random() < 0.2:
                    add(f, {'a': list(objs)}, ('objfn-array', 'unordered'))
    for i in range(300 if tier == 'quick' else 20000):
        objs = [obj(1) for _ in range(rng.randint(3, 6))]
        add(rng.choice(afns), objs, ('objfn-array', 'unordered'))
    # the SAME object (one instance) occurring several times in an argument, with other objects in between
    alias = ['$merge([$[0], $[1], $[0]])', '$merge([$[1], $[0], $[1], $[0]])', '($o := $[0]; $merge([$o, {"a": 99, "z": 1}, $o]))', '($o := $[0]; $p := $[1]; $merge([$o, $p, $o, $p]))', '$merge([$[0], $[0]])',
             '$merge($append($, $[0]))', '$keys([$[0], $[1], $[0]])', '$spread([$[0], $[1], $[0]])', '$count($spread([$[0], $[0]]))', '($o := $[0]; [$o, $[1], $o]{$string($count($keys($))): $count($)})',
             '($o := $[0]; $distinct([$o, $[1], $o]))', '($o := $[0]; $lookup([$o, $[1], $o], "a"))', '($o := $[0]; [$o, $[1], $o].a)', '($o := $[0]; $each($merge([$o, $[1], $o]), function($v, $k){$k}))',
             '($o := $[0]; $o ~> |$|{"n": 1}| ~> $merge())', '($o := $[0]; $sift($merge([$o, $[1], $o]), function($v){true}))']
    pairs = [[{'a': 1, 'm': 'ro'}, {'a': 2, 'm': 'rw'}], [{'m': 'ro'}, {'m': 'rw', 'x': 1}], [{'a': 1}, {}], [{}, {'a': 1}], [{'a': {'b': 1}}, {'a': {'b': 2}}], [{'a': 1, 'b': 2}, {'b': 3, 'c': 4}]]
    for e in alias:
        for d in pairs:
            add(e, d, ('alias', 'unordered'))
    for f in fns:
        add(f, [obj(), obj()], ('objfn', 'unordered'))
        add(f, 5, ('objfn',)); add(f, 'str', ('objfn',))
    return out

def run(tier, seed, replay=None):
    return simple_run('C14', tier, seed, replay,
        'groupings with 1..3 key/value pairs whose keys map items onto 1..4 strings (collisions, absent and non-string keys), values that are members, '
        'aggregates or nested constructors; object constructors as steps and stand-alone; grouping/predicate shape errors; object functions and their laws on '
        'random null-free objects and on arrays of 0..6 objects with overlapping key sets (exhaustive over an 8-object alphabet up to length 3) (results over multi-member objects compared as multisets); distinct = distinct (expression, input)',
        cases)
