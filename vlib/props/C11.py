"""C11 — JSON texts are expressions that denote themselves."""
import itertools, json, random
from ..engine import simple_run

UNITS = ['\\"', '\\\\', '\\/', '\\b', '\\f', '\\n', '\\r', '\\t', '\\u0041', '\\u00e9', '\\u20AC', '\\ud83d\\ude00', '\\uD83D\\uDE00', 'a', 'Z', ' ', 'é', '€', '😀', '$', '.', '[', '{', '*', '/', "'", '`', '&', '<', '|', '0']
BAD_UNITS = ['\\x', '\\u12', '\\uzzzz', '\\ud83d', '\\ude00', '\\ud83d\\u0041', '\\', '\\U0041', '\\a']
NUMS = ['0', '-0', '1', '-1', '10', '123456789', '0.5', '-0.25', '1.5e3', '1E3', '1e+3', '1e-3', '2.5E-2', '0.1', '0.2', '1e21', '1e-7', '123456789012345678', '9007199254740993',
        '4.9e-324', '5e-324', '2.2250738585072014e-308', '1.7976931348623157e308', '17976931348623157e292', '0.30000000000000004', '3.141592653589793', '1e0', '0e0', '0.0', '-0.0', '100000000000000000000',
        '1.0000000000000002', '0.000001', '1e22', '12345678901234567890', '1e-320', '0.1e1', '1.5E+10']
BAD_NUMS = ['1e400', '-1e400', '1e309', '2e308']

def cases(tier, seed):
    rng = random.Random(seed)
    out = []; n = 0
    def add(text, tags=()):
        nonlocal n; n += 1
        out.append({'id': 'c%d' % n, 'kind': 'eval', 'expr': text, 'input': rng.choice([None, 5, {'a': 1}, [1, 2], [], [[]], {}, '']), 'tags': ['jsonself'] + list(tags)})
        n += 1
        out.append({'id': 'p%d' % n, 'kind': 'parse', 'expr': text.encode('utf-8', 'surrogatepass').hex(), 'tags': ['parse'] + list(tags)})
    # exhaustive strings of up to 2 (quick) / 3 (thorough) units
    maxlen = 2 if tier == 'quick' else 3
    units = UNITS if tier != 'quick' else UNITS
    for L in range(0, maxlen + 1):
        combos = list(itertools.product(units, repeat=L))
        if tier == 'quick' and len(combos) > 1500:
            combos = rng.sample(combos, 1500)
        for t in combos:
            body = ''.join(t)
            add('"%s"' % body, ('string',))
            if "'" not in body and L <= 2 and rng.random() < 0.3:
                add("'%s'" % body, ('single-quote',))
    for t in itertools.product(UNITS[:10] + BAD_UNITS, repeat=2):
        if any(u in BAD_UNITS for u in t):
            add('"%s"' % ''.join(t), ('bad-escape',))
    # a backslash followed by EVERY character of a code-point sweep: only the eight simple escapes and u are escapes
    def addp(text, tags):
        nonlocal n; n += 1
        out.append({'id': 'p%d' % n, 'kind': 'parse', 'expr': text.encode('utf-8', 'surrogatepass').hex(), 'tags': ['parse'] + list(tags)})
    sweep = list(range(0x20, 0x800)) + [c + 256 * k for c in map(ord, '"\\/bfnrtu') for k in (8, 16, 37, 255, 256, 4351)]
    if tier != 'quick':
        sweep += list(range(0x800, 0xD800)) + list(range(0xE000, 0x10000)) + list(range(0x10000, 0x110000, 251))
    else:
        sweep += [rng.randrange(0x800, 0xD800) for _ in range(300)] + [rng.randrange(0x10000, 0x110000) for _ in range(100)]
    for cp in sweep:
        if 0xD800 <= cp < 0xE000 or cp > 0x10FFFF:
            continue
        q = rng.choice('"\'')
        addp('%sa\\%sb%s' % (q, chr(cp), q), ('escape-sweep',))
        if cp % 97 == 0:
            add('"\\%s"' % chr(cp), ('escape-sweep',))
    # \\uXXXX for boundary code units and a sweep (thorough: every non-surrogate BMP code unit), in both hex cases
    units = [0x0, 0x1, 0x1f, 0x20, 0x22, 0x5c, 0x7f, 0x80, 0xff, 0x100, 0x7ff, 0x800, 0xfff, 0x1000, 0xd7ff, 0xe000, 0xfdd0, 0xfeff, 0xfffc, 0xfffd, 0xfffe, 0xffff]
    units += list(range(0, 0x10000, 7 if tier != 'quick' else 97))
    for u in units:
        if 0xd800 <= u < 0xe000:
            continue
        h = '%04x' % u
        add('"\\u%s"' % (h if u % 2 else h.upper()), ('unicode-escape',))
        if u % 5 == 0:
            addp("'x\\u%s'" % h, ('unicode-escape',))
    for hi, lo in [(0xd800, 0xdc00), (0xdbff, 0xdfff), (0xd83d, 0xde00), (0xd800, 0xdfff), (0xdbff, 0xdc00), (0xd83d, 0xd83d), (0xdc00, 0xd800), (0xdc00, 0xdc00), (0xd800, 0x0041), (0xd800, 0xe000), (0xd7ff, 0xdc00), (0xd800, 0xdbff)]:
        add('"\\u%04x\\u%04x"' % (hi, lo), ('unicode-escape', 'surrogates')); add('"a\\u%04X\\u%04Xb"' % (hi, lo), ('unicode-escape', 'surrogates'))
    for x in NUMS + BAD_NUMS:
        add(x, ('number',)); add('[%s]' % x, ('number',)); add('{"n": %s}' % x, ('number',)); add(' %s ' % x, ('number',))
    # random numbers from the grammar
    for i in range(600 if tier == 'quick' else 40000):
        ip = rng.choice(['0', str(rng.randint(1, 9)) + ''.join(rng.choice('0123456789') for _ in range(rng.randint(0, 17)))])
        fr = ('.' + ''.join(rng.choice('0123456789') for _ in range(rng.randint(1, 18)))) if rng.random() < 0.6 else ''
        ex = (rng.choice('eE') + rng.choice(['', '+', '-']) + str(rng.randint(0, 330))) if rng.random() < 0.4 else ''
        add(rng.choice(['', '-']) + ip + fr + ex, ('number-gen',))
    # the number grammar digit by digit: every exponent digit string of length 1..3 (leading zeros included) with each sign
    # form, on a few mantissas; every fraction digit string of length 1..2; integer parts 0, 1..9, with trailing zeros
    exps = [''.join(p) for L in (1, 2, 3) for p in itertools.product('0123456789', repeat=L)]
    if tier == 'quick':
        exps = [e for e in exps if len(e) < 3] + rng.sample([e for e in exps if len(e) == 3], 150)
    for ex in exps:
        if int(ex) > 330:
            continue
        m = rng.choice(['1', '0', '1.5', '0.25', '12', '9.99', '10', '100.001'])
        add('%s%s%s%s' % (m, rng.choice('eE'), rng.choice(['', '+', '-']), ex), ('number-exp',))
    for fr in [''.join(p) for L in (1, 2) for p in itertools.product('0123456789', repeat=L)]:
        add('%s.%s' % (rng.choice(['0', '1', '10', '7']), fr), ('number-frac',))
        if rng.random() < 0.3:
            add('-%s.%se%s' % (rng.choice(['0', '3']), fr, rng.choice(['0', '00', '01', '-02', '+10'])), ('number-frac',))
    # nested containers with arbitrary inter-token whitespace
    def jv(d):
        k = rng.random()
        if d <= 0 or k < 0.3:
            return rng.choice(['null', 'true', 'false', rng.choice(NUMS), '"%s"' % ''.join(rng.choice(UNITS) for _ in range(rng.randint(0, 3)))])
        w = lambda: rng.choice(['', '', ' ', '\n', '\t', '  ', '\r\n'])
        if k < 0.65:
            return '[' + w() + (',' + w()).join(jv(d - 1) + w() for _ in range(rng.randint(0, 3))) + ']'
        keys = rng.sample(['a', 'b', 'c', 'k k', 'é', '', '$', 'and', 'in'], rng.randint(0, 3))
        return '{' + w() + (',' + w()).join('"%s"%s:%s%s%s' % (kk, w(), w(), jv(d - 1), w()) for kk in keys) + '}'
    for i in range(1200 if tier == 'quick' else 60000):
        add(jv(rng.randint(1, 4)), ('container',))
    for t in ['[[1]]', '[[]]', '{"a":[1]}', '[[[]]]', '[[1],[2]]', '[{"a":[[1]]}]', '[1,[2,[3,[4]]]]', '{}', '[]', '[{}]', '{"a":{}}', '{"a":{"b":{"c":[]}}}', 'null', 'true', 'false', '[null]', '{"a":null}', '[true,false,null]', ' [ 1 , 2 ] ', '{"a" : 1 , "b" : [ ] }']:
        add(t, ('shape',))
    return out

def run(tier, seed, replay=None):
    return simple_run('C11', tier, seed, replay,
        'RFC 8259 texts: all strings of up to 2 (quick, sampled above 1500) / 3 (thorough) units over an alphabet of every escape form and representative raw characters '
        '(ASCII, 2/3/4-byte, JSONata metacharacters), single-quoted twins, malformed escapes / unpaired surrogates, a backslash followed by every code point below U+0800 and a sample (thorough: all of the BMP) above, every number syntax incl. -0, every exponent digit string of length 1..3 and every fraction digit string of length 1..2 (leading zeros included), subnormals, 17+ digit and >2^53 '
        'integers and out-of-range numbers, generated numbers from the grammar, nested containers with arbitrary inter-token whitespace; each text both parsed (model parser vs '
        'implementation AST, exact) and evaluated (model vs implementation, and encoding/json as independent oracle); distinct = distinct text',
        cases, owner_direct=('jsonself',), timeout_ms=2000)
