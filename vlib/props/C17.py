"""C17 — regex literals and regex functions agree with the regular-expression engine (RE2 = Go's
regexp, answered as an oracle by the standard library itself)."""
import itertools, random
from ..engine import simple_run

def gen_pattern(rng, d=2):
    k = rng.random()
    if d <= 0 or k < 0.3:
        return rng.choice(['a', 'b', 'c', 'ab', '.', '[ab]', '[^a]', '[a-c]', '\\\\d', '\\\\w', '-', 'A', 'a|b'])
    if k < 0.5:
        return gen_pattern(rng, d - 1) + gen_pattern(rng, d - 1)
    if k < 0.65:
        return '(%s)' % gen_pattern(rng, d - 1)
    if k < 0.72:
        return '(?:%s)' % gen_pattern(rng, d - 1)
    if k < 0.8:
        return '(%s)?' % gen_pattern(rng, d - 1)
    if k < 0.9:
        return gen_pattern(rng, d - 1) + rng.choice(['*', '+', '?', '{1,2}', '*?'])
    if k < 0.95:
        return '%s|%s' % (gen_pattern(rng, d - 1), gen_pattern(rng, d - 1))
    return rng.choice(['^', '$', '\\\\b']) + gen_pattern(rng, d - 1)

def cases(tier, seed):
    rng = random.Random(seed)
    out = []; n = 0
    def add(expr, doc, tags=()):
        nonlocal n; n += 1
        out.append({'id': 'c%d' % n, 'kind': 'eval', 'expr': expr, 'input': doc, 'tags': list(tags)})
    alpha = ['a', 'b', 'c', 'A', '\n', '-', 'é']
    templates = ['$0', '$1', '$2', '$10', '$12', '$$', '$', 'x', '[$0]', '$1$2', '$11', '$01', '$3x', 'é$1', '$$1', '$ $', '<$0>', '$9', '$20', '$100']
    N = 700 if tier == 'quick' else 40000
    for i in range(N):
        pat = gen_pattern(rng, rng.randint(1, 3)).replace('\\\\', '\\')
        if '/' in pat:
            pat = pat.replace('/', '\\/')
        flags = rng.choice(['', '', 'i', 'm', 's', 'im', 'ms', 'ims'])
        rx = '/%s/%s' % (pat, flags)
        s = ''.join(rng.choice(alpha) for _ in range(rng.randint(0, 12)))
        d = {'s': s}
        lim = rng.choice([-1, 0, 1, 2, 3, 4, 1.5])
        add('$match(s, %s)' % rx, d, ('match',))
        add('$match(s, %s, %s)' % (rx, lim), d, ('match',))
        add('$contains(s, %s)' % rx, d, ('contains',))
        add('$split(s, %s)' % rx, d, ('split',))
        add('$split(s, %s, %s)' % (rx, lim), d, ('split',))
        t = rng.choice(templates)
        add('$replace(s, %s, %s)' % (rx, repr(t).replace("'", '"')), d, ('replace',))
        add('$replace(s, %s, %s, %s)' % (rx, repr(t).replace("'", '"'), lim), d, ('replace',))
        add('$replace(s, %s, function($m){"<" & $m.match & ":" & $m.index & ":" & $count($m.groups) & ">"})' % rx, d, ('replace-fn',))
        add('$replace(s, %s, function($m){%s})' % (rx, rng.choice(['"$1"', '"$0"', '"$$"', '"$" & $m.match', '"$1" & $m.match & "$2"', '"[$0|$1]"', '"$" & $string($m.index)', '"a$9b"', '"$$1"', '$m.match & "$"'])), d, ('replace-fn-dollar',))
        add('%s(s)' % rx, d, ('apply',))
        add('(%s)(s).next().next()' % rx, d, ('next',))
        add('( $m := %s(s); [$m.match, $m.start, $m.end, $m.groups, $m.next().match] )' % rx, d, ('next',))
        add('s.$match(%s)' % rx, d, ('ctx',))
    for ng in (8, 9, 10, 11, 12, 13):
        pat = ''.join('(%s)' % c for c in 'abcdefghijklm'[:ng])
        for t in ['$%d' % k for k in range(0, 15)] + ['<$10>', '$1-$10-$2', '$10$1', '$100', '$011', '[$12|$13]']:
            add('$replace("abcdefghijklmno", /%s/, "%s")' % (pat, t), None, ('many-groups',))
        add('$match("abcdefghijklmno", /%s/).groups' % pat, None, ('many-groups',))
    # the same text matched at several positions with different captures (anchors, word boundaries, alternation order)
    pdp = ['(^a)|(a)', '(a$)|(a)', '(\\ba)|(a)', '(^.)|(.)', '(a)|(^a)', '(?m)(^a)|(a)', '(a)(?:$)|(a)', '(^)?a', '(a)?(^a)?a', '(x)?a', '(a\\b)|(a)', '(?:(^)|(-))a', '((^a)|a)', '(a)|(b)', '(^ab)|(a)(b)', '(.)(?:(\\b)|(.))']
    subj = ['aa', 'aaa', 'a a a', 'a-a', 'a\na', 'aXa', 'abab', 'ab ab', '-a-a', 'a']
    tpls = ['[$1|$2]', '$1-$2', '<$2$1>', '$1', '$2', '($1)($2)($3)', '$0:$1', '$3$2$1$0']
    for pat, sj, tp in itertools.product(pdp, subj, tpls):
        if tier == 'quick' and rng.random() < 0.75:
            continue
        pat1 = pat.replace('\\\\', '\\')
        fl = 'm' if pat1.startswith('(?m)') else ''
        pat1 = pat1.replace('(?m)', '')
        add('$replace("%s", /%s/%s, "%s")' % (sj, pat1, fl, tp), None, ('position-captures',))
        if rng.random() < 0.3:
            add('$replace("%s", /%s/%s, "%s", %d)' % (sj, pat1, fl, tp, rng.randint(1, 3)), None, ('position-captures',))
            add('$match("%s", /%s/%s).groups' % (sj, pat1, fl), None, ('position-captures',))
            add('$replace("%s", /%s/%s, function($m){"[" & $join($m.groups, "|") & "]"})' % (sj, pat1, fl), None, ('position-captures',))
    add('$replace("abcdefg acdefg", /((a)(b)?)((c)|(x))(d)(e)(f)(g)/, "[$10$3]")', None, ('many-groups',))
    # literal handling
    for e in ['//', '/(/', '/[a/', '/a/x', '/a\\/b/', '$match("a/b", /a\\/b/)', '$match("AbC", /b/i)', '$match("a\nb", /a.b/s)', '$match("a\nb", /^b/m)', '$match("a\nb", /^b/)',
              '$match("x", /a/)', '$replace("abc", /b/, function($m){5})', '$replace("abc", /b/, "$9999999999")', '$match("abc", /b/, -1)', '$split("abc", /b/, -1)', '$replace("abc", /b/, "x", -1)',
              '$match(5, /a/)', '$match("a", "a")', '$contains("abc", /B/i)', '$split("a1b22c", /\\d+/)', '$replace("aaa", /a/, "b", 2)', '$replace("abc", /(?:)/, "-")', '$split("abc", /(?:)/)',
              '$match("abab", /(a)(b)?/)', '$match("ab", /(x)?ab/)', '$replace("ab", /(x)?ab/, "[$1]")', '$replace("john smith", /(\\w+)\\s(\\w+)/, "$2, $1")', '/a/("a").match', '/a/(5)', '/a/()',
              '$match("aXbxc", /x/i).index', '$replace("a.b", /\\./, "$$")', '$type(/a/)', '$string(/a/)', '/a/ = /a/', '$match("é€", /€/)', '$match("é€", /./).index']:
        add(e, None, ('literal',))
    # user-written matcher functions ($match with a custom matcher)
    for e in ['$match("abc", function($s){{"match":"b","start":1,"end":2,"groups":[],"next":function(){nothing}}})',
              '$match("abc", function($s){{"match":"b","start":1,"end":2,"groups":[]}})', '$match("abc", function($s){5})', '$match("abc", function($s){nothing})',
              '$split("abc", function($s){{"match":"b","start":1,"end":2,"groups":[],"next":function(){nothing}}})',
              '$split("abc", function($s){{"match":"b","start":2,"end":1,"groups":[],"next":function(){nothing}}})',
              '$replace("abc", function($s){{"match":"b","start":1,"end":9,"groups":[],"next":function(){nothing}}}, "x")',
              '$contains("abc", function($s){{"match":"b","start":1,"end":2,"groups":["g"],"next":function(){nothing}}})']:
        add(e, None, ('custom-matcher',))
    return out

def run(tier, seed, replay=None):
    return simple_run('C17', tier, seed, replay,
        'patterns from a grammar of literals, classes, alternation, capturing/non-capturing/optional groups, quantifiers and anchors x each flag subset; subjects of 0..12 characters over '
        '{a,b,c,A,newline,-,é}; $match/$contains/$split/$replace (templates over $0..$100, $$, lone $, text; replacement functions; limits -1..4 and fractional), application of a literal '
        'and its next chain; literal syntax (empty, invalid, \\/, flags); user-written matcher functions incl. ill-formed ones; the engine itself (regexp) is the oracle; '
        'distinct = distinct (expression, input)',
        cases)
