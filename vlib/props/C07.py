"""C07 — input documents are never modified; transform returns a modified copy."""
import random, re
from ..engine import simple_run
from ..gen.exprs import Gen
from ..gen.common import gen_doc

def cases(tier, seed):
    rng = random.Random(seed)
    out = []; n = 0
    def add(expr, doc, tags=()):
        nonlocal n; n += 1
        out.append({'id': 'c%d' % n, 'kind': 'eval', 'expr': expr, 'input': doc, 'tags': list(tags)})
    def doc():
        return {'a': {'b': rng.randint(0, 3), 'c': [1, 2], 'n': None, 'patch': rng.choice([{'z': 0}, {'b': 7, 'q': 1}, {'c': [], 'n': 5}, {}])},
                'patch': rng.choice([{'z': 9, 'w': 1}, {'k': 'p'}, {'v': 0, 'o': {}}, {'nn': [1], 'deep': {'x': 2}}, 5]), 'list': [{'k': rng.choice('xyz'), 'v': rng.randint(0, 9), 'o': {'p': 1}, 'drop': rng.choice(['k', 'v', 'o', ['k', 'v'], 'none', 5, ['o', 5]])} for _ in range(rng.randint(0, 4))],
                'e': {}, 'ea': [], 's': 'str', 'nested': {'x': {'y': {'z': [{'w': 1}]}}}}
    pats = ['$', 'a', 'list', 'list[v > 3]', 'list.o', '**', '*', 'nested.x.y', 'nested.**', 'list[0]', '[list]', 'list[k = "x"]', 'nothing', 's', 'a.c', '$.a', 'list[-1]', 'nested.x.y.z', '{"new": 1}', 'a.{"b": b}']
    upds = ['{"z": 1}', '{"b": b + 1}', '{"v": v * 2, "w": k}', '{}', '{"o": {"q": 2}}', '{"k": nothing}', '5', '"s"', '[1]', 'nothing', '{"b": $$.s}', '{"a": {"deep": [1, {"x": 2}]}}',
            # update objects taken as they are from the document (with null members) or built with nulls
            '$$.patch', 'patch', '$$.a.patch', '{"z": null}', '$merge([$$.patch, {"m": 1}])', '$$.patch', 'patch', 'o', '$$.a']
    dels = [None, '"b"', '["v", "o"]', '"missing"', '[]', '5', '["k", 5]', 'nothing', '"c"', '["b", "c", "n"]',
            # deletes that depend on the object being transformed
            'drop', '[drop]', 'k', 'v > 3 ? "k" : "v"', 'v > 3 ? "k" : 5', 'v > 3 ? ["k", "o"]', '$string(k)', 'o.p = 1 ? "o"', '[k, "v"]', 'drop', 'drop']
    N = 1500 if tier == 'quick' else 80000
    for i in range(N):
        p, u, d = rng.choice(pats), rng.choice(upds), rng.choice(dels)
        t = '|%s|%s%s|' % (p, u, (', ' + d) if d else '')
        form = rng.random()
        if form < 0.4: e = '$ ~> %s' % t
        elif form < 0.55: e = 'a ~> %s' % t
        elif form < 0.7: e = '$map(list, %s)' % t
        elif form < 0.8: e = '$ ~> %s ~> %s' % (t, '|%s|%s|' % (rng.choice(pats), rng.choice(upds)))
        elif form < 0.9: e = '( $t := %s; [$t($), $t(a), $] )' % t
        else: e = '%s(%s)' % (t, rng.choice(['$', 'a', 'list', '5', 'nothing', '"s"', '$, 1', '']))
        add(e, doc(), ('transform',))
    for stage in ['$reverse()', '$sort(function($l,$r){$l.v > $r.v})', '$filter(function($i){$i.v >= 0})', '$append([])', '$distinct()', 'function($x){$x}', '$shuffle()']:
        for t in ['|$|{"seen": true}, ["k"]|', '|$|{"v": v * 10}|', '|o|{"q": 1}|']:
            add('list ~> %s ~> %s' % (stage, t), doc(), ('pipeline',) + (('unordered',) if 'shuffle' in stage else ()))
    for e in ['$ ~> $lookup("a") ~> |$|{"owner": "me"}|', 'a ~> function($x){$x} ~> |$|{"z": 1}, "b"|', '( $t := |$|{"n": 1}|; $r := list ~> $reverse() ~> $t; $map(list, $t) )', 'list ~> $append([]) ~> |$|{"n": 1}| ~> |$|5|']:
        add(e, doc(), ('pipeline',))
    # update objects with null members, taken as they are from the document: every member of the update object is a
    # member of the transformed object (checked inside JSONata, independent of the model; the port's treatment of
    # JSON null in input documents is outside the model)
    for i in range(60 if tier == 'quick' else 2000):
        d = doc()
        d['np'] = rng.choice([{'z': None}, {'b': None, 'q': 1}, {'k': None, 'v': None}, {'x': None, 'y': [None], 'w': {'u': None}}])
        pat = rng.choice(['a', 'list', 'list[0]', 'nested.x', 'list.o', '$'])
        upd = rng.choice(['$$.np', '$np'])
        e = '( $np := $$.np; $r := $ ~> |%s|%s|; $t := $r.(%s); $count($keys($$.np)[$not($ in $keys($t[0]))]) = 0 or $not($exists($t)) )' % (pat, upd, pat)
        add(e, d, ('null-update', 'law', 'novalue'))
    # the known witness and relatives
    for e in ['$ ~> |$$|{"z":1}|', '( $v := a; $ ~> |$v|{"z":1}| )', '$ ~> |$$.a|{"z":1}, "b"|', 'a ~> |$$.list|{"z":1}|']:
        add(e, doc(), ('outside-copy',))
    # every other kind of program must not modify its input either
    muts = ['$sort(list, function($x,$y){$x.v > $y.v})', '$reverse(list)', '$append(list, a)', '$shuffle(list)', '$zip(list, list)', '$merge(list)', '$merge([a, e])', '$distinct(list)', 'list^(v)', 'list^(>k, v)',
            'list{k: v}', 'list{k: $}', '$sift(a, function($v){$v})', '$each(a, function($v){$v})', '$spread(a)', '$map(list, function($x){$x})', '$filter(list, function($x){$x.v > 2})', '$reduce(list, $append)',
            'list[v > 2]', 'list.o', '**', '$string($)', '$keys($)', '$lookup($, "a")', '[list, list]', '{"x": list}', '$count(list)', '$sort(a.c)', '$reverse(a.c)', 'a.c ~> $append(9)']
    for e in muts:
        for _ in range(3 if tier == 'quick' else 60):
            add(e, doc(), ('builtin', 'unordered') if any(t in e for t in ('shuffle', 'each', 'spread', 'keys', '*', 'merge', 'sift')) else ('builtin',))
    # every array function that could work in place, on EVERY permutation of small arrays taken straight from the
    # document (and from a registered variable): the caller's arrays must keep their order
    import itertools
    inplace = ['$sort(nums, function($l, $r){$l > $r})', '$sort(nums, function($l, $r){$l < $r})', '$sort(nums)', '$reverse(nums)', '$shuffle(nums)', '$append(nums, 9)', '$append(nums, nums)', '$distinct(nums)',
               '$zip(nums, nums)', 'nums^($)', 'nums^(>$)', '$filter(nums, function($x){$x > 1})', '$map(nums, function($x){$x})', '$reduce(nums, function($p, $q){$p + $q})', '$sort(objs, function($l, $r){$l.v > $r.v})',
               'objs^(v)', 'objs^(>v)', '$reverse(objs)', '$sort(nums, function($l, $r){$l > $r}) ~> $reverse()', '$max(nums)', '$sum(nums)', '$join($sort(strs))', '$sort(strs, function($l, $r){$l > $r})', 'nums[[2,0]]',
               '$sort(nums, function($l, $r){$error("stop")})', '$sort(nums, function($l, $r){$l.x > $r})', 'objs{$string(v): $}', '$merge(objs)', '$sort($append(nums, []), function($l, $r){$l > $r})']
    perms = [list(p) for m in (2, 3, 4) for p in itertools.permutations(range(1, m + 1))] + [[1, 1, 2], [2, 1, 1], [1, 2, 1], [3, 1, 3, 2], [1, 2, 3, 4, 5, 0]]
    for e in inplace:
        for pm in (perms if tier != 'quick' else rng.sample(perms, 9)):
            d = {'nums': pm, 'objs': [{'v': x, 'i': i} for i, x in enumerate(pm)], 'strs': [str(x) for x in pm]}
            tags = ('inplace', 'unordered') if 'shuffle' in e or 'merge' in e else ('inplace',)
            add(e, d, tags)
            if rng.random() < 0.35:
                n += 1
                out.append({'id': 'c%d' % n, 'kind': 'eval', 'expr': e.replace('nums', '$reg.nums').replace('objs', '$reg.objs').replace('strs', '$reg.strs'), 'input': {}, 'vars': {'reg': d}, 'tags': list(tags) + ['registered']})
    # documents with SHARED sub-structures (the harness makes "head" a sub-slice of "all" with spare capacity, "same" the
    # same slice as "all", "o2" the same object as "o"): writing through one name must not show through the other
    sh_progs = ['$append(head, 99)', '$append(head, [7, 8])', '$append(head, all)', '$append(same, 1)', '$append($append(head, 1), 2)', '$sort(head, function($l, $r){$l > $r})', '$reverse(head)', '$sort(same, function($l, $r){$l < $r})',
                '$zip(head, all)', '$distinct($append(head, all))', '$map(head, function($x){$x + 1})', '$filter(all, function($x){$x > 1})', '[head, all, same]', '$reduce(head, $append)', 'head ~> $append(5) ~> $append(6)',
                '$ ~> |o|{"z": 1}|', 'o2 ~> |$|{"z": 1}, "k"|', '$merge([o, {"n": 1}])', '$merge([o, o2])', '$ ~> |$|{"all": $append(head, 0)}|', '$each(o, function($v, $k){$k})', '$sift(o2, function($v){true})', '{"x": $append(head, 4), "y": head}',
                '$append(head, 99) ~> $append(100)', '($h := head; $append($h, 3))', '$shuffle(head)', 'head[[0, 1]]', '$append(head[0], all)', 'inner.$append(head, -1)', '$map([1, 2], function($i){$append($$.head, $i)})']
    for e in sh_progs:
        for L in ((3, 4, 5) if tier == 'quick' else (2, 3, 4, 5, 6, 7)):
            allv = [rng.randint(0, 9) for _ in range(L)]
            k = rng.randint(1, L - 1)
            d = {'all': allv, 'head': allv[:k], 'same': list(allv), 'o': {'k': 1, 'v': [1, 2]}, 'o2': {'k': 1, 'v': [1, 2]}, 'inner': {'all': [5, 6, 7], 'head': [5]}}
            tags = ('shared', 'unordered') if any(t in e for t in ('shuffle', 'each', 'sift', 'merge')) else ('shared',)
            add(e, d, tags)
            if rng.random() < 0.3:
                n += 1
                out.append({'id': 'c%d' % n, 'kind': 'eval', 'expr': re.sub(r'\b(head|all|same|o2|o|inner)\b', lambda m: '$reg.' + m.group(1), e), 'input': {}, 'vars': {'reg': d}, 'tags': list(tags) + ['registered']})
    # heterogeneous arrays: objects after / between scalars, nulls and nested arrays must be found by the pattern and updated
    het = [[7, {'a': 1}, {'a': 2}], [None, {'a': 1}], ['s', {'a': 1, 'k': 'x'}, 5, {'a': 2}], [[{'a': 1}], {'a': 2}], [True, [1, {'a': 3}]], [{'a': 1}, 7, {'a': 2}], [1, 2, 3, {'a': 9}], [[], {'a': 1}], [{}, 0, {'a': 1}]]
    for items in het:
        for t in ['|items|{"x": true}|', '|items|{"x": true}, "a"|', '|items|{}, "a"|', '|**|{"z": 1}|', '|items[a > 0]|{"a": a + 1}|', '|*|{"y": 0}|', '|items[1]|{"w": 2}|', '|items[-1]|{"w": 2}, ["a", "k"]|']:
            nul = any(x is None for x in items)
            add('$ ~> %s' % t, {'items': items, 'o': {'items': items}}, ('heterogeneous',) + (('novalue',) if nul else ()) + (('unordered',) if '*' in t else ()))
            if not nul:
                add('( $r := $ ~> %s; [$count($r.items[$type($) = "object"]), $r.items[$type($) = "object"].$keys($) ~> $sort()] )' % t, {'items': items}, ('heterogeneous',))
    # transforms and updates through a registered variable
    for i in range(60 if tier == 'quick' else 3000):
        d = doc()
        e = rng.choice(['$reg ~> |list|{"z": 1}, "k"|', '$reg.list ~> |$|{"v": v + 1}|', '$reg ~> |a|{"b": 9}|', '$ ~> |$reg.list|{"z": 1}|', '($v := $reg.a; $reg ~> |$v|{"z": 1}|)', '$sort($reg.list, function($l, $r){$l.v > $r.v})',
                        '$append($reg.list, $reg.a)', '$reg.list[v > 3] ~> |$|{"hit": true}|', '$map($reg.list, |$|{"m": 1}|)', '$reg.list^(>v)'])
        n += 1
        out.append({'id': 'c%d' % n, 'kind': 'eval', 'expr': e, 'input': d, 'vars': {'reg': doc()}, 'tags': ['registered', 'transform']})
    for i in range(1500 if tier == 'quick' else 80000):
        g = Gen(rng, chaos=0.1, deny=('random',))
        add(g.program(rng.randint(1, 4)), rng.choice([doc(), gen_doc(rng, 3, 3)]), ('generated', 'novalue'))
    return out

def run(tier, seed, replay=None):
    return simple_run('C07', tier, seed, replay,
        'every array function that could work in place on every permutation of small arrays taken straight from the document and from a registered variable; transforms with context-relative patterns, updates and deletes (valid and ill-typed; updates and delete lists that differ per matched object), applied through ~>, $map, chains, bound to variables and called directly with wrong argument '
        'counts/types; built-ins that could reorder in place ($sort, $reverse, $append, $shuffle, $zip, $merge, $distinct, order-by, grouping); generated programs over every node type; '
        'documents with nulls, empty containers, nested objects and SHARED sub-structures (sub-slices with spare capacity, one slice / one object under two names); after every evaluation (successful or failing) the caller\'s document is deep-compared with a copy taken before, '
        'and the transform result is compared with the model; distinct = distinct (expression, input)',
        cases, owner_direct=('immut',), panics_are='C09', unordered_tag='unordered')
