"""C15 — array, higher-order and aggregate functions."""
import itertools, random
from ..engine import simple_run
from ..gen.common import lit

DOM5 = [1, '1', True, [1], {'a': 1}]

def cases(tier, seed):
    rng = random.Random(seed)
    out = []; n = 0
    def add(expr, doc, tags=()):
        nonlocal n; n += 1
        out.append({'id': 'c%d' % n, 'kind': 'eval', 'expr': expr, 'input': doc, 'tags': list(tags)})
    fns1 = ['function($v){$v}', 'function($v,$i){$i}', 'function($v,$i,$a){$count($a)}', 'function(){1}', '$string', '$boolean',
            'function($v){$v = 1}', 'function($v){nothing}', 'function($v,$i){$i % 2 = 0}', '$exists', 'function($v){[$v]}',
            '$substring(?, 0, 1)', '$string ~> $length', 'function($a,$b,$c,$d){$d}', '$type', '$not', '$count']
    unary = ['$count(a)', '$reverse(a)', '$distinct(a)', '$append(a, a)', '$append(a, 5)', '$append(5, a)', '$zip(a, a)', '$zip(a, [1,2])', '$zip(a)',
             '$sum(a)', '$max(a)', '$min(a)', '$average(a)', '$count($shuffle(a))', '$sort($shuffle(a)) = $sort(a)', '$append(a, nothing)', '$append(nothing, a)',
             '$reverse($reverse(a)) = a', '$count($distinct(a)) <= $count(a)', '$zip(a, nothing)', '$zip()', '$sum(nothing)', '$max(nothing)',
             '$distinct(nothing)', '$count(nothing)', '$reverse(nothing)', '$shuffle(nothing)']
    hof = ['$map(a, %s)', '$filter(a, %s)', '$single(a, %s)', '$map(a, %s)[0]', '$count($filter(a, %s))']
    red = ['$reduce(a, function($p,$q){$p + $q})', '$reduce(a, function($p,$q){$p + $q}, 100)', '$reduce(a, function($p,$q){$p & $q}, "")',
           '$reduce(a, function($p){$p})', '$reduce(a, function($p,$q,$r){$p})', '$reduce(a, $append)', '$reduce(a, function($p,$q){$q})',
           '$reduce(a, function($p,$q){[$p,$q]})', '$reduce(a, function($p,$q){$p}, nothing)', '$reduce(nothing, function($p,$q){$p})']
    # exhaustive: arrays up to length 3 (quick: 2) over the 5-value domain
    maxlen = 2 if tier == 'quick' else 3
    for L in range(0, maxlen + 1):
        for arr in itertools.product(DOM5, repeat=L):
            d = {'a': list(arr)}
            for e in unary:
                add(e, d, ('ex', 'shuffle' if 'shuffle' in e else 'plain'))
            for h in hof:
                for f in (fns1 if tier != 'quick' else fns1[:6]):
                    add(h % f, d, ('ex-hof',))
    for mk in ['$map([1,2,3], function($v){$v})', '$filter([1,2,3,9], function($v){$v < 5})', '[1,2,3]', '$append([1,2],[3])', '$reverse([3,2,1])', '$sort([3,1,2])', '$distinct([1,2,3,3])', '$map([1,2,3,4,5], function($v){$v})']:
        add('($a := %s; $b := $append($a, "x"); $c := $append($a, "y"); {"a": $a, "b": $b, "c": $c})' % mk, None, ('alias',))
        add('($a := %s; $map([10,20,30], function($x){$append($a, $x)}))' % mk, None, ('alias',))
        add('($a := %s; $r := $reverse($a); $s := $sort($a); $z := $append($a, $a); [$a, $r, $s, $z])' % mk, None, ('alias',))
    # numeric arrays for aggregates and reduce
    for i in range(500 if tier == 'quick' else 20000):
        m = rng.randint(0, 8)
        nums = [rng.choice([0, 1, 2, 3, -1, 0.5, 1e308, -1e308, 0.1, 0.2, 1e-320, 5]) for _ in range(m)]
        d = {'a': nums}
        for e in rng.sample(unary, 5) + rng.sample(red, 3):
            add(e, d, ('num',))
        mixed = [rng.choice([1, 2, 'a', True, [1, 2], {'a': 1}, 1, '1']) for _ in range(m)]
        d2 = {'a': mixed}
        for e in rng.sample(unary, 4):
            add(e, d2, ('mixed',))
        add(rng.choice(hof) % rng.choice(fns1), d2, ('mixed-hof',))
    # the call protocol made visible: callbacks that return or test EVERY parameter they receive, of arity 0..6,
    # plus built-ins / partials with 1..4 parameters, on arrays, scalars, objects, nested arrays and missing values
    observers = ['function(){"k"}', 'function($v){[$v]}', 'function($v,$i){[$v,$i]}', 'function($v,$i,$a){[$v,$i,$a]}', 'function($v,$i,$a,$x){[$v,$i,$a,$x]}', 'function($v,$i,$a,$x,$y){$exists($y)}',
                 'function($v,$i,$a,$x,$y,$z){1}', 'function($v,$i,$a){$type($a) = "array"}', 'function($v,$i,$a){$count($a) > $i}', 'function($v,$i,$a){$a[$i] = $v}', 'function($v,$i,$a){$string($a)}',
                 'function($v,$i){$i = 0}', 'function($v,$i,$a){$i = $count($a) - 1}', 'function($v,$i,$a){$type($i) = "number" and $exists($a)}', '$replace', '$substring', '$pad', '$contains', '$append',
                 'function($v,$i){$i = 0 ? $v}', 'function($v,$i){$i > 0 ? $v}', 'function($v,$i,$a){$i = $count($a) - 1 ? nothing : $v}', 'function($v){nothing}', 'function($v){$v.nosuch}', 'function($v,$i){$i = 1 ? nothing : true}',
                 # chains whose first stage yields no value for some members and whose later stage turns no value into a value
                 '(function($v){$v > 5 ? $v}) ~> $count', '(function($v){$v > 5 ? $v}) ~> $exists', '(function($v){$v > 5 ? $v}) ~> function($x){$exists($x) ? $x : "none"}', '$lookup(?, "a") ~> $count',
                 '(function($v){$v.nosuch}) ~> $not', '(function($v){nothing}) ~> $exists ~> $not', '$string ~> $length ~> (function($n){$n > 1 ? $n}) ~> $exists',
                 '$replace(?, ?, ?, ?)', '$substring(?, ?, ?)', '$append(?, ?)', 'function($v)<x:x>{$v}', 'function($v,$i)<xn:n>{$i}', 'function($v,$i,$a)<xna:a>{$a}', 'function($v,$i,$a,$x)<xnax:n>{$i}']
    subjects = [[], [5], [5, 6], [5, 6, 7], 5, 'x', {'a': 1}, [[1, 2]], [[1], [2]], [{'a': 1}, {'a': 2}], None, [True, False, 0, '']]
    for sub, f in itertools.product(subjects, observers):
        d = {} if sub is None else {'a': sub}
        for h in ['$map(a, %s)', '$filter(a, %s)', '$single(a, %s)']:
            if tier == 'quick' and rng.random() < 0.4:
                continue
            add(h % f, d, ('protocol',))
        if rng.random() < 0.5:
            add('a.$map($, %s)' % f, d, ('protocol',)); add('$map(a, %s) ~> $count()' % f, d, ('protocol',))
    robs = ['function($p,$q){[$p,$q]}', 'function($p,$q,$i){[$p,$q,$i]}', 'function($p,$q,$i,$a){[$p,$q,$i,$a]}', 'function($p){$p}', 'function(){1}', 'function($p,$q,$i,$a,$x){$x}', '$append', '$replace', '$string',
            'function($p,$q)<xx:x>{$q}', '$substring(?, ?)', 'function($p,$q){$p & "," & $q}',
            # callbacks that yield no value on some step (first, middle, last, every)
            'function($p,$q){$q > 5 ? $p + $q}', 'function($p,$q){nothing}', 'function($p,$q){$q = 7 ? nothing : $p}', 'function($p,$q){$q = 6 ? nothing : $q}', 'function($p,$q){$p.nosuch}', 'function($p,$q){$exists($p) ? nothing : $q}']
    for sub, f, init in itertools.product(subjects, robs, ['', ', 100', ', nothing', ', []', ', "s"']):
        if tier == 'quick' and rng.random() < 0.5:
            continue
        add('$reduce(a, %s%s)' % (f, init), {} if sub is None else {'a': sub}, ('protocol', 'reduce'))
    # value equality ($distinct, and = / in on the same values): exhaustive pairs and triples over a domain where objects and
    # arrays are subsets / prefixes / permutations of one another and scalars differ only in kind
    eqdom = [{}, {'a': 1}, {'a': 1, 'b': 2}, {'b': 2, 'a': 1}, {'a': '1'}, {'a': {'a': 1}}, {'a': {}}, [], [1], [1, 2], [2, 1], [[1]], [{}], 1, '1', True, 1.0, 0, False, '', 'a']
    for xs in itertools.product(eqdom, repeat=2):
        add('$distinct(a)', {'a': list(xs)}, ('distinct-eq',)); add('$count($distinct(a))', {'a': list(xs)}, ('distinct-eq',))
        add('a[0] = a[1]', {'a': [[x] for x in xs]} if False else {'a': list(xs)}, ('distinct-eq',))
    for xs in (itertools.product(eqdom[:12], repeat=3) if tier != 'quick' else [tuple(rng.choice(eqdom) for _ in range(3)) for _ in range(400)]):
        add('$distinct(a)', {'a': list(xs)}, ('distinct-eq',))
        add('$distinct([a, a])', {'a': list(xs)}, ('distinct-eq',))
    # literal empty / singleton / nested-empty arrays in every argument position (a path that selects an empty array is
    # 'no value', a literal [] is an empty array: only the literal reaches the functions)
    lits = ['[]', '[[]]', '[1]', '[1,2]', 'nothing', '$filter([1], function($v){false})', '[[], 1]', '5']
    fns2 = ['$zip(%s, %s)', '$zip(%s, %s, [7,8,9])', '$zip([7,8,9], %s, %s)', '$append(%s, %s)', '$append($append(%s, %s), [])', '$distinct($append(%s, %s))', '[%s, %s]', '$count($append(%s, %s))',
            '$reduce($append(%s, %s), function($p,$q){$p})', '$map(%s, function($v){%s})', '$filter(%s, function($v){$count(%s) > 0})', '$sort($append(%s, %s))', '$reverse($append(%s, %s))', '$sum($append(%s, %s))',
            '$max($append(%s, %s))', '$average($append(%s, %s))', '$shuffle($append(%s, %s)) ~> $count()', '$single($append(%s, %s), function($v){true})', '$join($append(%s, %s))', '$zip(%s) ~> $append(%s)']
    for f in fns2:
        for x, y in itertools.product(lits, lits):
            add(f % (x, y), {}, ('empty-literals',))
    for f in ['$zip(%s)', '$sort(%s)', '$reverse(%s)', '$distinct(%s)', '$count($shuffle(%s))', '$count(%s)', '$sum(%s)', '$max(%s)', '$min(%s)', '$average(%s)', '$append(%s, 1)', '$append(1, %s)', '$join(%s)', '$string(%s)', '$zip(%s, %s, %s)']:
        for x in lits:
            add(f.replace('%s', x), {}, ('empty-literals',))
    # scalars in array position
    for v in [5, 'x', True, {'a': 1}]:
        for e in unary:
            add(e, {'a': v}, ('scalar',))
        for h in hof:
            add(h % 'function($v){$v}', {'a': v}, ('scalar',))
    return out

def run(tier, seed, replay=None):
    return simple_run('C15', tier, seed, replay,
        'exhaustive arrays of length <= 2 (quick) / <= 3 (thorough) over a 5-value domain {1,"1",true,[1],{"a":1}} against every array function and '
        'every higher-order function with lambdas of arity 0..4, built-ins, partials and chains; the call protocol made visible (26 callbacks of arity 0..6 that return or test every parameter, typed lambdas, multi-parameter built-ins and partials) on 12 subjects (arrays, scalars, objects, nested, missing) for $map/$filter/$single and $reduce with 5 kinds of initial value; random numeric arrays <= 8 for aggregates/$reduce incl. '
        'overflow; mixed-kind arrays; scalars and missing arguments; $shuffle compared through order-insensitive expressions; distinct = distinct (expression, input)',
        cases)
