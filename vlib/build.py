"""Incremental build of everything a check needs, from /repo's current working tree:
Go harness (against /repo, -tags verif), generated tables, the Coq development (full .vo
build through coq_makefile), the Properties files (with their Print Assumptions output
captured), the extracted OCaml model and its driver."""
import fcntl, glob, hashlib, json, os, re, shutil, subprocess, sys, time

VERIF = '/verif'
WORK = os.path.join(VERIF, '.work')
COQ = os.path.join(VERIF, 'coq')
GOENV = dict(os.environ, GOFLAGS='-mod=mod', GOPROXY='off', GOSUMDB='off', GOTOOLCHAIN='local',
             CGO_ENABLED='0')
FORBIDDEN = re.compile(r'\b(Admitted|admit|Axiom|Axioms|Parameter|Parameters|Conjecture|Admit Obligations|'
                       r'Unset Guard Checking|Unset Positivity Checking|Unset Universe Checking|bypass_check|'
                       r'Hypothesis|Hypotheses)\b')

class BuildError(Exception):
    def __init__(self, stage, detail):
        super().__init__(stage + ': ' + detail[-4000:])
        self.stage, self.detail = stage, detail

def sh(cmd, cwd=None, env=None, timeout=3600):
    p = subprocess.run(cmd, cwd=cwd, env=env, shell=isinstance(cmd, str), stdout=subprocess.PIPE,
                       stderr=subprocess.STDOUT, text=True, timeout=timeout)
    return p.returncode, p.stdout

def coq_files():
    """Files of the development, in _CoqProject order (Properties and Extract are built separately)."""
    out = []
    for line in open(os.path.join(COQ, '_CoqProject')):
        line = line.strip()
        if line.endswith('.v'):
            out.append(line)
    return out

def strip_comments(src):
    out, depth, i = [], 0, 0
    while i < len(src):
        if src.startswith('(*', i):
            depth += 1; i += 2
        elif src.startswith('*)', i) and depth > 0:
            depth -= 1; i += 2
        else:
            if depth == 0:
                out.append(src[i])
            i += 1
    return ''.join(out)

def forbidden_scan():
    """No Axiom/Parameter/Admitted/... anywhere in the development. Variable/Hypothesis are
    allowed only inside a Section (checked by nesting)."""
    bad = []
    files = coq_files() + [os.path.relpath(p, COQ) for p in glob.glob(os.path.join(COQ, 'Properties', '*.v'))]
    for f in files:
        src = strip_comments(open(os.path.join(COQ, f)).read())
        src = re.sub(r'"(?:[^"]|"")*"', '""', src)
        depth = 0
        for sent in re.split(r'\.\s', src):
            s = sent.strip()
            if re.match(r'Section\b', s): depth += 1
            elif re.match(r'End\b', s) and depth > 0: depth -= 1
            m = FORBIDDEN.search(s)
            if m:
                w = m.group(1)
                if w in ('Hypothesis', 'Hypotheses') and depth > 0:
                    continue
                bad.append('%s: %s' % (f, s[:80]))
            if re.match(r'(Variable|Variables)\b', s) and depth == 0:
                bad.append('%s: top-level %s' % (f, s[:60]))
    return bad

def build_harness():
    os.makedirs(os.path.join(WORK, 'bin'), exist_ok=True)
    shutil.copyfile('/repo/go.sum', os.path.join(VERIF, 'harness', 'go.sum'))
    out = os.path.join(WORK, 'bin', 'jvh')
    rc, log = sh(['go', 'build', '-tags', 'verif', '-o', out, './cmd/jvh'], cwd=os.path.join(VERIF, 'harness'), env=GOENV)
    tagged = True
    if rc != 0:
        rc2, log2 = sh(['go', 'build', '-o', out, './cmd/jvh'], cwd=os.path.join(VERIF, 'harness'), env=GOENV)
        tagged = False
        if rc2 != 0:
            raise BuildError('go-build', log + '\n--- without tag ---\n' + log2)
    # C06: the race harness (needs cgo for -race); optional: absence is reported by the C06 check
    race = os.path.join(WORK, 'bin', 'jvrace')
    env = dict(GOENV, CGO_ENABLED='1')
    rc3, log3 = sh(['go', 'build', '-race'] + (['-tags', 'verif'] if tagged else []) + ['-o', race, './cmd/jvrace'], cwd=os.path.join(VERIF, 'harness'), env=env)
    if rc3 != 0 and os.path.exists(race):
        os.remove(race)
    return out, tagged, log if not tagged else ''

def newest(paths):
    return max([os.path.getmtime(p) for p in paths if os.path.exists(p)] or [0])

def build_coq(jobs=16):
    rc, log = sh('coq_makefile -f _CoqProject -o Makefile', cwd=COQ)
    if rc != 0:
        raise BuildError('coq_makefile', log)
    rc, log = sh('timeout 3000 make -j%d' % jobs, cwd=COQ, timeout=3100)
    if rc != 0:
        raise BuildError('coq-make', log)
    return log

def build_properties(only=None):
    """Compile Properties/Cxx.v (theorem statements closed by `exact lemma`, Print Assumptions),
    capturing the output. Returns {id: {obligations, discharged, axioms, ok, log}}."""
    os.makedirs(os.path.join(WORK, 'assumptions'), exist_ok=True)
    res = {}
    dev_time = newest([os.path.join(COQ, f[:-2] + '.vo') for f in coq_files()])
    for path in sorted(glob.glob(os.path.join(COQ, 'Properties', 'C*.v'))):
        pid = os.path.basename(path)[:-2]
        if only and pid not in only:
            continue
        vo = path[:-2] + '.vo'
        logf = os.path.join(WORK, 'assumptions', pid + '.txt')
        fresh = os.path.exists(vo) and os.path.exists(logf) and os.path.getmtime(vo) >= max(dev_time, os.path.getmtime(path)) and os.path.getmtime(logf) >= os.path.getmtime(vo)
        if not fresh:
            rc, log = sh('timeout 1800 coqc -Q . JV Properties/%s.v' % pid, cwd=COQ, timeout=1900)
            open(logf, 'w').write(log)
            if rc != 0:
                if os.path.exists(vo): os.remove(vo)
                res[pid] = dict(ok=False, log=log, obligations=count_theorems(path), discharged=0, axioms=[])
                continue
        log = open(logf).read()
        res[pid] = dict(ok=True, log=log, obligations=count_theorems(path),
                        discharged=len(re.findall(r'Closed under the global context|^Axioms:', log, re.M)),
                        axioms=sorted(set(re.findall(r'^\s*([A-Za-z_][\w.]*)\s*:', log.split('Axioms:', 1)[1], re.M))) if 'Axioms:' in log else [])
        # axioms over all blocks
        ax = set()
        for block in log.split('Axioms:')[1:]:
            for m in re.finditer(r'^([A-Za-z_][\w.\']*)\s*$|^([A-Za-z_][\w.\']*)\s*:', block, re.M):
                ax.add(m.group(1) or m.group(2))
        res[pid]['axioms'] = sorted(a for a in ax if a)
    return res

def count_theorems(path):
    src = strip_comments(open(path).read())
    return len(re.findall(r'^\s*(Theorem|Corollary)\s', src, re.M))

def build_model():
    """Extract the model to OCaml and build the driver, when any .vo is newer than the binary."""
    od = os.path.join(WORK, 'ocaml')
    os.makedirs(od, exist_ok=True)
    binp = os.path.join(od, 'modelrun')
    deps = [os.path.join(COQ, f[:-2] + '.vo') for f in coq_files()] + [os.path.join(VERIF, 'ocaml', 'driver.ml'),
            os.path.join(COQ, 'Extract', 'Extract.v')]
    if os.path.exists(binp) and os.path.getmtime(binp) >= newest(deps):
        return binp
    rc, log = sh('timeout 1200 coqc -Q %s JV %s/Extract/Extract.v' % (COQ, COQ), cwd=od, timeout=1300)
    if rc != 0:
        raise BuildError('extraction', log)
    shutil.copyfile(os.path.join(VERIF, 'ocaml', 'driver.ml'), os.path.join(od, 'driver.ml'))
    rc, log = sh('ocamlfind ocamlopt -O3 -w -a model.mli model.ml driver.ml -o modelrun.new && mv modelrun.new modelrun', cwd=od)
    if rc != 0:
        raise BuildError('ocaml-build', log)
    return binp

class Built:
    pass

def ensure_built(props=None, need_model=True):
    """Everything, under a lock (checks may be started concurrently)."""
    os.makedirs(WORK, exist_ok=True)
    with open(os.path.join(WORK, 'build.lock'), 'w') as lk:
        fcntl.flock(lk, fcntl.LOCK_EX)
        b = Built()
        t0 = time.time()
        b.jvh, b.tagged, b.taglog = build_harness()
        # a broken translator or a table lemma that no longer holds is recorded, and the build falls back to the
        # committed tables so that the check can still search for a concrete failing input
        b.broken = []
        try:
            b.tables_changed = regenerate_tables(b)
        except BuildError as e:
            b.broken.append((e.stage, e.detail))
            b.tables_changed = False
            sh(['git', '-C', VERIF, 'checkout', '--', 'coq/Gen'])
        b.forbidden = forbidden_scan()
        try:
            b.coq_log = build_coq()
        except BuildError as e:
            rc, out = sh(['git', '-C', VERIF, 'status', '--porcelain', 'coq/Gen'])
            if not out.strip():
                raise
            b.broken.append((e.stage + ' (with the tables regenerated from the current tree)', e.detail))
            sh(['git', '-C', VERIF, 'checkout', '--', 'coq/Gen'])
            b.coq_log = build_coq()
        b.props = build_properties(props)
        b.model = build_model() if need_model else None
        b.wall = time.time() - t0
        return b

def regenerate_tables(b):
    """Gen/*.v from the running implementation (hook build); written only when changed."""
    if not b.tagged:
        return False
    rc, out = sh([b.jvh, '-tables', os.path.join(COQ, 'Gen')])
    if rc != 0:
        raise BuildError('tables', out)
    return 'changed' in out

if __name__ == '__main__':
    try:
        b = ensure_built()
    except BuildError as e:
        print('BUILD FAILED:', e)
        sys.exit(1)
    bad = b.forbidden
    if bad:
        print('FORBIDDEN VERNACULAR:\n' + '\n'.join(bad)); sys.exit(1)
    print('built in %.1fs; properties: %s' % (b.wall, {k: (v['ok'], v['obligations'], v['discharged']) for k, v in b.props.items()}))
