"""Python reader of the value wire format (for order-insensitive projections)."""
def parse(tokens, i=0):
    t = tokens[i]
    c = t[0]
    if c in 'NTFL' and len(t) == 1:
        return (t,), i + 1
    if c in 'DSX':
        return (t,), i + 1
    if c == 'A':
        n = int(t[1:]); items = []; i += 1
        for _ in range(n):
            v, i = parse(tokens, i); items.append(v)
        return ('A', tuple(items)), i
    if c == 'O':
        n = int(t[1:]); items = []; i += 1
        for _ in range(n):
            k = tokens[i]; v, i = parse(tokens, i + 1); items.append((k, v))
        return ('O', tuple(items)), i
    raise ValueError('bad wire token ' + t)

def value(w):
    """'V <wire>' -> tree, else None"""
    if not w or not w.startswith('V '):
        return None
    toks = w[2:].split()
    try:
        v, i = parse(toks, 0)
        return v
    except Exception:
        return None

def items(v):
    return list(v[1]) if v and v[0] == 'A' else [v]

def multiset(w):
    """outcome with a top-level array compared as a multiset of its members"""
    v = value(w)
    if v is None:
        return w
    if v[0] == 'A':
        return ('A~', tuple(sorted(map(repr, v[1]))))
    return v

def deep_multiset(v):
    if v is None: return None
    if v[0] == 'A':
        return ('A~', tuple(sorted(repr(deep_multiset(x)) for x in v[1])))
    if v[0] == 'O':
        return ('O', tuple((k, deep_multiset(x)) for k, x in v[1]))
    return v
