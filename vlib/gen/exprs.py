"""Type-directed JSONata program generator (with a dial for type chaos). Produces expression
text; all randomness from the caller's rng."""
from .common import lit, NAMES

STR_LITS = ['""', '"a"', '"b"', '"ab"', '"hello world"', '"10"', '"é€"', '"a,b,c"', "'x'"]
NUM_LITS = ['0', '1', '2', '3', '10', '-1', '1.5', '0.5', '100', '2.5e2', '-0']

# builtins by result type with argument types. Types: n s b a o f x(any) ;  '?' suffix optional
BUILTINS = [
    ('string', 's', ['x']), ('length', 'n', ['s']), ('substring', 's', ['s', 'n', 'n?']),
    ('substringBefore', 's', ['s', 's']), ('substringAfter', 's', ['s', 's']),
    ('uppercase', 's', ['s']), ('lowercase', 's', ['s']), ('trim', 's', ['s']),
    ('pad', 's', ['s', 'n', 's?']), ('contains', 'b', ['s', 's']), ('split', 'a', ['s', 's', 'n?']),
    ('join', 's', ['as', 's?']), ('replace', 's', ['s', 's', 's', 'n?']),
    ('base64encode', 's', ['s']), ('base64decode', 's', ['s']),
    ('encodeUrlComponent', 's', ['s']), ('decodeUrlComponent', 's', ['s']),
    ('number', 'n', ['x']), ('abs', 'n', ['n']), ('floor', 'n', ['n']), ('ceil', 'n', ['n']),
    ('round', 'n', ['n', 'n?']), ('power', 'n', ['n', 'n']), ('sqrt', 'n', ['n']),
    ('formatNumber', 's', ['n', 'pic']), ('formatBase', 's', ['n', 'n?']),
    ('sum', 'n', ['an']), ('max', 'n', ['an']), ('min', 'n', ['an']), ('average', 'n', ['an']),
    ('boolean', 'b', ['x']), ('not', 'b', ['x']), ('exists', 'b', ['x']),
    ('count', 'n', ['a']), ('append', 'a', ['a', 'a']), ('reverse', 'a', ['a']), ('sort', 'a', ['an']),
    ('distinct', 'a', ['a']), ('zip', 'a', ['a', 'a']),
    ('map', 'a', ['a', 'f1']), ('filter', 'a', ['a', 'f1']), ('reduce', 'x', ['an', 'f2', 'n?']),
    ('single', 'x', ['a', 'f1']),
    ('keys', 'a', ['o']), ('lookup', 'x', ['o', 's']), ('spread', 'a', ['o']), ('merge', 'o', ['ao']),
    ('each', 'a', ['o', 'f2']), ('sift', 'o', ['o', 'f1']), ('type', 's', ['x']),
    ('match', 'a', ['s', 're', 'n?']), ('contains', 'b', ['s', 're']), ('split', 'a', ['s', 're', 'n?']), ('replace', 's', ['s', 're', 's', 'n?']), ('replace', 's', ['s', 're', 'f1']),
    ('decodeUrl', 's', ['s']), ('fromMillis', 's', ['n', 'dpic?']), ('toMillis', 'n', ['s']), ('sort', 'a', ['a', 'fcmp']), ('error', 'x', ['s']),
    ('reduce', 'x', ['a', 'f2']), ('filter', 'a', ['ao', 'f1']), ('map', 'a', ['ao', 'f1']), ('lookup', 'x', ['ao', 's']), ('keys', 'a', ['ao']), ('zip', 'a', ['a', 'a', 'a']),
]
REGEXES = ['/a/', '/b+/', '/(a)(b)?/', '/[a-c]/i', '/-/', '/,/', '/o w/', '/^/', '/$/', '/x*/', '/(l+)(o)/', '/\\d+/', '/é/']
DPICS = ['"[Y]-[M01]-[D01]"', '"[H01]:[m01]"', '"[FNn], [D1o] [MNn]"']
PICTURES = ['"0"', '"#,##0.00"', '"000"', '"0.0"', '"#0%"', '"00.000e0"']

class Gen:
    def __init__(self, rng, chaos=0.05, names=NAMES, use_ctx=True, allow=None, deny=()):
        self.rng = rng
        self.chaos = chaos
        self.names = names
        self.vars = []           # variables in scope: (name, type)
        self.deny = set(deny)
        self.allow = allow

    def pick(self, xs):
        return self.rng.choice(xs)

    def builtins(self, t):
        out = [b for b in BUILTINS if (b[1] == t or t == 'x') and b[0] not in self.deny]
        if self.allow is not None:
            out = [b for b in out if b[0] in self.allow]
        return out

    def expr(self, t, d):
        """expression of (intended) type t at depth budget d"""
        r = self.rng
        if r.random() < self.chaos:
            t = r.choice('nsbaofx')
        if d <= 0:
            return self.atom(t)
        k = r.random()
        if t == 'n':
            if k < 0.25: return self.atom('n')
            if k < 0.5: return '(%s %s %s)' % (self.expr('n', d - 1), r.choice(['+', '-', '*', '/', '%']), self.expr('n', d - 1))
            if k < 0.55: return '-%s' % self.paren(self.expr('n', d - 1))
            if k < 0.8: return self.call('n', d)
            if k < 0.9: return self.cond('n', d)
            return self.path(d)
        if t == 's':
            if k < 0.3: return self.atom('s')
            if k < 0.5: return '(%s & %s)' % (self.expr(r.choice('snx'), d - 1), self.expr('s', d - 1))
            if k < 0.85: return self.call('s', d)
            if k < 0.93: return self.cond('s', d)
            return self.path(d)
        if t == 'b':
            if k < 0.15: return self.atom('b')
            if k < 0.5:
                tt = r.choice('ns')
                return '(%s %s %s)' % (self.expr(tt, d - 1), r.choice(['=', '!=', '<', '<=', '>', '>=']), self.expr(tt, d - 1))
            if k < 0.6: return '(%s in %s)' % (self.expr('x', d - 1), self.expr('a', d - 1))
            if k < 0.8: return '(%s %s %s)' % (self.expr('b', d - 1), r.choice(['and', 'or']), self.expr('b', d - 1))
            return self.call('b', d)
        if t == 'a':
            if k < 0.3: return '[%s]' % ', '.join(self.expr(r.choice('nsx'), d - 1) for _ in range(r.randint(0, 3)))
            if k < 0.4: return '[%s..%s]' % (r.choice(['0', '1', '2']), r.choice(['3', '4', '1']))
            if k < 0.7: return self.call('a', d)
            if k < 0.85: return self.path(d)
            if k < 0.92: return '%s[%s]' % (self.paren(self.expr('a', d - 1)), self.expr(r.choice('nb'), d - 1))
            if k < 0.96: return '%s^(%s$)' % (self.paren(self.expr('an', d - 1)), r.choice(['', '<', '>']))
            return '%s^(%s)' % (self.paren(self.expr('ao', d - 1)), ', '.join(r.choice(['', '<', '>']) + r.choice(['a', 'b', 'k', 'a.b', '$string(a)', 'z']) for _ in range(r.randint(1, 2))))
        if t == 'an':
            if k < 0.6: return '[%s]' % ', '.join(self.expr('n', d - 1) for _ in range(r.randint(0, 4)))
            if k < 0.8: return '[%s..%s]' % (r.choice(['0', '1', '2']), r.choice(['3', '4', '1']))
            return self.path(d)
        if t == 'as':
            return '[%s]' % ', '.join(self.expr('s', d - 1) for _ in range(r.randint(0, 3)))
        if t == 'ao':
            if k < 0.4: return self.path(d)
            if k < 0.5: return r.choice(['[{"a":1,"k":"x"},{"a":2,"k":"y"},{"k":"x"}]', '[{"a":"s"},{"a":1}]', '[{"a":2,"b":1},{"a":1,"b":2},{"a":2,"b":0}]'])
            return '[%s]' % ', '.join(self.expr('o', d - 1) for _ in range(r.randint(0, 3)))
        if t == 'o':
            if k < 0.6:
                ks = r.sample(['"k"', '"a"', '"b"', '"z"'], r.randint(0, 3))
                return '{%s}' % ', '.join('%s: %s' % (kk, self.expr(r.choice('nsbax'), d - 1)) for kk in ks)
            if k < 0.72: return self.call('o', d)
            if k < 0.78: return '%s{%s: %s}' % (self.paren(self.expr('ao', d - 1)), r.choice(['a', 'k', '$string(a)', '"g"', 'b']), r.choice(['$', 'a', '$count($)', 'b', '[a]']))
            if k < 0.82: return '(%s ~> |%s|%s%s|)' % (self.expr('o', d - 1), r.choice(['$', 'a', 'k', '*', 'b']), self.expr('o', 0) if r.random() < 0.5 else '{"z": %s}' % self.expr('x', d - 1), r.choice(['', '', ', "a"', ', ["k", "z"]']))
            if k < 0.86: return '$'
            return self.path(d)
        if t in ('f', 'f1', 'f2'):
            return self.func(t, d)
        if t == 'pic':
            return r.choice(PICTURES)
        if t == 're':
            return r.choice(REGEXES)
        if t == 'dpic':
            return r.choice(DPICS)
        if t == 'fcmp':
            return r.choice(['function($l,$r){$l > $r}', 'function($l,$r){$l < $r}', 'function($l,$r){$string($l) > $string($r)}', 'function($l,$r){$l.a > $r.a}'])
        # any
        return self.expr(r.choice('nsbao'), d)

    def paren(self, e):
        return '(%s)' % e

    def atom(self, t):
        r = self.rng
        vs = [v for v, vt in self.vars if vt == t or t == 'x']
        if vs and r.random() < 0.4:
            return '$' + r.choice(vs)
        if t == 'n': return r.choice(NUM_LITS + [r.choice(self.names)])
        if t == 's': return r.choice(STR_LITS)
        if t == 'b': return r.choice(['true', 'false'])
        if t in ('a', 'an', 'as', 'ao'): return r.choice(['[]', '[1,2,3]', '["a","b"]', r.choice(self.names)])
        if t == 'o': return r.choice(['{}', '{"a":1}', '$'])
        if t in ('f', 'f1'): return r.choice(['$string', '$boolean', 'function($x){$x}', 'function($v,$i){$i}', '$uppercase'])
        if t == 'f2': return 'function($p,$q){$p}'
        if t == 'pic': return r.choice(PICTURES)
        return r.choice(NUM_LITS + STR_LITS + ['true', 'null', '[]', '{}', 'nothing'] + self.names)

    def path(self, d):
        r = self.rng
        n = r.randint(1, 3)
        steps = [r.choice(self.names + ['*', '$']) if i == 0 else r.choice(self.names + ['*']) for i in range(n)]
        if r.random() < 0.12:
            steps[0] = r.choice(['$$', '**', '[%s, %s]' % (r.choice(self.names), r.choice(self.names)), '(%s)' % r.choice(self.names), '{"a": %s}' % r.choice(self.names)])
        if n > 1 and r.random() < 0.1:
            steps[-1] = r.choice(['**', '$string()', '$keys()', '(%s)' % r.choice(self.names), '{"v": $}', '[$]', '$count()'])
        p = '.'.join(steps)
        if r.random() < 0.2:
            p += '[%s]' % self.expr(r.choice('nb'), min(d - 1, 1))
        if r.random() < 0.1:
            p += '[]'
        return p

    def cond(self, t, d):
        if self.rng.random() < 0.3:
            return '(%s ? %s)' % (self.expr('b', d - 1), self.expr(t, d - 1))
        return '(%s ? %s : %s)' % (self.expr('b', d - 1), self.expr(t, d - 1), self.expr(t, d - 1))

    def call(self, t, d):
        r = self.rng
        cands = self.builtins(t)
        if not cands:
            return self.atom(t)
        name, rt, ats = r.choice(cands)
        args = []
        for at in ats:
            if at.endswith('?'):
                if r.random() < 0.5:
                    break
                at = at[:-1]
            args.append(self.expr(at, d - 1))
        if r.random() < self.chaos and args:
            if r.random() < 0.5: args.pop()
            else: args.append(self.expr('x', 0))
        k = r.random()
        if k < 0.1 and args:
            return '(%s ~> $%s(%s))' % (args[0], name, ', '.join(args[1:]))
        return '$%s(%s)' % (name, ', '.join(args))

    def func(self, t, d):
        r = self.rng
        n = {'f1': r.choice([1, 1, 2, 3]), 'f2': 2}.get(t, r.randint(0, 3))
        k = r.random()
        if k < 0.2 and t != 'f2':
            return r.choice(['$string', '$boolean', '$uppercase', '$count', '$exists'])
        if k < 0.28 and t != 'f2':
            return r.choice(['$substring(?, 1)', '$power(?, 2)', '$append(?, [0])', '$substringBefore(?, "-")', '($string ~> $length)', '($uppercase ~> $substring(?, 0, 2))', '$pad(?, 4, "#")', '$contains(?, "a")'])
        if k < 0.33 and t != 'f2':
            return r.choice(['function($x)<n:n>{$x * 2}', 'function($x)<s:s>{$x & "!"}', 'function($x)<x-:x>{$x}', 'function($x, $y)<nn?:n>{$x}', 'function($x)<a<n>:n>{$sum($x)}', 'λ($x){$x}'])
        if k < 0.36:
            return '($rec := function($n){$n <= 0 ? 0 : 1 + $rec($n - 1)}; $rec)'
        ps = ['p%d' % i for i in range(n)]
        saved = list(self.vars)
        self.vars += [(p, 'x') for p in ps]
        body = self.expr(r.choice('nsbx'), max(d - 1, 0))
        self.vars = saved
        return 'function(%s){%s}' % (', '.join('$' + p for p in ps), body)

    def block(self, t, d):
        """( $v := e ; ... ; e )"""
        r = self.rng
        n = r.randint(1, 3)
        saved = list(self.vars)
        parts = []
        for i in range(n):
            vt = r.choice('nsaof')
            nm = 'v%d' % len(self.vars)
            parts.append('$%s := %s' % (nm, self.expr(vt, d - 1)))
            self.vars.append((nm, vt))
        parts.append(self.expr(t, d - 1))
        self.vars = saved
        return '(%s)' % '; '.join(parts)

    def program(self, d=3):
        r = self.rng
        k = r.random()
        t = r.choice('nsbaox')
        if k < 0.25:
            return self.block(t, d)
        return self.expr(t, d)
