"""Shared generators: JSON documents and JSONata expression text. Every random choice derives
from the one random.Random the caller passes (seeded from VERIF_SEED)."""
import json, math

NAMES = ['a', 'b', 'c', 'd']

def lit(v):
    """JSONata literal text of a JSON value (JSON text is JSONata)."""
    if isinstance(v, float) and v == 0 and math.copysign(1, v) < 0:
        return '-0'
    return json.dumps(v, ensure_ascii=False)

def gen_scalar(rng, strings=('', 'a', 'b', 'ab', '10', 'é', 'x y'), nums=(0, 1, 2, 3, -1, 1.5, 10, 100)):
    k = rng.random()
    if k < 0.45:
        return rng.choice(nums)
    if k < 0.8:
        return rng.choice(strings)
    return rng.choice([True, False])

def gen_doc(rng, depth=3, width=3, arrays_in_arrays=True, top=None):
    """null-free JSON value"""
    k = rng.random()
    if depth <= 0 or k < 0.25:
        return gen_scalar(rng)
    if k < 0.6:
        n = rng.randint(0, width)
        keys = rng.sample(NAMES, min(n, len(NAMES)))
        return {kk: gen_doc(rng, depth - 1, width, arrays_in_arrays) for kk in keys}
    n = rng.randint(0, width)
    out = []
    for _ in range(n):
        v = gen_doc(rng, depth - 1, width, arrays_in_arrays)
        if isinstance(v, list) and not arrays_in_arrays:
            v = gen_scalar(rng)
        out.append(v)
    return out

def gen_obj(rng, depth=3, width=3):
    n = rng.randint(1, width)
    keys = rng.sample(NAMES, min(n, len(NAMES)))
    return {kk: gen_doc(rng, depth - 1, width) for kk in keys}

def gen_records(rng, n, fields=('a', 'b', 'c'), missing=0.2, domain=None):
    """array of flat objects over small domains (ties, missing members)"""
    domain = domain or {'a': [1, 2, 3], 'b': ['x', 'y', 'z'], 'c': [10, 20]}
    out = []
    for i in range(n):
        o = {}
        for f in fields:
            if rng.random() >= missing:
                o[f] = rng.choice(domain[f])
        o['id'] = i
        out.append(o)
    return out


def struct_field_names():
    """identifiers that are field names of struct types in the implementation's own source: a path
    step with such a name on a function value reaches Go struct fields (functions are structs)."""
    import re, glob
    names = set()
    for f in glob.glob('/repo/*.go') + glob.glob('/repo/jtypes/*.go') + glob.glob('/repo/jparse/*.go'):
        if f.endswith('_test.go'):
            continue
        try:
            src = open(f, encoding='utf-8').read()
        except Exception:
            continue
        for m in re.finditer(r'type\s+\w+\s+struct\s*\{(.*?)\n\}', src, re.S):
            for line in m.group(1).split('\n'):
                line = line.split('//')[0].strip()
                mm = re.match(r'([A-Za-z_]\w*(?:\s*,\s*[A-Za-z_]\w*)*)\s+\S', line)
                if mm:
                    names.update(x.strip() for x in mm.group(1).split(','))
                elif re.fullmatch(r'\*?[A-Za-z_][\w.]*', line) and line:
                    names.add(line.lstrip('*').split('.')[-1])
    return sorted(names)
