"""Generic check engine: build, run cases through implementation and model, compare projected
observables, apply direct predicates, shrink, consult known findings, write evidence."""
import hashlib, json, os, re, subprocess, sys, time, collections, random

from . import build

VERIF = '/verif'
WORK = os.path.join(VERIF, '.work')

# which direct predicate belongs to which property
DIRECT_OWNER = {'immut': 'C07', 'repeat': 'C05', 'string_same': 'C05', 'tree_same': 'C05', 'history': 'C05',
                'json': 'C10', 'evalbytes': 'C10', 'jsonself': 'C11', 'errwf': 'C08', 'usable': 'C08', 'must': 'C08'}

def load_known():
    return json.load(open(os.path.join(VERIF, 'known_findings.json')))

def run_cases(b, cases, tag, timeout_ms=5000, use_model=True):
    """cases: list of dicts (id, kind, expr, input, ...). Returns {id: result dict}."""
    d = os.path.join(WORK, 'runs')
    os.makedirs(d, exist_ok=True)
    inp = os.path.join(d, tag + '.cases.jsonl')
    outp = os.path.join(d, tag + '.results.jsonl')
    with open(inp, 'w') as f:
        for c in cases:
            f.write(json.dumps(c, ensure_ascii=False) + '\n')
    cmd = [b.jvh, '-in', inp, '-out', outp, '-timeout_ms', str(timeout_ms)]
    if use_model and b.model:
        cmd += ['-model', b.model]
    p = subprocess.run(cmd, stdout=subprocess.PIPE, stderr=subprocess.PIPE, text=True)
    res = {}
    if os.path.exists(outp):
        for line in open(outp):
            line = line.strip()
            if line:
                r = json.loads(line)
                res[r['id']] = r
    crashed = p.returncode != 0
    return res, crashed, p.stderr[-2000:]

def vm_crosscheck(ck, results, limit):
    """Extraction cross-check: a sample of the very lines the extracted program answered is
    evaluated again with vm_compute inside coqc (same Gallina function, same text)."""
    import tempfile
    sample = [(r['line'], r.get('model')) for r in results.values() if r.get('line') and r.get('model') and len(r['line']) < 6000][:limit]
    if not sample:
        return
    d = os.path.join(WORK, 'vmcheck')
    os.makedirs(d, exist_ok=True)
    path = os.path.join(d, ck.pid + '_vm.v')
    with open(path, 'w') as f:
        f.write('From JV Require Import Model.Top.\nOpen Scope string_scope.\n')
        f.write('Definition lines : list string := [\n  ' + ';\n  '.join('"%s"' % l.replace('"', '""') for l, _ in sample) + '].\n')
        f.write('Definition outs := Eval vm_compute in map run_line_all lines.\n')
        f.write('Definition show := Eval vm_compute in String.concat (String (Ascii.ascii_of_nat 10) "") outs.\nPrint show.\n')
    p = subprocess.run('timeout 900 coqc -Q %s JV %s' % (build.COQ, path), shell=True, capture_output=True, text=True)
    if p.returncode != 0:
        ck.notes.append('vm_compute cross-check could not run: ' + p.stdout[-300:] + p.stderr[-300:])
        return
    import re as _re
    m = _re.search(r'show\s*=\s*"(.*)"\s*:\s*string', p.stdout, _re.S)
    if not m:
        ck.notes.append('vm_compute cross-check: cannot parse coqc output')
        return
    got = m.group(1).replace('""', '"').split('\n')
    got = [g.strip() for g in ' '.join(m.group(1).split()).split(' ') ] if False else got
    want = [l.split('|', 1)[0] + '|' + mo for l, mo in sample]
    # coqc wraps long strings: compare with whitespace removed
    strip = lambda x: ''.join(x.split())
    gj, wj = strip(''.join(got)), strip(''.join(want))
    ck.stats['vm_crosschecked'] += len(sample)
    if gj != wj:
        ck.report_violation({'kind': 'extraction-mismatch', 'broken': 'the extracted OCaml model and vm_compute disagree on a sampled case',
                             'vm_compute': got[:5], 'extracted': want[:5]}, no_input=True)

def project(w):
    """Projection of an outcome: error message texts and function names of lambdas are not
    observables; everything else is."""
    if w is None:
        return None
    if w.startswith('E lib'):
        return 'E lib'
    if w.startswith('P '):
        return 'P'
    # (the function name in argument errors IS an observable: C12/C20 say the error names the function)
    return w

def classify(case, r):
    """-> (status, detail). status in agree | disagree | inconclusive | impl-panic | impl-hang |
    compile-error | skipped"""
    impl = r.get('impl', '')
    model = r.get('model')
    if case.get('kind') in ('ext', 'reghistory'):
        if impl.startswith('P ') or impl == 'H':
            return ('impl-panic' if impl.startswith('P ') else 'impl-hang'), impl
        if not model:
            return 'skipped', 'no model outcome'
        if model.startswith('X ') or impl.startswith('X '):
            return 'inconclusive', (model if model.startswith('X ') else impl)[:80]
        if project(impl) == project(model):
            return 'agree', ''
        return 'disagree', 'impl=%s model=%s' % (impl[:300], model[:300])
    if case.get('kind') == 'parse':
        if impl.startswith('P '):
            return 'impl-panic', impl
        if impl == 'H':
            return 'impl-hang', impl
        if not model:
            return 'skipped', 'no model outcome'
        if model.startswith('X '):
            return 'inconclusive', model[:80]
        if impl == model:
            return 'agree', ''
        return 'disagree', 'impl=%s model=%s' % (impl[:300], model[:300])
    mp = r.get('model_parse') or ''
    if r.get('compile', 'ok') != 'ok':
        c = r['compile']
        if c.startswith('P ') or c == 'H':
            return 'impl-panic' if c.startswith('P ') else 'impl-hang', 'Compile: ' + c[:200]
        # the model's parser on the same text: it must reject it too, with the same error tuple
        if mp.startswith('A '):
            return 'disagree', 'Compile fails (%s) but the model parses the text: %s' % (c[:120], mp[:200])
        if mp.startswith('E ') and c.startswith('E ') and mp != c:
            return 'disagree', 'Compile error %s, model parse error %s' % (c[:150], mp[:150])
        return 'compile-error', c
    if mp.startswith('E '):
        return 'disagree', 'Compile accepts the text, the model parser rejects it: %s' % mp[:200]
    if impl.startswith('P '):
        return 'impl-panic', impl
    if impl == 'H':
        return 'impl-hang', impl
    if model is None or model == '':
        return 'skipped', 'no model outcome'
    if model.startswith('X ') or 'S756e6d6f64656c6c6564' in model:  # hex("unmodelled")
        return 'inconclusive', model[:80]
    if model.startswith('P ') and impl.startswith('P '):
        return 'agree', ''
    if project(impl) == project(model):
        return 'agree', ''
    return 'disagree', 'impl=%s model=%s' % (impl[:300], model[:300])

_UNORDERED = re.compile(r'\*\*|(?:^|[.(\[{,;:?|=<>&+\-/%!~^]|\b(?:in|and|or))\s*\*|\$keys|\$each|\$spread|\$sift|\$merge|\$lookup|\$shuffle|\$random|\$now|\$millis')
_SELF_UPDATE = re.compile(r'\|[^|]*\|[^|]*\$(?![A-Za-z_$])')

def _has_null(d):
    if isinstance(d, dict):
        return any(v is None or _has_null(v) for v in d.values())
    if isinstance(d, list):
        return any(v is None or _has_null(v) for v in d)
    return False

def outside_model(case, r):
    """disagreements that are expected because the case lies outside what the model covers or what is
    deterministic: JSON null inside the input document, member order of objects, which of several failing
    sub-expressions reports, the known cyclic transform result"""
    if case.get('input') is None or _has_null(case.get('input')) or any(x is None or _has_null(x) for x in (case.get('inputs') or [])):
        return True
    e = case.get('expr') or ''
    if _UNORDERED.search(e):
        return True
    i, m = r.get('impl', ''), r.get('model') or ''
    if {i, m} == {'V T', 'V F'} and ('function' in e or 'λ' in e):
        return True   # equality of function values is not defined by any property (the port compares pointers/structure)
    return i.startswith('E') and m.startswith('E')

def direct_failures(r):
    return {k: v for k, v in (r.get('direct') or {}).items() if v != 'ok'}

def sha(s):
    return hashlib.sha1(s.encode()).hexdigest()[:12]

def known_match(known, pid, case, what):
    for k in known.get('known', []):
        if k.get('property') != pid:
            continue
        if k.get('kind') and k['kind'] not in what:
            continue
        if k.get('expr_regex') and not re.search(k['expr_regex'], case.get('expr', '')):
            continue
        if k.get('what_regex') and not re.search(k['what_regex'], what):
            continue
        if k.get('case_tag') and k['case_tag'] not in case.get('tags', []):
            continue
        return k
    return None

def shrink(b, case, still_fails, budget=60):
    """Greedy shrinking of the input document and of the expression text (token deletion)."""
    best = dict(case)
    tries = 0
    def attempt(c):
        nonlocal tries
        tries += 1
        c = dict(c); c['id'] = 'shrink%d' % tries
        res, crashed, _ = run_cases(b, [c], 'shrink')
        r = res.get(c['id'])
        return r is not None and still_fails(c, r)
    # shrink the input document
    changed = True
    while changed and tries < budget:
        changed = False
        doc = best.get('input')
        for cand in shrink_doc(doc):
            c = dict(best); c['input'] = cand
            if tries >= budget: break
            if attempt(c):
                best = c; changed = True; break
    return best

def shrink_doc(doc):
    if isinstance(doc, dict):
        for k in list(doc):
            d = dict(doc); del d[k]; yield d
        for k, v in doc.items():
            for s in shrink_doc(v):
                d = dict(doc); d[k] = s; yield d
    elif isinstance(doc, list):
        for i in range(len(doc)):
            yield doc[:i] + doc[i+1:]
        for i, v in enumerate(doc):
            for s in shrink_doc(v):
                yield doc[:i] + [s] + doc[i+1:]
    elif isinstance(doc, str) and doc:
        yield ''
    elif isinstance(doc, (int, float)) and not isinstance(doc, bool) and doc not in (0, 1):
        yield 0; yield 1

class Check:
    """One run of one property's check."""
    def __init__(self, pid, tier, seed, level_text, rule):
        self.pid, self.tier, self.seed = pid, tier, seed
        self.rule = rule
        self.t0 = time.time()
        self.violations = []      # (replay path, suffix)
        self.known_hits = []
        self.stats = collections.Counter()
        self.dist = collections.defaultdict(collections.Counter)
        self.samples = []
        self.distinct = set()
        self.evaluations = 0
        self.inconclusive = collections.Counter()
        self.notes = []
        self.known = load_known()
        self.exhaustive = False
        self.deferred = []        # broken build stages, reported at the end (with or without a failing input)

    def build(self, props=None):
        try:
            self.b = build.ensure_built(props or [self.pid])
        except build.BuildError as e:
            self.b = None
            self.report_violation({'kind': 'build-failure', 'stage': e.stage, 'detail': e.detail[-3000:],
                                   'broken': 'the development does not build against the current /repo tree (%s)' % e.stage},
                                  no_input=True)
            return False
        for stage, detail in getattr(self.b, 'broken', []):
            self.deferred.append({'kind': 'build-failure', 'stage': stage, 'detail': detail[-3000:],
                                  'broken': 'the development does not build against the current /repo tree (%s); the check went on with the committed tables to look for a failing input' % stage})
        if self.b.forbidden:
            self.report_violation({'kind': 'forbidden-vernacular', 'detail': self.b.forbidden}, no_input=True)
            return False
        return True

    def proof_status(self, props=None):
        """PROOF-BROKEN handling: every Properties file this check relies on must have compiled."""
        ok = True
        self.obligations = self.discharged = 0
        self.axioms = set()
        for pid in (props or [self.pid]):
            st = self.b.props.get(pid)
            if st is None:
                self.notes.append('no Properties/%s.v yet' % pid)
                continue
            self.obligations += st['obligations']
            self.discharged += st['discharged'] if st['ok'] else 0
            self.axioms.update(st['axioms'])
            if not st['ok']:
                ok = False
                self.proof_broken = (pid, st['log'][-3000:])
        return ok

    def replay_path(self, payload):
        d = os.path.join(VERIF, 'replay')
        os.makedirs(d, exist_ok=True)
        p = os.path.join(d, '%s-%s.json' % (self.pid, sha(json.dumps(payload, sort_keys=True, default=str))))
        json.dump(payload, open(p, 'w'), indent=1, ensure_ascii=False, default=str)
        return p

    def report_violation(self, payload, no_input=False):
        payload = dict(payload, property=self.pid, seed=self.seed, tier=self.tier)
        p = self.replay_path(payload)
        self.violations.append((p, ' no-failing-input-found' if no_input else ''))

    def failing_case(self, case, r, what):
        """A concrete input on which the implementation fails the property."""
        k = known_match(self.known, self.pid, case, what)
        if k is not None:
            msg = 'KNOWN-FINDING: property=%s %s' % (self.pid, k['what'])
            if msg not in self.known_hits:
                self.known_hits.append(msg)
            return
        key = (what.split(':')[0], case.get('expr'))
        if len(self.violations) >= 5:
            self.stats['violations_not_reported_individually'] += 1
            return
        self.report_violation({'kind': 'failing-input', 'what': what, 'case': case, 'result': r})

    def count(self, case, r, nontrivial=True):
        self.evaluations += 1
        if nontrivial:
            self.distinct.add(sha(json.dumps([case.get('kind'), case.get('expr'), case.get('input'), case.get('inputs')], sort_keys=True)))
        if len(self.samples) < 6 and (self.evaluations % 97 == 1 or len(self.samples) < 2):
            self.samples.append({'expr': case.get('expr'), 'input': case.get('input'),
                                 'impl': (r or {}).get('impl', '')[:160], 'model': ((r or {}).get('model') or '')[:160]})

    def std_analyze(self, cases, results, crashed, owner_direct=(), value_compare=True, panics_are=None, disagree_is_input=True, quiet_tie=False):
        """Common analysis: correspondence on projected outcomes + the direct predicates this
        property owns. panics_are: property blamed for implementation panics/hangs (default: own)."""
        byid = {c['id']: c for c in cases}
        if crashed:
            done = set(results)
            first_missing = next((c for c in cases if c['id'] not in done), None)
            self.report_violation({'kind': 'implementation-crashed', 'what': 'the harness process died (fatal error in the implementation?)',
                                   'case': first_missing})
        for cid, r in results.items():
            case = byid.get(cid)
            if case is None:
                continue
            st, detail = classify(case, r)
            if st == 'impl-hang' and self.stats['hang_confirmations'] < 12:
                # a watchdog expiry under load is not a hang: confirm alone with a six-fold time limit
                self.stats['hang_confirmations'] += 1
                c2 = dict(case); c2['id'] = 'confirm1'
                res2, _, _ = run_cases(self.b, [c2], self.pid + '.confirm', timeout_ms=30000)
                r2 = res2.get('confirm1')
                if r2 is not None:
                    st2, detail2 = classify(c2, r2)
                    if st2 != 'impl-hang':
                        self.stats['slow_under_load_not_hung'] += 1
                        r, st, detail = r2, st2, detail2
            self.stats[st] += 1
            self.dist['outcome'][(r.get('impl') or '-')[:1] if r.get('compile', 'ok') in ('ok', '') else 'compile-error'] += 1
            self.count(case, r, nontrivial=(st not in ('compile-error', 'skipped')))
            if st in ('impl-panic', 'impl-hang'):
                if (panics_are or self.pid) == self.pid:
                    self.failing_case(case, r, st + ': ' + detail[:300])
                else:
                    self.stats['panic_blamed_elsewhere'] += 1
            elif st == 'disagree' and value_compare and 'novalue' not in case.get('tags', []):
                if disagree_is_input:
                    self.failing_case(case, r, 'disagree: ' + detail)
                else:
                    # the property itself (e.g. totality) holds on this input; what broke is the tie between the
                    # model the theorems are about and the code: reported once, without a failing input
                    self.stats['correspondence_breaks'] += 1
                    if not getattr(self, '_corr_reported', False):
                        self._corr_reported = True
                        self.report_violation({'kind': 'correspondence-broken', 'broken': 'model and implementation disagree (first disagreeing case below); '
                                               'the theorems in Properties/%s.v are about the model and no longer transfer to the code' % self.pid,
                                               'what': detail, 'case': case, 'result': r}, no_input=True)
            elif st == 'disagree' and not value_compare and quiet_tie and not outside_model(case, r):
                # this check does not own values, but a disagreement inside the modelled, deterministic domain
                # means the model no longer describes the code
                self.stats['correspondence_breaks'] += 1
                if not getattr(self, '_corr_reported', False):
                    self._corr_reported = True
                    self.report_violation({'kind': 'correspondence-broken', 'broken': 'model and implementation disagree on a case inside the modelled domain (first one below); '
                                           'the theorems in Properties/%s.v are about the model and no longer transfer to the code' % self.pid,
                                           'what': detail, 'case': case, 'result': r}, no_input=True)
            elif st == 'inconclusive':
                self.inconclusive[detail[:60]] += 1
            # a law evaluated inside JSONata must be true (spec-level predicate on the implementation)
            if 'law' in case.get('tags', []) and r.get('compile', 'ok') == 'ok':
                self.stats['laws_checked'] += 1
                if r.get('impl', '').startswith('V ') and r['impl'] != 'V T':
                    self.failing_case(case, r, 'direct:law: the law evaluates to %s instead of true' % r['impl'][:80])
                elif r.get('impl', '')[:1] in ('U', 'E') and 'law-total' in case.get('tags', []):
                    self.failing_case(case, r, 'direct:law: the law does not evaluate (%s)' % r['impl'][:80])
            for k, v in direct_failures(r).items():
                if k in owner_direct:
                    self.failing_case(case, r, 'direct:%s: %s' % (k, v))
                else:
                    self.stats['direct_fail_other_property'] += 1

    def coqchk(self):
        """thorough tier: re-check the compiled Properties file and everything it depends on with the
        independent checker, and record the axioms it lists."""
        if self.tier != 'thorough' or not getattr(self, 'b', None) or not os.path.exists(os.path.join(build.COQ, 'Properties', self.pid + '.vo')):
            return None
        t = time.time()
        p = subprocess.run('cd %s && timeout 3000 coqchk -silent -o -Q . JV JV.Properties.%s' % (build.COQ, self.pid), shell=True, capture_output=True, text=True)
        out = p.stdout + p.stderr
        m = re.search(r'\* Axioms:(.*?)\n\s*\n\* Constants/Inductives relying on type-in-type:(.*?)\n\s*\n\* Constants/Inductives relying on unsafe \(co\)fixpoints:(.*?)\n\s*\n\* Inductives whose positivity is assumed:(.*?)\n', out + '\n', re.S)
        res = {'exit': p.returncode, 'seconds': round(time.time() - t, 1)}
        if m:
            res.update(axioms=' '.join(m.group(1).split()), type_in_type=' '.join(m.group(2).split()), unsafe_fixpoints=' '.join(m.group(3).split()), assumed_positivity=' '.join(m.group(4).split()))
        if p.returncode != 0 or not m or any(res.get(k) != '<none>' for k in ('type_in_type', 'unsafe_fixpoints', 'assumed_positivity')):
            self.report_violation({'kind': 'coqchk-failed', 'broken': 'coqchk does not accept Properties/%s.vo' % self.pid, 'log': out[-3000:]}, no_input=True)
        return res

    def finish(self, category='proof', extra_cov=None, assumptions=None):
        for payload in self.deferred:
            found = [p for p, sfx in self.violations if not sfx]
            if found:
                payload = dict(payload, failing_inputs=found)
            self.report_violation(payload, no_input=not found)
        self.deferred = []
        chk = self.coqchk()
        if chk is not None:
            extra_cov = dict(extra_cov or {}, coqchk=chk)
        ev = {
            'property_id': self.pid, 'tier': self.tier, 'seed': self.seed, 'level': category,
            'coverage': {
                'evaluations': self.evaluations,
                'distinct_nontrivial': len(self.distinct),
                'rule': self.rule,
                'samples': self.samples or [{'note': 'no cases run'}],
                'obligations': getattr(self, 'obligations', 0),
                'discharged': getattr(self, 'discharged', 0),
                'checker_cmd': 'coq_makefile -f _CoqProject -o Makefile && make -j16 (full .vo build) ; coqc -Q . JV Properties/%s.v (Print Assumptions captured)' % self.pid,
                'trusted_base': TRUSTED_BASE + ['axioms reported by Print Assumptions in this run: ' + (', '.join(sorted(getattr(self, 'axioms', []))) or 'none (closed under the global context)')],
                'outcome_classes': dict(self.stats),
                'input_distribution': {k: dict(v) for k, v in self.dist.items()},
                'inconclusive': dict(self.inconclusive),
                'known_findings_hit': self.known_hits,
                'notes': self.notes,
                'exhaustive': self.exhaustive,
                'tables_regenerated': bool(getattr(self, 'b', None) and self.b and self.b.tagged),
            },
            'assumptions': assumptions or [],
            'wall_s': round(time.time() - self.t0, 2),
            'violations': len(self.violations),
        }
        if extra_cov:
            ev['coverage'].update(extra_cov)
        os.makedirs(os.path.join(VERIF, 'evidence'), exist_ok=True)
        json.dump(ev, open(os.path.join(VERIF, 'evidence', self.pid + '.json'), 'w'), indent=1, ensure_ascii=False, default=str)
        for m in self.known_hits:
            print(m)
        for p, suffix in self.violations:
            print('VIOLATION property=%s replay=%s%s' % (self.pid, p, suffix))
        print('%s %s: %d cases, %d distinct non-trivial, outcomes %s, %d violation(s), %.1fs' % (
            self.pid, self.tier, self.evaluations, len(self.distinct), dict(self.stats), len(self.violations), time.time() - self.t0))
        return 1 if self.violations else 0

TRUSTED_BASE = [
    'Coq 8.16.1 kernel (coqc) incl. the vm_compute reduction machine; native_compute not used',
    'no Axiom/Parameter/Conjecture/Admitted/admit in the development (scanned on every run); kernel checks not switched off',
    'extraction: ExtrOcamlBasic + ExtrOcamlString only (bool, option, unit, list, prod, sumbool, sumor -> OCaml types; ascii -> char, string -> char list); nat/positive/N/Z stay extracted inductives; OCaml 4.13.1 compiler',
    'hand-written glue, not verified: verif hooks in /repo (add-only, build tag verif), table translator (jvh -tables), Go harness jvh (AST/value wire encoders, oracle answers from regexp/math/strings, direct predicates), OCaml driver (line I/O), bin/check (projection, shrinking, known-finding matching)',
    'modelled, not verified: reflect-level behaviour of the evaluator (the model works on JSON-level values); Go standard library functions re-implemented in Gallina (strconv, encoding/json rendering, utf8, math.Mod/Floor/Ceil/Trunc, base64, url escaping, time calendar) validated against the real functions by the correspondence, not proved equal to them; regexp (RE2), math.Pow, Unicode case tables are oracles answered by the standard library itself',
    'the correspondence between model and /repo is sampling (seeded, replayable)',
]


def simple_run(pid, tier, seed, replay, rule, cases_fn, owner_direct=(), unordered_tag='unordered', chunk=20000,
               proof_props=None, panics_are=None, value_compare=True, timeout_ms=5000, post=None, extra_cov=None, disagree_is_input=True, quiet_tie=False):
    """The common shape of a check: build, proofs, cases through both sides, analysis, evidence."""
    from . import wirepy
    ck = Check(pid, tier, seed, '', rule)
    if not ck.build(proof_props):
        return ck.finish()
    proofs_ok = ck.proof_status(proof_props)
    cs = replay if replay else cases_fn(tier, seed)
    for i in range(0, len(cs), chunk):
        part = cs[i:i + chunk]
        res, crashed, err = run_cases(ck.b, part, pid, timeout_ms=timeout_ms)
        for c in part:
            r = res.get(c['id'])
            if r and unordered_tag in c.get('tags', []) and r.get('model') and r.get('impl') != r.get('model'):
                a, b = wirepy.value(r['impl']), wirepy.value(r['model'])
                if a is not None and b is not None and wirepy.deep_multiset(a) == wirepy.deep_multiset(b):
                    r['model'] = r['impl']
                    ck.stats['agree_as_multiset'] += 1
        ck.std_analyze(part, res, crashed, owner_direct=owner_direct, panics_are=panics_are, value_compare=value_compare, disagree_is_input=disagree_is_input, quiet_tie=quiet_tie)
        if i == 0 and not replay:
            vm_crosscheck(ck, res, 12 if tier == 'quick' else 150)
        if post:
            post(ck, part, res)
        for c in part:
            for t in c.get('tags', [])[:2]:
                ck.dist['tags'][t] += 1
    if not proofs_ok:
        pid2, log = ck.proof_broken
        ck.report_violation({'kind': 'proof-broken', 'theorems': 'Properties/%s.v' % pid2, 'log': log}, no_input=not ck.violations)
    return ck.finish(extra_cov=extra_cov)
