#!/bin/bash
# tools/seed_vet.sh ID PROPERTY "needs": vet a seeded change produced in /tmp/mut/ID (+ /tmp/mut/ID_demo):
# in a FRESH scratch worktree: the suite passes with the patch; the demo fails with it and passes without.
# On success stores /verif/seeded/ID/{patch.diff,demo/,meta.json}.
set -u
id=$1; prop=$2; needs=$3
export GOFLAGS=-mod=mod GOPROXY=off GOSUMDB=off GOTOOLCHAIN=local
src=/tmp/mut/$id; demo=/tmp/mut/${id}_demo
W=/tmp/mutvet/$id; rm -rf $W /tmp/mutvet/${id}_demo; mkdir -p /tmp/mutvet
git -C $src diff > /tmp/mutvet/$id.patch
[ -s /tmp/mutvet/$id.patch ] || { echo "EMPTY PATCH"; exit 1; }
git -C /repo worktree add --detach $W HEAD -q || exit 1
cp -r $demo /tmp/mutvet/${id}_demo
sed -i "s#=> /tmp/mut/$id#=> $W#" /tmp/mutvet/${id}_demo/go.mod
run_demo() { (cd /tmp/mutvet/${id}_demo && if ls *_test.go >/dev/null 2>&1; then go test ${RACE:-} -vet=off -count=1 ./... ; else go run . ; fi) > /tmp/mutvet/$id.demo.$1 2>&1; echo $?; }
without=$(run_demo without)
git -C $W apply /tmp/mutvet/$id.patch || { echo "PATCH DOES NOT APPLY"; git -C /repo worktree remove --force $W; exit 1; }
(cd $W && go build ./... && go test -vet=off -count=1 ./... 2>&1 | grep -v "no test files") > /tmp/mutvet/$id.suite 2>&1
suite_ok=$(grep -c FAIL /tmp/mutvet/$id.suite)
with=$(run_demo with)
echo "demo exit without=$without with=$with ; suite FAIL lines=$suite_ok"
git -C /repo worktree remove --force $W; rm -rf /tmp/mutvet/${id}_demo
if [ "$without" = "0" ] && [ "$with" != "0" ] && [ "$suite_ok" = "0" ]; then
  mkdir -p /verif/seeded/$id/demo
  cp /tmp/mutvet/$id.patch /verif/seeded/$id/patch.diff
  cp $demo/*.go $demo/go.mod /verif/seeded/$id/demo/ 2>/dev/null
  python3 - "$id" "$prop" "$needs" <<'PY'
import json,sys
id,prop,needs=sys.argv[1:4]
json.dump({"id":id,"breaks_property":prop,"needs_to_manifest":needs,
 "vetted":"tools/seed_vet.sh: fresh worktree of /repo HEAD; `go build ./... && go test -vet=off -count=1 ./...` passes with the patch; the demo (go test/run in demo/, module replace => the worktree) exits 0 without the patch and non-zero with it",
 "demo_output_with_patch":open('/tmp/mutvet/%s.demo.with'%id).read()[-1500:]},open('/verif/seeded/%s/meta.json'%id,'w'),indent=1)
PY
  echo "KEPT $id"
else
  echo "REJECTED $id"; tail -5 /tmp/mutvet/$id.suite
fi
