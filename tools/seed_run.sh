#!/bin/bash
# tools/seed_run.sh <seeded/ID dir> <check ids...> : apply the seeded change to /repo, run the given
# checks (quick tier), print their verdict lines, and ALWAYS undo the change.
set -u
d=$1; shift
cd /verif
if ! git -C /repo diff --quiet; then echo "/repo has uncommitted changes; refusing"; exit 2; fi
git -C /repo apply "$(realpath $d)/patch.diff" || { echo "patch does not apply"; exit 2; }
trap 'git -C /repo checkout -- . ; git -C /repo status --short | head -3' EXIT
for c in "$@"; do
  echo "=== $c on $(basename $d)"
  timeout 1500 bin/check $c --tier quick 2>&1 | grep -E "^VIOLATION|^KNOWN|^C[0-9]+ quick" | head -8
done
