#!/usr/bin/env python3
"""Regenerate MANIFEST.json: a property is claimed when its check module and its Properties file exist."""
import json, os, subprocess
props = [json.loads(l) for l in open('/verif/properties.jsonl')]
LEVEL = {
 'C06': ('proof', 'PARTIAL: Coq theorems about the process model (evaluation is read-only on process state, resolves of different threads do not interfere, any interleaving) + run-time exploration under the Go race detector; the Go memory model, scheduler and race detector themselves cannot be modelled'),
 'C09': ('proof', 'PARTIAL: Coq theorems that no explicit panic of the evaluator is reachable and that every library loop terminates within explicit fuel, plus exact correspondence of outcome classes; panics born in the reflect layer have no counterpart in a JSON-level model and are found only by running the implementation (direct predicate: recovered panic / hang on generated ill-typed programs)'),
}
NOTE = ('trusted base: Coq 8.16.1 kernel incl. vm_compute (no native_compute); axioms as reported by Print Assumptions in the evidence (none declared by this development); extraction through ExtrOcamlBasic/ExtrOcamlString + OCaml compiler; '
        'unverified glue: verif hooks, table translator, Go harness (wire encoders, oracle answers by regexp/math/strings, direct predicates), OCaml driver, bin/check; the model is JSON-level (reflect layer modelled, not verified); '
        'Go standard library re-implemented in Gallina and validated by correspondence (strconv, encoding/json, utf8, base64, url, time) or used as oracle (regexp, math.Pow, Unicode case tables); the correspondence is sampling')
m = {"version": 1, "setup_cmd": "bin/setup",
     "hooks": {"guard": "verif", "enable": "go build -tags verif (add-only files /repo/verif_export.go, /repo/jparse/verif_export.go)",
               "baseline_off_cmd": "cd /repo && go test -vet=off -count=1 ./...", "add_only": True,
               "source_commits": [subprocess.run(['git', '-C', '/repo', 'log', '--format=%h', '-1', '--', 'verif_export.go'], capture_output=True, text=True).stdout.strip()]},
     "engines": [{"name": "coq-model", "path": "/verif/coq", "serves_properties": [], "kind_free_text": "Coq 8.16.1 development: executable Gallina model of jsonata-go (lexer, parser, evaluator, function library, process state) + theorems; data tables regenerated from the running implementation on every run with table lemmas re-proved; seeded correspondence of implementation vs extracted OCaml model; direct run-time predicates"}],
     "checks": [], "not_applicable": [], "notes": "see DESIGN.md"}
for p in props:
    pid = p['id']
    have = os.path.exists('/verif/vlib/props/%s.py' % pid) and os.path.exists('/verif/coq/Properties/%s.v' % pid)
    if have:
        cat, text = LEVEL.get(pid, ('proof', 'Coq theorems (unbounded: induction over lists, trees, fuel, histories) about an executable model of the code, tied to /repo on every run by regenerated tables (table lemmas re-proved) and by a seeded correspondence run of the implementation against the extracted model, plus direct run-time predicates on the implementation'))
        m['checks'].append({"property_id": pid, "quick_cmd": "bin/check %s --tier quick" % pid, "thorough_cmd": "bin/check %s --tier thorough" % pid,
                            "evidence_file": "/verif/evidence/%s.json" % pid, "replay_cmd_template": "bin/check %s --replay {path}" % pid, "engine": "coq-model",
                            "level_claimed": {"category": cat, "text": text, "design_ref": "DESIGN.md §5 " + pid + " and §11"},
                            "level_note": NOTE, "technique": "machine-checked proof in Coq about an executable model + regenerated table lemmas + differential correspondence (extracted model vs implementation)"})
        m['engines'][0]['serves_properties'].append(pid)
    else:
        m['not_applicable'].append({"property_id": pid, "reason": "check under construction in this round: the correspondence check exists but its Properties file (theorems) is not yet integrated; intended to be claimed"})
json.dump(m, open('/verif/MANIFEST.json', 'w'), indent=1)
print('claimed:', m['engines'][0]['serves_properties'])
