// Test-vector generator for the Gallina model of package jparse
// (/verif/coq/Model/{Lexer,Parser,AstWire}.v).
//
// For every input it runs the real jparse.Parse (with recover and a 2 s watchdog) and prints
//   - the result in the wire format of Model/AstWire.v, or "ERR <type> <pos> S<token> S<hint>",
//     or PANIC / HANG,
//   - the answers of the external functions the model takes as oracles, for every number,
//     regex and string literal that can occur as a token of the input:
//       strconv.ParseFloat verdicts, regexp.Compile verdicts, %g and %q renderings,
//   - node.String() of a successful parse,
// as sharded Coq files whose [bad] list must print as [].
//
// How to run (scratch module outside /repo and /verif):
//
//   export GOFLAGS=-mod=mod GOPROXY=off GOSUMDB=off GOTOOLCHAIN=local
//   mkdir -p /tmp/jp/gen && cd /tmp/jp/gen && cat > go.mod <<EOF
//   module scratch
//   go 1.16
//   require github.com/blues/jsonata-go v0.0.0
//   replace github.com/blues/jsonata-go => /repo
//   EOF
//   cp /verif/harness/vectors/parser/main.go . && go build -o pgen . &&
//   ./pgen -out /tmp/jp/shards -repo /repo -shard 1000
//   cd /tmp/jp/shards && ls pv_*.v | xargs -P 8 -n 1 sh -c 'timeout 3000 coqc -Q /verif/coq JV $0 > $0.log 2>&1'
//   grep -L "bad = \[\]" pv_*.v.log      # must print nothing
//
// Options: -seed N, -gen N (grammar cases), -mut N (mutation cases), -soup N, -rand N,
// -list (print the inputs as hex, one per line, instead of Coq files).
package main

import (
	"encoding/hex"
	"flag"
	"fmt"
	"go/ast"
	"go/parser"
	"go/token"
	"math"
	"math/rand"
	"os"
	"path/filepath"
	"regexp"
	"regexp/syntax"
	"sort"
	"strconv"
	"strings"
	"time"
	"unicode/utf8"

	"github.com/blues/jsonata-go/jparse"
)

// ---------------------------------------------------------------- wire format

func hx(s string) string { return hex.EncodeToString([]byte(s)) }
func wS(s string) string { return "S" + hx(s) }
func wB(b bool) string {
	if b {
		return "T"
	}
	return "F"
}

type walker struct {
	toks []string
	nums []float64
	strs []string
	bad  bool
}

func (w *walker) emit(s ...string) { w.toks = append(w.toks, s...) }

func (w *walker) list(ns []jparse.Node) {
	w.emit(fmt.Sprintf("L%d", len(ns)))
	for _, n := range ns {
		w.node(n)
	}
}

func (w *walker) pairs(ps [][2]jparse.Node) {
	w.emit(fmt.Sprintf("L%d", len(ps)))
	for _, p := range ps {
		w.node(p[0])
		w.node(p[1])
	}
}

func (w *walker) opt(n jparse.Node) {
	if n == nil {
		w.emit("?0")
		return
	}
	w.emit("?1")
	w.node(n)
}

func (w *walker) param(p jparse.Param) {
	w.emit("P", strconv.FormatUint(uint64(p.Type), 10), strconv.Itoa(int(p.Option)))
	if p.SubParams == nil {
		w.emit("?0")
		return
	}
	w.emit("?1", fmt.Sprintf("L%d", len(p.SubParams)))
	for _, s := range p.SubParams {
		w.param(s)
	}
}

func (w *walker) names(ss []string) {
	w.emit(fmt.Sprintf("L%d", len(ss)))
	for _, s := range ss {
		w.emit(wS(s))
	}
}

func (w *walker) node(n jparse.Node) {
	switch n := n.(type) {
	case *jparse.StringNode:
		w.strs = append(w.strs, n.Value)
		w.emit("Str", wS(n.Value))
	case *jparse.NumberNode:
		w.nums = append(w.nums, n.Value)
		w.emit("Num", fmt.Sprintf("D%016x", math.Float64bits(n.Value)))
	case *jparse.BooleanNode:
		w.emit("Bool", wB(n.Value))
	case *jparse.NullNode:
		w.emit("Null")
	case *jparse.RegexNode:
		s := ""
		if n.Value != nil {
			s = n.Value.String()
		} else {
			w.bad = true
		}
		w.emit("Regex", wS(s))
	case *jparse.VariableNode:
		w.emit("Var", wS(n.Name))
	case *jparse.NameNode:
		w.emit("Name", wS(n.Value), wB(n.Escaped()))
	case *jparse.PathNode:
		w.emit("Path")
		w.list(n.Steps)
		w.emit(wB(n.KeepArrays))
	case *jparse.NegationNode:
		w.emit("Neg")
		w.node(n.RHS)
	case *jparse.RangeNode:
		w.emit("Range")
		w.node(n.LHS)
		w.node(n.RHS)
	case *jparse.ArrayNode:
		w.emit("Array")
		w.list(n.Items)
	case *jparse.ObjectNode:
		w.emit("Object")
		w.pairs(n.Pairs)
	case *jparse.BlockNode:
		w.emit("Block")
		w.list(n.Exprs)
	case *jparse.WildcardNode:
		w.emit("Wild")
	case *jparse.DescendentNode:
		w.emit("Desc")
	case *jparse.ObjectTransformationNode:
		w.emit("Transform")
		w.node(n.Pattern)
		w.node(n.Updates)
		w.opt(n.Deletes)
	case *jparse.LambdaNode:
		w.emit("Lambda")
		w.names(n.ParamNames)
		w.node(n.Body)
		w.emit(wB(n.Shorthand()))
	case *jparse.TypedLambdaNode:
		w.emit("TLambda")
		w.names(n.ParamNames)
		w.node(n.Body)
		w.emit(wB(n.Shorthand()))
		w.emit(fmt.Sprintf("L%d", len(n.In)))
		for _, p := range n.In {
			w.param(p)
		}
		if n.Out != nil {
			w.bad = true
		}
	case *jparse.PartialNode:
		w.emit("Partial")
		w.node(n.Func)
		w.list(n.Args)
	case *jparse.PlaceholderNode:
		w.emit("Placeholder")
	case *jparse.FunctionCallNode:
		w.emit("Call")
		w.node(n.Func)
		w.list(n.Args)
	case *jparse.PredicateNode:
		w.emit("Pred")
		w.node(n.Expr)
		w.list(n.Filters)
	case *jparse.GroupNode:
		w.emit("Group")
		w.node(n.Expr)
		w.pairs(n.Pairs)
	case *jparse.ConditionalNode:
		w.emit("Cond")
		w.node(n.If)
		w.node(n.Then)
		w.opt(n.Else)
	case *jparse.AssignmentNode:
		w.emit("Assign", wS(n.Name))
		w.node(n.Value)
	case *jparse.NumericOperatorNode:
		w.emit("NumOp", n.Type.String())
		w.node(n.LHS)
		w.node(n.RHS)
	case *jparse.ComparisonOperatorNode:
		w.emit("CmpOp", n.Type.String())
		w.node(n.LHS)
		w.node(n.RHS)
	case *jparse.BooleanOperatorNode:
		w.emit("BoolOp", n.Type.String())
		w.node(n.LHS)
		w.node(n.RHS)
	case *jparse.StringConcatenationNode:
		w.emit("Concat")
		w.node(n.LHS)
		w.node(n.RHS)
	case *jparse.SortNode:
		w.emit("Sort")
		w.node(n.Expr)
		w.emit(fmt.Sprintf("L%d", len(n.Terms)))
		for _, t := range n.Terms {
			switch t.Dir {
			case jparse.SortDefault:
				w.emit("0")
			case jparse.SortAscending:
				w.emit("1")
			case jparse.SortDescending:
				w.emit("2")
			default:
				w.emit("BADDIR")
			}
			w.node(t.Expr)
		}
	case *jparse.FunctionApplicationNode:
		w.emit("Apply")
		w.node(n.LHS)
		w.node(n.RHS)
	default:
		// interim (unexported) nodes or nil: not representable
		w.bad = true
		w.emit(fmt.Sprintf("UNKNOWN(%T)", n))
	}
}

// ---------------------------------------------------------------- running Parse

type outcome struct {
	wire   string // wire form, ERR ..., PANIC, HANG
	str    string // "S"+hex(node.String()) or "-"
	nums   []float64
	strs   []string
	panicv string
}

func runParse(input string) outcome {
	ch := make(chan outcome, 1)
	go func() {
		var o outcome
		defer func() {
			if r := recover(); r != nil {
				o = outcome{wire: "PANIC", str: "-", panicv: fmt.Sprint(r)}
			}
			ch <- o
		}()
		n, err := jparse.Parse(input)
		if err != nil {
			e, ok := err.(*jparse.Error)
			if !ok {
				o = outcome{wire: "ERRTYPE", str: "-"}
				return
			}
			o = outcome{
				wire: fmt.Sprintf("ERR %d %d %s %s", e.Type, e.Position, wS(e.Token), wS(e.Hint)),
				str:  "-",
			}
			return
		}
		w := &walker{}
		w.node(n)
		o = outcome{wire: strings.Join(w.toks, " "), str: wS(n.String()), nums: w.nums, strs: w.strs}
		if w.bad {
			o.wire = "BAD " + o.wire
		}
	}()
	select {
	case o := <-ch:
		return o
	case <-time.After(2 * time.Second):
		return outcome{wire: "HANG", str: "-"}
	}
}

// ---------------------------------------------------------------- oracle tables
//
// The scanners below only decide WHICH strings get an oracle entry (every substring that the
// lexer can turn into a number / regex / string token, from any start position); the entries
// themselves come from the real strconv / regexp / fmt functions.  A missing entry shows up as
// a mismatch on the Coq side (the lookup returns a sentinel).

func isDigit(c byte) bool { return c >= '0' && c <= '9' }

// the number token starting at input[i] (scanNumber)
func numberAt(s string, i int) string {
	j := i
	if s[j] == '0' {
		j++
	} else {
		for j < len(s) && isDigit(s[j]) {
			j++
		}
	}
	if j < len(s) && s[j] == '.' {
		k := j + 1
		for k < len(s) && isDigit(s[k]) {
			k++
		}
		if k == j+1 {
			return s[i:j]
		}
		j = k
	}
	if j < len(s) && (s[j] == 'e' || s[j] == 'E') {
		j++
		if j < len(s) && (s[j] == '+' || s[j] == '-') {
			j++
		}
		for j < len(s) && isDigit(s[j]) {
			j++
		}
	}
	return s[i:j]
}

// the regex token value for a regex starting after the '/' at input[i] (scanRegex), ok=false
// when unterminated
func regexAt(s string, i int) (string, bool) {
	depth := 0
	j := i + 1
	for {
		if j >= len(s) {
			return "", false
		}
		r, w := utf8.DecodeRuneInString(s[j:])
		j += w
		switch r {
		case '/':
			if depth == 0 {
				raw := s[i+1 : j-1]
				k := j
				for k < len(s) && (s[k] == 'i' || s[k] == 'm' || s[k] == 's') {
					k++
				}
				if k > j {
					return "(?" + s[j:k] + ")" + raw, true
				}
				return raw, true
			}
		case '(', '[', '{':
			depth++
		case ')', ']', '}':
			depth--
		case '\\':
			if j >= len(s) {
				return "", false
			}
			r2, w2 := utf8.DecodeRuneInString(s[j:])
			j += w2
			if r2 == '\n' {
				return "", false
			}
		case '\n':
			return "", false
		}
	}
}

// the raw string token for a string literal opened by the quote at input[i] (scanString)
func stringAt(s string, i int) (string, bool) {
	q := s[i]
	j := i + 1
	for {
		if j >= len(s) {
			return "", false
		}
		r, w := utf8.DecodeRuneInString(s[j:])
		j += w
		if r == rune(q) {
			return s[i+1 : j-1], true
		}
		if r == '\\' {
			if j >= len(s) {
				return "", false
			}
			_, w2 := utf8.DecodeRuneInString(s[j:])
			j += w2
		}
	}
}

type oracles struct {
	nums map[string]string // token -> Z literal: bits, or (-1) range, (-2) syntax
	regs map[string]string // value -> hint ("" = compiles)
	gs   map[uint64]string
	qs   map[string]string
}

func (o *oracles) addNum(tok string) {
	if _, ok := o.nums[tok]; ok {
		return
	}
	x, err := strconv.ParseFloat(tok, 64)
	if err != nil {
		if e, ok := err.(*strconv.NumError); ok && e.Err == strconv.ErrRange {
			o.nums[tok] = "(-1)"
		} else {
			o.nums[tok] = "(-2)"
		}
		return
	}
	o.nums[tok] = fmt.Sprintf("%d", math.Float64bits(x))
	o.addG(x)
	o.addG(-x)
}

func (o *oracles) addG(x float64) {
	o.gs[math.Float64bits(x)] = fmt.Sprintf("%g", x)
}

func (o *oracles) addReg(v string) {
	if _, ok := o.regs[v]; ok {
		return
	}
	_, err := regexp.Compile(v)
	if err == nil {
		o.regs[v] = ""
		return
	}
	hint := "unknown error"
	if e, ok := err.(*syntax.Error); ok {
		hint = string(e.Code)
	}
	o.regs[v] = hint
}

func (o *oracles) addQ(s string) {
	o.qs[s] = fmt.Sprintf("%q", s)
}

func collectOracles(input string, out outcome) *oracles {
	o := &oracles{nums: map[string]string{}, regs: map[string]string{}, gs: map[uint64]string{}, qs: map[string]string{}}
	for i := 0; i < len(input); i++ {
		c := input[i]
		switch {
		case isDigit(c):
			o.addNum(numberAt(input, i))
		case c == '/':
			if v, ok := regexAt(input, i); ok && v != "" {
				o.addReg(v)
			}
		case c == '"' || c == '\'':
			if raw, ok := stringAt(input, i); ok {
				// unescape with the real code
				func() {
					defer func() { recover() }()
					q := string(c)
					n, err := jparse.Parse(q + raw + q)
					if err == nil {
						if sn, ok := n.(*jparse.StringNode); ok {
							o.addQ(sn.Value)
						}
					}
				}()
			}
		}
	}
	for _, x := range out.nums {
		o.addG(x)
	}
	for _, s := range out.strs {
		o.addQ(s)
	}
	return o
}

// ---------------------------------------------------------------- Coq output

func coqStr(s string) string { return "\"" + strings.ReplaceAll(s, "\"", "\"\"") + "\"" }

func asciiSafe(s string) bool {
	for i := 0; i < len(s); i++ {
		if s[i] < 0x20 || s[i] > 0x7e {
			return false
		}
	}
	return true
}

func caseLine(input string) (string, outcome) {
	out := runParse(input)
	o := collectOracles(input, out)
	var b strings.Builder
	b.WriteString("(" + coqStr(hx(input)) + ", [")
	keys := make([]string, 0, len(o.nums))
	for k := range o.nums {
		keys = append(keys, k)
	}
	sort.Strings(keys)
	for i, k := range keys {
		if i > 0 {
			b.WriteString("; ")
		}
		b.WriteString("(" + coqStr(k) + ", " + o.nums[k] + ")")
	}
	b.WriteString("], [")
	keys = keys[:0]
	for k := range o.regs {
		keys = append(keys, k)
	}
	sort.Strings(keys)
	for i, k := range keys {
		if i > 0 {
			b.WriteString("; ")
		}
		b.WriteString("(" + coqStr(hx(k)) + ", " + coqStr(hx(o.regs[k])) + ")")
	}
	b.WriteString("], [")
	gk := make([]uint64, 0, len(o.gs))
	for k := range o.gs {
		gk = append(gk, k)
	}
	sort.Slice(gk, func(i, j int) bool { return gk[i] < gk[j] })
	for i, k := range gk {
		if i > 0 {
			b.WriteString("; ")
		}
		b.WriteString(fmt.Sprintf("(%d, %s)", k, coqStr(o.gs[k])))
	}
	b.WriteString("], [")
	keys = keys[:0]
	for k := range o.qs {
		keys = append(keys, k)
	}
	sort.Strings(keys)
	for i, k := range keys {
		if i > 0 {
			b.WriteString("; ")
		}
		b.WriteString("(" + coqStr(hx(k)) + ", " + coqStr(hx(o.qs[k])) + ")")
	}
	b.WriteString("], " + coqStr(out.wire) + ", " + coqStr(out.str) + ")")
	return b.String(), out
}

const coqHeader = `(* generated by /verif/harness/vectors/parser/main.go — do not edit *)
From JV Require Import Model.Lexer Model.Parser Model.AstWire.
Open Scope Z_scope.
Definition unhex (h : string) : string := match string_of_hex h with Some s => s | None => "BADHEX" end.
Definition mk_num (nums : list (string * Z)) (s : string) : numlit :=
  match find (fun p => seqb (fst p) s) nums with
  | Some (_, z) => if z =? -1 then NumRange else if z =? -2 then NumSyntax else NumOk (f_of_bits z)
  | None => NumOk S754_nan   (* missing oracle entry: guaranteed mismatch *)
  end.
Definition mk_reg (regs : list (string * string)) (s : string) : option string :=
  match find (fun p => seqb (unhex (fst p)) s) regs with
  | Some (_, h) => match h with EmptyString => None | _ => Some (unhex h) end
  | None => Some "MISSING-REGEX-ORACLE"
  end.
Definition mk_g (gs : list (Z * string)) (x : f64) : string :=
  match find (fun p => fst p =? bits_of_f x) gs with
  | Some (_, s) => s
  | None => "MISSING-G-ORACLE"
  end.
Definition mk_q (qs : list (string * string)) (s : string) : string :=
  match find (fun p => seqb (unhex (fst p)) s) qs with
  | Some (_, h) => unhex h
  | None => "MISSING-Q-ORACLE"
  end.
Definition res_to_wire (r : res node) : string :=
  match r with
  | ROk n => node_to_wire n
  | RErr e => "ERR " ++ string_of_nat (etype e) ++ " " ++ string_of_Z (epos e) ++ " "
              ++ wS (etoken e) ++ " " ++ wS (ehint e)
  | RPanic _ => "PANIC"
  | RFuel => "HANG"
  end.
Definition tcase := (string * list (string * Z) * list (string * string) * list (Z * string)
                     * list (string * string) * string * string)%type.
Definition run (c : tcase) : res node * string :=
  let '(inp, nums, regs, gs, qs, expected, str) := c in
  let src := unhex inp in
  let r := parse (mk_num nums) (mk_reg regs) (mk_g gs) (mk_q qs) (parse_fuel src) src in
  (r, match r with ROk n => wS (node_string (mk_g gs) (mk_q qs) n) | _ => "-" end).
Definition check (c : tcase) : bool :=
  let '(inp, nums, regs, gs, qs, expected, str) := c in
  let '(r, s) := run c in
  seqb (res_to_wire r) expected && seqb s str
  && match r with
     | ROk n => match node_of_wire (node_to_wire n) with
                | Some n' => seqb (node_to_wire n') (node_to_wire n)
                | None => false
                end
     | _ => true
     end.
`

func writeShard(dir string, idx int, lines []string) error {
	f, err := os.Create(filepath.Join(dir, fmt.Sprintf("pv_%04d.v", idx)))
	if err != nil {
		return err
	}
	defer f.Close()
	fmt.Fprint(f, coqHeader)
	fmt.Fprintf(f, "Definition cases : list tcase := [\n")
	for i, l := range lines {
		sep := ";"
		if i == len(lines)-1 {
			sep = ""
		}
		fmt.Fprintf(f, "%s%s\n", l, sep)
	}
	fmt.Fprintf(f, "].\n")
	fmt.Fprintf(f, "Definition bad := Eval vm_compute in map (fun c => (fst (fst (fst (fst (fst (fst c))))), res_to_wire (fst (run c)), snd (run c))) (filter (fun c => negb (check c)) cases).\nPrint bad.\n")
	fmt.Fprintf(f, "Definition n_ok := Eval vm_compute in List.length (filter check cases).\nPrint n_ok.\n")
	return nil
}

// ---------------------------------------------------------------- inputs (i): harvest

func harvest(repo string) []string {
	var out []string
	seen := map[string]bool{}
	var files []string
	for _, pat := range []string{"*_test.go", "jparse/*_test.go", "jlib/*_test.go", "jsonata-test/*_test.go"} {
		m, _ := filepath.Glob(filepath.Join(repo, pat))
		files = append(files, m...)
	}
	sort.Strings(files)
	for _, fn := range files {
		fset := token.NewFileSet()
		f, err := parser.ParseFile(fset, fn, nil, 0)
		if err != nil {
			continue
		}
		ast.Inspect(f, func(n ast.Node) bool {
			if bl, ok := n.(*ast.BasicLit); ok && bl.Kind == token.STRING {
				s, err := strconv.Unquote(bl.Value)
				if err == nil && len(s) > 0 && len(s) <= 300 && !seen[s] {
					seen[s] = true
					out = append(out, s)
				}
			}
			return true
		})
	}
	return out
}

// ---------------------------------------------------------------- inputs (ii): grammar

type gen struct{ r *rand.Rand }

func (g *gen) pick(ss ...string) string { return ss[g.r.Intn(len(ss))] }

var infixOps = []string{"+", "-", "*", "/", "%", "=", "!=", "<", "<=", ">", ">=", "in", "and", "or", "&", "~>", ".", ":=", "?", "..", "^", "[", "{", "("}

var numberLits = []string{"0", "1", "2", "42", "3.14", "0.5", "1e5", "1E-3", "1e+2", "10", "007", "1e", "1e+", "1.", "1.e3", "0.0", "1e400", "1e-400", "123456789012345678901234567890", "0.1", "1.7976931348623157e308", "4.9e-324", "2.5E3", "100000", "1234567", "0.0001", "0.00001", "1e21", "1e20", "5e-7"}

var stringLits = []string{`"abc"`, `'x'`, `""`, `''`, `"a\"b"`, `'it\'s'`, `"\u00e9"`, `"\ud83d\ude00"`, `"\uD83D\uDE00!"`, `"\ud83d"`, `"\ud83dx"`, `"\uD83D\u0041"`, `"\ud83d\n"`, `"\q"`, `"\u12"`, `"\u+123"`, `"\u-123"`, `"\u-000"`, `"\n\t\\\/\b\f\r"`, "\"é😀\"", `"hello world"`, `"a.b"`, `"\u0000"`, `"\uFFFF"`, `"\udc00"`, `"\ud800\udbff"`, `"tab\there"`, `"\u 123"`, `"\u00"`, `"\u"`, `"\`, `"\\"`, `"\'"`, `'\"'`, `"\/"`, `"\x41"`, `"\ud83d\u"`, `"\ud83d\ud83d\ude00"`, "\"\\\xff\"", "\"\\u00\xc3\xa9\"", `"\u00e9\u00E9"`, `"日本語"`, "\"a\nb\""}

var nameLits = []string{"a", "b", "foo", "bar", "Account", "Order", "Product", "Price", "x1", "_y", "and", "or", "in", "true", "false", "null", "function", "λ", "`back quoted`", "`a.b`", "``", "`function`", "`λ`", "é", "naïve", "$", "$x", "$$", "$foo", "$sum", "$count", "$string", "$uppercase", "!", "~", "a!", "@", "#", "$1", "$_"}

var regexLits = []string{"/ab+/", "/a(b|c)/i", "/[a-z]+/ms", "/(/", "/a{2,1}/", `/\//`, "//", "/a/imsims", "/[/]/", "/(a/)/", "/{/}/", `/\d+/`, "/a**/", "/x*?/", "/(?P<n>a)/", "/[a/", "/é+/i", `/\pL/`, `/a\`, "/a\nb/", "/)/", "/a)/b/", `/\p{Greek}/`, "/(?i)a/", "/a|b/s", "/\\Q.\\E/", "/x{1001}/", "/(?z)/", "/[[:alpha:]]/", "/[b-a]/", "/a/x"}

var sigLits = []string{"<n>", "<s>", "<nn>", "<n-n>", "<s?>", "<a<n>>", "<a<s>>", "<f<n:n>>", "<(ns)>", "<(nsb)?>", "<x+>", "<j-:s>", "<o>", "<l>", "<b>", "<n:n>", "<a<a<n>>>", "<s-s?:s>", "<f>", "<a<>>", "<n<s>>", "<(n>", "<(nz)>", "<z>", "<?>", "<<n>>", "<a<n>", "<()>", "<n+:n>", "<(sao)>", "<s-(sf)(sf)n?n?:s>", "<a<(ns)>>", "<f<s:b>x?>", "<!>", "<~>", "<n?+->", "<a<n?>>", "<:n>", "<nn:>", "<é>", "<(é)>", "<a<é>>", "<n n>", "<\"n\">", "<n/s/>", "<a<n>>>", "<1>", "<n1>", "<`n`>", "<$n>", "<a<<n>>>", "<>"}

func (g *gen) atom() string {
	switch g.r.Intn(12) {
	case 0, 1:
		return g.pick(numberLits...)
	case 2, 3:
		return g.pick(stringLits...)
	case 4:
		return g.pick(regexLits...)
	case 5:
		return g.pick("*", "**", "%", "$", "$$")
	default:
		return g.pick(nameLits...)
	}
}

func (g *gen) sp() string {
	switch g.r.Intn(6) {
	case 0:
		return " "
	case 1:
		return g.pick("\n", "\t", "  ", "\r\n", "\v")
	default:
		return ""
	}
}

func (g *gen) sig() string {
	if g.r.Intn(3) == 0 {
		return g.pick(sigLits...)
	}
	var b strings.Builder
	b.WriteString("<")
	n := g.r.Intn(4)
	for i := 0; i < n; i++ {
		b.WriteString(g.sigParam(2))
	}
	if g.r.Intn(3) == 0 {
		b.WriteString(":" + g.sigParam(1))
	}
	b.WriteString(">")
	return b.String()
}

func (g *gen) sigParam(d int) string {
	var s string
	switch g.r.Intn(8) {
	case 0:
		s = "(" + g.pick("ns", "nsb", "sl", "ao", "fx", "nj", "bn") + ")"
	case 1:
		if d > 0 {
			s = "a<" + g.sigParam(d-1) + ">"
		} else {
			s = "a"
		}
	case 2:
		if d > 0 {
			s = "f<" + g.sigParam(d-1) + ":" + g.sigParam(d-1) + ">"
		} else {
			s = "f"
		}
	default:
		s = g.pick("n", "s", "b", "l", "a", "o", "f", "j", "x")
	}
	if g.r.Intn(4) == 0 {
		s += g.pick("?", "+", "-")
	}
	return s
}

func (g *gen) list(d int, sep string, min, max int) string {
	n := min + g.r.Intn(max-min+1)
	parts := make([]string, n)
	for i := range parts {
		parts[i] = g.expr(d)
	}
	return strings.Join(parts, sep+g.sp())
}

func (g *gen) step(d int) string {
	var s string
	switch g.r.Intn(10) {
	case 0:
		s = "(" + g.expr(d-1) + ")"
	case 1:
		s = g.pick("*", "**", "%", "$", "$x")
	case 2:
		s = "[" + g.list(d-1, ",", 0, 2) + "]"
	case 3:
		s = g.pick(stringLits...) // ErrPathLiteral
	case 4:
		s = g.pick(numberLits...)
	case 5:
		s = "$f(" + g.list(d-1, ",", 0, 2) + ")"
	default:
		s = g.pick(nameLits...)
	}
	for k := g.r.Intn(3); k > 0; k-- {
		switch g.r.Intn(6) {
		case 0:
			s += "[]"
		case 1, 2:
			s += "[" + g.expr(d-1) + "]"
		case 3:
			s += "{" + g.expr(d-1) + ":" + g.expr(d-1) + "}"
		case 4:
			s += "^(" + g.pick("", "<", ">") + g.expr(d-1) + ")"
		case 5:
			s += "[" + g.expr(d-1) + "][" + g.expr(d-1) + "]"
		}
	}
	return s
}

func (g *gen) expr(d int) string {
	if d <= 0 {
		return g.atom()
	}
	switch g.r.Intn(24) {
	case 0, 1, 2, 3:
		return g.expr(d-1) + g.sp() + g.pick(infixOps[:18]...) + g.sp() + g.expr(d-1)
	case 4, 5, 6:
		n := 1 + g.r.Intn(4)
		parts := make([]string, n)
		for i := range parts {
			parts[i] = g.step(d)
		}
		return strings.Join(parts, ".")
	case 7:
		return g.pick("$f", "$sum", "f", "$", "(a)", g.expr(d-1)) + "(" + g.list(d-1, ",", 0, 3) + ")"
	case 8:
		args := []string{}
		for k := 1 + g.r.Intn(3); k > 0; k-- {
			if g.r.Intn(2) == 0 {
				args = append(args, "?")
			} else {
				args = append(args, g.expr(d-1))
			}
		}
		return g.pick("$f", "$substring", "f") + "(" + strings.Join(args, ","+g.sp()) + ")"
	case 9, 10:
		names := []string{}
		for k := g.r.Intn(4); k > 0; k-- {
			names = append(names, g.pick("$a", "$b", "$c", "$x", "$y", "$", "x", "$a"))
		}
		sig := ""
		if g.r.Intn(2) == 0 {
			sig = g.sig()
		}
		return g.pick("function", "λ", "`function`") + "(" + strings.Join(names, ","+g.sp()) + ")" + sig + "{" + g.expr(d-1) + "}"
	case 11:
		items := []string{}
		for k := g.r.Intn(4); k > 0; k-- {
			if g.r.Intn(3) == 0 {
				items = append(items, g.expr(d-1)+".."+g.expr(d-1))
			} else {
				items = append(items, g.expr(d-1))
			}
		}
		return "[" + strings.Join(items, ","+g.sp()) + "]"
	case 12:
		pairs := []string{}
		for k := g.r.Intn(3); k > 0; k-- {
			pairs = append(pairs, g.expr(d-1)+":"+g.sp()+g.expr(d-1))
		}
		return "{" + strings.Join(pairs, ","+g.sp()) + "}"
	case 13:
		return "(" + g.list(d-1, ";", 0, 3) + g.pick("", ";") + ")"
	case 14:
		if g.r.Intn(2) == 0 {
			return g.expr(d-1) + " ? " + g.expr(d-1) + " : " + g.expr(d-1)
		}
		return g.expr(d-1) + "?" + g.expr(d-1)
	case 15:
		return g.pick("$x", "$y", "$", "x", "$f") + g.sp() + ":=" + g.sp() + g.expr(d-1)
	case 16:
		return "-" + g.expr(d-1)
	case 17:
		if g.r.Intn(2) == 0 {
			return "|" + g.expr(d-1) + "|" + g.expr(d-1) + "|"
		}
		return "|" + g.expr(d-1) + "|" + g.expr(d-1) + "," + g.expr(d-1) + "|"
	case 18:
		terms := []string{}
		for k := 1 + g.r.Intn(3); k > 0; k-- {
			terms = append(terms, g.pick("", "<", ">")+g.expr(d-1))
		}
		return g.expr(d-1) + "^(" + strings.Join(terms, ","+g.sp()) + ")"
	case 19:
		return g.expr(d-1) + "{" + g.expr(d-1) + ":" + g.expr(d-1) + "}" + g.pick("", "[0]", "{a:b}", ".c", "[]")
	case 20:
		return g.expr(d-1) + " ~> " + g.pick("$f", "$sum()", "$f(?)", "function($x){$x}", "|a|{}|", g.expr(d-1))
	case 21:
		return g.expr(d-1) + "[" + g.expr(d-1) + "]" + g.pick("", "[]", "[1]", ".x")
	default:
		return g.atom()
	}
}

func systematic() []string {
	var out []string
	ops := infixOps
	// every operator pair, several operand shapes
	for _, o1 := range ops {
		for _, o2 := range ops {
			out = append(out, "a "+o1+" b "+o2+" c")
			out = append(out, "$x"+o1+"1"+o2+"\"s\"")
		}
	}
	closers := map[string]string{"[": "]", "{": "}", "(": ")"}
	for _, o1 := range ops {
		for _, o2 := range ops {
			s := "a " + o1 + " b"
			if c, ok := closers[o1]; ok {
				s += c
			}
			s += " " + o2 + " c"
			if c, ok := closers[o2]; ok {
				s += c
			}
			out = append(out, s)
		}
	}
	// prefix forms before every operator
	for _, pre := range []string{"-", "--", "*", "**", "|a|b|", "(", "[", "{", "?", ":", ";", ",", ")", "]", "}", "..", ":=", "~>", "!=", "^", "&", "and", "or", "in", "%"} {
		for _, o := range ops {
			out = append(out, pre+" a "+o+" b", "a "+o+" "+pre+" b", "a "+o+" b "+pre)
		}
	}
	// every atom alone, as a path step, as predicate, as group key, negated, applied
	var atoms []string
	atoms = append(atoms, numberLits...)
	atoms = append(atoms, stringLits...)
	atoms = append(atoms, nameLits...)
	atoms = append(atoms, regexLits...)
	atoms = append(atoms, "*", "**", "%", "[]", "{}", "()", "[1..2]", "(a;b)", "|a|b|", "$f()", "$f(?)", "function($x){$x}", "a{b:c}", "a[b]", "a[]", "a^(b)")
	for _, a := range atoms {
		out = append(out, a, a+".x", "x."+a, "x."+a+".y", "x["+a+"]", a+"[0]", a+"[]", a+"{a:b}", "x{"+a+":1}", "-"+a,
			a+" := 1", "$v := "+a, a+"(1)", a+" ~> $f", "x ~> "+a, "["+a+"]", "{"+a+":"+a+"}", a+"^(x)", "x^("+a+")",
			a+" ? 1 : 2", a+"{a:b}[0]", a+"{a:b}{c:d}", a+"[0]{a:b}", a+"[0][1]", a+"[][0]", "x."+a+"[0]", "x."+a+"[]", "("+a+")", a+" "+a, a+".."+a, "["+a+".."+a+"]")
	}
	// every signature with matching and non-matching parameter counts
	for _, sg := range sigLits {
		out = append(out, "function($x)"+sg+"{$x}", "function($x,$y)"+sg+"{$x}", "λ()"+sg+"{1}", "function($a,$b,$c,$d,$e)"+sg+"{1}", "function($x) "+sg+" {$x}", "function($x)"+sg, "function($x)"+sg+"$x}")
	}
	// lambda parameter lists
	for _, ps := range []string{"", "$x", "$x,$y", "$x,$x", "x", "$x,", ",$x", "$x $y", "1", "$x,y", "$x,$y,$x", "$", "$,$", "$x.y", "($x)", "$x:=1", "\"x\"", "$x;$y"} {
		out = append(out, "function("+ps+"){1}", "λ("+ps+"){1}", "function("+ps+")<n>{1}", "`function`("+ps+"){1}", "function ("+ps+") {1}", "(function)("+ps+"){1}")
	}
	out = append(out, "function", "λ", "function(", "function()", "function(){", "function(){}", "function(){1", "function(){1}", "function($x){$x}(1)", "function($x)<n>", "function($x)<", "function($x)<n", "function($x)<n>{", "function($x)<{", "function($x)<n>>{1}", "function($x)<<n>{1}", "function($x)< n >{1}", "function($x)<n{1}", "function($x)<a<n>>{1}", "function($x)<a<n>>>{1}", "function($x)<n>=1", "function($x)<=1", "function($x)<'n'>{1}", "function($x)</n/>{1}", "function($x)<n/>{1}")
	return out
}

// ---------------------------------------------------------------- inputs (iii): mutations

var alphabet = []string{"(", ")", "[", "]", "{", "}", ".", ",", ";", ":", "?", "+", "-", "*", "/", "%", "|", "=", "<", ">", "^", "&", "!", "~", "$", "`", "\"", "'", "\\", " ", "\n", "0", "1", "9", "e", "E", "a", "u", "i", "m", "s", "x", "_", "#", "@", "\x00", "\x7f", "\x80", "\xff", "\xc3", "\xc3\xa9", "\xe4\x91\x81", "\xf0\x9f\x98\x80", "\xed\xa0\x80", "\xc0\xaf", "\xf4\x90\x80\x80", "λ", "..", ":=", "~>", "!=", "<=", ">=", "**", "and", "or", "in", " and ", " or ", " in ", "true", "false", "null", "function", "\\u", "\\ud83d", "[]", "{}", "()", "1.", ".5", "1e"}

var tokRe = regexp.MustCompile(`[A-Za-z_$][A-Za-z0-9_]*|[0-9]+(\.[0-9]+)?|"[^"]*"|'[^']*'|\.\.|:=|~>|!=|<=|>=|\*\*|\s+|.`)

func mutate(r *rand.Rand, s string, all bool, budget int) []string {
	var out []string
	add := func(m string) { out = append(out, m) }
	if all {
		for i := 0; i < len(s); i++ {
			add(s[:i] + s[i+1:])           // delete byte
			add(s[:i] + s[i:i+1] + s[i:])  // duplicate byte
			add(s[:i])                     // truncate
			a := alphabet[r.Intn(len(alphabet))]
			add(s[:i] + a + s[i:])   // insert
			add(s[:i] + a + s[i+1:]) // replace
		}
		toks := tokRe.FindAllString(s, -1)
		for i := range toks {
			add(strings.Join(toks[:i], "") + strings.Join(toks[i+1:], ""))               // delete token
			add(strings.Join(toks[:i+1], "") + strings.Join(toks[i:], ""))              // duplicate token
			add(strings.Join(toks[:i], "") + alphabet[r.Intn(len(alphabet))] + strings.Join(toks[i+1:], "")) // replace token
			if i+1 < len(toks) {
				sw := append([]string{}, toks...)
				sw[i], sw[i+1] = sw[i+1], sw[i]
				add(strings.Join(sw, ""))
			}
		}
	} else {
		for k := 0; k < budget; k++ {
			if len(s) == 0 {
				break
			}
			i := r.Intn(len(s))
			a := alphabet[r.Intn(len(alphabet))]
			switch r.Intn(5) {
			case 0:
				add(s[:i] + s[i+1:])
			case 1:
				add(s[:i] + s[i:i+1] + s[i:])
			case 2:
				add(s[:i])
			case 3:
				add(s[:i] + a + s[i:])
			case 4:
				add(s[:i] + a + s[i+1:])
			}
		}
	}
	return out
}

// ---------------------------------------------------------------- inputs (iv), (v)

func soup(r *rand.Rand) string {
	n := 1 + r.Intn(12)
	var b strings.Builder
	for i := 0; i < n; i++ {
		switch r.Intn(10) {
		case 0:
			b.WriteString(numberLits[r.Intn(len(numberLits))])
		case 1:
			b.WriteString(nameLits[r.Intn(len(nameLits))])
		case 2:
			b.WriteString(stringLits[r.Intn(len(stringLits))])
		default:
			b.WriteString(alphabet[r.Intn(len(alphabet))])
		}
		if r.Intn(4) == 0 {
			b.WriteString(" ")
		}
	}
	return b.String()
}

func randomBytes(r *rand.Rand) string {
	n := 1 + r.Intn(16)
	b := make([]byte, n)
	switch r.Intn(3) {
	case 0:
		for i := range b {
			b[i] = byte(r.Intn(256))
		}
	case 1:
		const cs = "()[]{}.,;:?+-*/%|=<>^&!~$`\"'\\ \n019eEaux\x80\xff\xc3\xa9\xe4\x91\x81\xf0\x9f\x98\x80\xed"
		for i := range b {
			b[i] = cs[r.Intn(len(cs))]
		}
	default:
		for i := range b {
			b[i] = byte(0x20 + r.Intn(0x60))
		}
	}
	return string(b)
}

// ---------------------------------------------------------------- main

func main() {
	outDir := flag.String("out", "", "directory for the Coq shards")
	repo := flag.String("repo", "/repo", "path of the jsonata-go tree (for harvesting test expressions)")
	seed := flag.Int64("seed", 1, "random seed")
	nGen := flag.Int("gen", 7000, "number of grammar-generated programs")
	nMut := flag.Int("mut", 16000, "number of mutation cases (approximately)")
	nSoup := flag.Int("soup", 5000, "number of token-soup cases")
	nRand := flag.Int("rand", 3000, "number of random-byte cases")
	shard := flag.Int("shard", 1000, "cases per Coq file")
	maxLen := flag.Int("maxlen", 160, "maximum input length in bytes")
	list := flag.Bool("list", false, "print inputs as hex and exit")
	flag.Parse()

	r := rand.New(rand.NewSource(*seed))
	g := &gen{r: r}

	var inputs []string
	seen := map[string]bool{}
	add := func(s string) {
		if len(s) > *maxLen || seen[s] {
			return
		}
		seen[s] = true
		inputs = append(inputs, s)
	}
	counts := map[string]int{}
	mark := func(name string, before int) { counts[name] = len(inputs) - before }

	// regressions for the three repaired defects and other known corner cases
	n0 := len(inputs)
	for _, s := range []string{"function($x)<(>{$x}", "!é", "[1.䑁]", "function($x)<!>{$x}", "!", "~", "a!b", "1.", "1..2", "[1..2]", "1.é", "1.5.é", ".é", "!\xff", "~\xc3", "<\xe4\x91\x81", "1e\xe4\x91\x81", "", " ", "\n", "$", "$$", "a.", ".a", "a..b", "/", "a/", "a//", "/a", "a /b/ c", "a = /b/", "(/a/)", "[/a/,/b/i]", "$f(/a/)", "a ? /b/ : /c/", "{\"a\":/b/}", "a.b.c[d=1].e{f:g}^(h)", "Account.Order.Product[Price > 30].Description.Colour", "$sum(Account.Order.Product.(Price*Quantity))"} {
		add(s)
	}
	// regressions for the parser repairs of the C04/C11 findings (regex flag after closers, sign in \u)
	for _, s := range []string{"a^(b)/2", "a^(b) / 2 + c/d", "a^(b)/c/", "a^(b)/c/i", "a^(<b,>c)/2", "a^(b)^(c)/d", "function($x){$x}/2", "function($x){$x}/a/", "λ($x){$x}/2", "function($x)<n:n>{$x}/2", "|a|{}|/2", "|a|{},b|/2", "|a|{}|/b/", "$f(?/2)", "$f(?,/a/)", "$f(?/a/)", "$f(?)/2", "$f(?, ?)", "a^(b).c", "function($x){$x}(1)", "|a|{}| ~> $f", "$ ~> |a|{}|", "(/ab/)", "[/ab/]", "-/ab/", "{/a/:1}", "|/a/|{}|", "[1,/ab/]", "(a;/b/)", "\"\\u+123\"", "\"\\u-000\"", "\"\\u+12a\"", "\"\\u 123\"", "\"\\u12\"", "\"\\u12 4\"", "\"\\uD83D\\u+E00\"", "\"\\uD83D\\u-E00\"", "\"\\uD83D\\uDE00\"", "\"\\u00e9\"", "\"\\u00E9\"", "'\\u+123'", "\"\\u0x12\"", "\"\\u1_23\"", "\"\\uFFFF\"", "\"\\u0000\"", "\"a\\u+123b\""} {
		add(s)
	}
	mark("regress", n0)

	n0 = len(inputs)
	harvested := harvest(*repo)
	for _, s := range harvested {
		add(s)
	}
	mark("harvest", n0)

	n0 = len(inputs)
	sys := systematic()
	for _, s := range sys {
		add(s)
	}
	mark("systematic", n0)

	n0 = len(inputs)
	var generated []string
	for tries := 0; len(inputs)-n0 < *nGen && tries < 20**nGen; tries++ {
		s := g.expr(1 + r.Intn(3))
		before := len(inputs)
		add(s)
		if len(inputs) > before {
			generated = append(generated, s)
		}
	}
	mark("grammar", n0)

	// (iii) every single edit of a sample, random edits of the rest
	n0 = len(inputs)
	var pool []string
	for _, s := range harvested {
		if len(s) <= 60 {
			pool = append(pool, s)
		}
	}
	for _, s := range generated {
		if len(s) <= 60 {
			pool = append(pool, s)
		}
	}
	exhaustive := []string{"Account.Order[0].Product[Price > 30].Description", "function($x,$y)<a<n>s?:n>{$x+$y}", "$a := b ? \"c\\u00e9\" : /d+/i", "a[b=1]{c:d}^(<e,>f)[]", "[1..2, 3.5e1, -x] ~> $f(?, |y|{\"z\":1}, [\"w\"]|)", "a.`b c`.*.**.%[0] & 'q' and r or s in t", "(λ($f){$f(1;2)};$$.é != 1.5e-3)"}
	for _, s := range exhaustive {
		for _, m := range mutate(r, s, true, 0) {
			add(m)
		}
	}
	for len(inputs)-n0 < *nMut/2 && len(pool) > 0 {
		s := pool[r.Intn(len(pool))]
		for _, m := range mutate(r, s, true, 0) {
			if len(inputs)-n0 >= *nMut/2 {
				break
			}
			add(m)
		}
	}
	for tries := 0; len(inputs)-n0 < *nMut && len(pool) > 0 && tries < 40**nMut; tries++ {
		s := pool[r.Intn(len(pool))]
		for _, m := range mutate(r, s, false, 2) {
			add(m)
		}
	}
	mark("mutation", n0)

	n0 = len(inputs)
	for tries := 0; len(inputs)-n0 < *nSoup && tries < 20**nSoup; tries++ {
		add(soup(r))
	}
	mark("soup", n0)

	n0 = len(inputs)
	for tries := 0; len(inputs)-n0 < *nRand && tries < 20**nRand; tries++ {
		add(randomBytes(r))
	}
	mark("random", n0)

	if *list {
		for _, s := range inputs {
			fmt.Println(hx(s))
		}
		return
	}

	fmt.Fprintf(os.Stderr, "inputs: %d %v\n", len(inputs), counts)
	if *outDir == "" {
		fmt.Fprintln(os.Stderr, "no -out directory: only running Parse")
	} else if err := os.MkdirAll(*outDir, 0o755); err != nil {
		panic(err)
	}

	stats := map[string]int{}
	var lines []string
	idx := 0
	flush := func() {
		if len(lines) == 0 || *outDir == "" {
			lines = lines[:0]
			return
		}
		if err := writeShard(*outDir, idx, lines); err != nil {
			panic(err)
		}
		idx++
		lines = lines[:0]
	}
	for _, s := range inputs {
		line, out := caseLine(s)
		switch {
		case out.wire == "PANIC":
			stats["PANIC"]++
			fmt.Fprintf(os.Stderr, "PANIC on %q (hex %s): %s\n", s, hx(s), out.panicv)
		case out.wire == "HANG":
			stats["HANG"]++
			fmt.Fprintf(os.Stderr, "HANG on %q (hex %s)\n", s, hx(s))
		case strings.HasPrefix(out.wire, "ERR "):
			stats["ERR "+strings.Fields(out.wire)[1]]++
		case strings.HasPrefix(out.wire, "BAD") || out.wire == "ERRTYPE":
			stats["BAD"]++
			fmt.Fprintf(os.Stderr, "BAD result on %q: %s\n", s, out.wire)
		default:
			stats["OK"]++
		}
		lines = append(lines, line)
		if len(lines) >= *shard {
			flush()
		}
	}
	flush()
	keys := make([]string, 0, len(stats))
	for k := range stats {
		keys = append(keys, k)
	}
	sort.Strings(keys)
	for _, k := range keys {
		fmt.Fprintf(os.Stderr, "  %-8s %d\n", k, stats[k])
	}
	_ = asciiSafe
}
