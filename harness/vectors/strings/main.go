// Test-vector generator for /verif/coq/Model/LibString.v (property C16).
//
// Calls the REAL functions (jlib.Substring, jlib.Pad, jlib.Trim, jlib.Contains, jlib.Split,
// jlib.Join, jlib.Replace, jlib.Base64Encode/Decode, jlib.EncodeURLComponent, jlib.DecodeURL,
// jlib.SubstringBefore/After and — as bound in env.go — utf8.RuneCountInString, strings.ToUpper,
// strings.ToLower), each wrapped in recover(), and writes Coq files that re-compute every case
// with the Gallina model under vm_compute and print the list of disagreements (`bad`).
//
// How to run (scratch module outside /repo and /verif):
//
//	export GOFLAGS=-mod=mod GOPROXY=off GOSUMDB=off GOTOOLCHAIN=local
//	mkdir -p /tmp/strs/gen && cd /tmp/strs && printf 'module scratch\ngo 1.16\nrequire github.com/blues/jsonata-go v0.0.0\nreplace github.com/blues/jsonata-go => /repo\n' > go.mod
//	cp /verif/harness/vectors/strings/main.go gen/main.go && go run ./gen -out /tmp/strs/out
//	cd /tmp/strs/out && coqc -Q /verif/coq JV -Q . SV StrCheck.v
//	for f in shard_*.v; do timeout 900 coqc -Q /verif/coq JV -Q . SV $f | tr -d '\n '; echo " $f"; done
//
// Every shard must print `bad=[]:list(string*liststring*string)` (plus nothing else).
//
// Wire format of a case: (function id, list of encoded arguments, encoded expected outcome).
//   string      -> lower-case hex of its bytes
//   int         -> decimal
//   optional    -> "N" when unset, else "S"+encoding
//   []string    -> "L" followed by ","+hex for every element
//   outcome     -> "O"+hex (string), "Z"+decimal, "B0"/"B1", "L…" (list), "E" (Go error), "P" (panic)
package main

import (
	"encoding/hex"
	"flag"
	"fmt"
	"math"
	"math/rand"
	"os"
	"path/filepath"
	"reflect"
	"sort"
	"strconv"
	"strings"
	"unicode"
	"unicode/utf8"

	"github.com/blues/jsonata-go/jlib"
	"github.com/blues/jsonata-go/jtypes"
)

type vec struct {
	fn   string
	args []string
	exp  string
}

var vecs []vec
var caseRunes = map[rune]bool{}

func hx(s string) string { return hex.EncodeToString([]byte(s)) }
func encList(l []string) string {
	var b strings.Builder
	b.WriteString("L")
	for _, s := range l {
		b.WriteString(",")
		b.WriteString(hx(s))
	}
	return b.String()
}
func optI(set bool, n int) (jtypes.OptionalInt, string) {
	if !set {
		return jtypes.OptionalInt{}, "N"
	}
	return jtypes.NewOptionalInt(n), "S" + strconv.Itoa(n)
}
func optS(set bool, s string) (jtypes.OptionalString, string) {
	if !set {
		return jtypes.OptionalString{}, "N"
	}
	return jtypes.NewOptionalString(s), "S" + hx(s)
}

// guard runs f; a panic becomes the outcome "P".
func guard(f func() string) (out string) {
	defer func() {
		if r := recover(); r != nil {
			out = "P"
		}
	}()
	return f()
}
func okS(s string, err error) string {
	if err != nil {
		return "E"
	}
	return "O" + hx(s)
}
func add(fn string, args []string, f func() string) {
	vecs = append(vecs, vec{fn, args, guard(f)})
}

func sc(s string) jlib.StringCallable { return jlib.StringCallable(reflect.ValueOf(s)) }

// ---- the individual functions ----
func vLen(s string) {
	add("len", []string{hx(s)}, func() string { return "Z" + strconv.Itoa(utf8.RuneCountInString(s)) })
}
func vSub(s string, start int, set bool, n int) {
	o, e := optI(set, n)
	add("sub", []string{hx(s), strconv.Itoa(start), e}, func() string { return "O" + hx(jlib.Substring(s, start, o)) })
}
func vBefore(s, c string) {
	add("before", []string{hx(s), hx(c)}, func() string { return "O" + hx(jlib.SubstringBefore(s, c)) })
}
func vAfter(s, c string) {
	add("after", []string{hx(s), hx(c)}, func() string { return "O" + hx(jlib.SubstringAfter(s, c)) })
}
func vPad(s string, w int, set bool, ch string) {
	o, e := optS(set, ch)
	add("pad", []string{hx(s), strconv.Itoa(w), e}, func() string { return "O" + hx(jlib.Pad(s, w, o)) })
}
func vTrim(s string) {
	add("trim", []string{hx(s)}, func() string { return "O" + hx(jlib.Trim(s)) })
}
func vContains(s, p string) {
	add("contains", []string{hx(s), hx(p)}, func() string {
		b, err := jlib.Contains(s, sc(p))
		if err != nil {
			return "E"
		}
		if b {
			return "B1"
		}
		return "B0"
	})
}
func vSplit(s, sep string, set bool, n int) {
	o, e := optI(set, n)
	add("split", []string{hx(s), hx(sep), e}, func() string {
		l, err := jlib.Split(s, sc(sep), o)
		if err != nil {
			return "E"
		}
		return encList(l)
	})
}
func vJoin(l []string, set bool, sep string) {
	o, e := optS(set, sep)
	add("join", []string{encList(l), e}, func() string {
		vs := make([]string, len(l)) // non-nil even when empty
		copy(vs, l)
		return okS(jlib.Join(reflect.ValueOf(vs), o))
	})
}
func vReplace(s, p, r string, set bool, n int) {
	o, e := optI(set, n)
	add("replace", []string{hx(s), hx(p), hx(r), e}, func() string { return okS(jlib.Replace(s, sc(p), sc(r), o)) })
}
func vB64e(s string) {
	add("b64e", []string{hx(s)}, func() string { return okS(jlib.Base64Encode(s)) })
}
func vB64d(s string) {
	add("b64d", []string{hx(s)}, func() string { return okS(jlib.Base64Decode(s)) })
}
func vUrle(s string) {
	add("urle", []string{hx(s)}, func() string { return okS(jlib.EncodeURLComponent(s)) })
}
func vUrld(s string) {
	add("urld", []string{hx(s)}, func() string { return okS(jlib.DecodeURL(s)) })
}
func noteRunes(s string) {
	for _, r := range s {
		caseRunes[r] = true
	}
	caseRunes[utf8.RuneError] = true
}
func vUpper(s string) {
	noteRunes(s)
	add("upper", []string{hx(s)}, func() string { return "O" + hx(strings.ToUpper(s)) })
}
func vLower(s string) {
	noteRunes(s)
	add("lower", []string{hx(s)}, func() string { return "O" + hx(strings.ToLower(s)) })
}

// A one-match "regex": jlib.Replace(src, fakeRe, repl) = expandReplaceString(repl, match) because
// the single match covers all of src.
type fakeNext struct{}

func (fakeNext) Name() string    { return "next" }
func (fakeNext) ParamCount() int { return 0 }
func (fakeNext) Call([]reflect.Value) (reflect.Value, error) {
	return reflect.Value{}, nil
}

type fakeRe struct {
	m      string
	groups []string
}

func (fakeRe) Name() string    { return "re" }
func (fakeRe) ParamCount() int { return 1 }
func (f fakeRe) Call(argv []reflect.Value) (reflect.Value, error) {
	s := argv[0].String()
	g := make([]string, len(f.groups))
	copy(g, f.groups)
	return reflect.ValueOf(map[string]interface{}{
		"match": f.m, "start": 0.0, "end": float64(len(s)), "groups": g, "next": jtypes.Callable(fakeNext{}),
	}), nil
}
func vExpand(repl, m string, groups []string) {
	add("expand", []string{hx(repl), hx(m), encList(groups)}, func() string {
		re := jlib.StringCallable(reflect.ValueOf(jtypes.Callable(fakeRe{m, groups})))
		return okS(jlib.Replace(m, re, sc(repl), jtypes.OptionalInt{}))
	})
}

// ---- input families ----
var alphabet = []string{"a", "b", " ", ",", "é", "€", "😀", "\n", "\u00a0", "%", "+", "="}

func allStrings(maxLen int) []string {
	res := []string{""}
	prev := []string{""}
	for l := 1; l <= maxLen; l++ {
		var cur []string
		for _, p := range prev {
			for _, a := range alphabet {
				cur = append(cur, p+a)
			}
		}
		res = append(res, cur...)
		prev = cur
	}
	return res
}

// deterministic sub-sampling of large products
var hctr uint64

func pick(rate uint64) bool {
	hctr = hctr*6364136223846793005 + 1442695040888963407
	return (hctr>>33)%rate == 0
}

var extraRunes = []rune{'\t', '\v', '\f', '\r', 0x85, 0x1680, 0x2000, 0x200a, 0x200b, 0x2028, 0x2029, 0x202f,
	0x205f, 0x3000, 0xfeff, 'ß', 'ǅ', 'ı', 'İ', 'ſ', 'σ', 'ς', 'Σ', 0x212a, 'Z', 'z', 'A', 'Ä', 'ä', 'ÿ', 'Ÿ', 'я', 'Я',
	0xfffd, '$', '0', '1', '9', '-', '_', '.', '~', '/', '&', 0x7f, 0, 0x10ffff, 0xd7ff, 0xe000, 0x7ff, 0x800, 0xffff, 0x10000,
	0x10400, 0x10428, 'ᾳ', 'ǆ', 'Ǆ'}

func randString(rng *rand.Rand, maxRunes int) string {
	n := rng.Intn(maxRunes + 1)
	var b strings.Builder
	for i := 0; i < n; i++ {
		switch rng.Intn(4) {
		case 0, 1:
			b.WriteString(alphabet[rng.Intn(len(alphabet))])
		case 2:
			b.WriteRune(extraRunes[rng.Intn(len(extraRunes))])
		default:
			r := rune(rng.Intn(0x2000))
			if rng.Intn(8) == 0 {
				r = rune(rng.Intn(0x110000))
			}
			if r >= 0xd800 && r < 0xe000 {
				r = 'x'
			}
			b.WriteRune(r)
		}
	}
	return b.String()
}

var badBytes = []byte{0x80, 0xbf, 0xc3, 0xa9, 0xe2, 0x82, 0xac, 0xf0, 0x9f, 0x98, 0x80, 0xff, 0xed, 0xa0, 0xc0, 0xc1,
	0xf4, 0x90, 0xf5, 0xe0, 0x9f, 0xc2, 0x85, 0xa0, 0xef, 0xbf, 0xbd, 'a', 'b', ' ', '\n', ',', 'A', 'z', '%', '+', '=', '$', '1', '\t', 0x0b}

func randBytes(rng *rand.Rand, maxLen int) string {
	n := rng.Intn(maxLen + 1)
	b := make([]byte, n)
	for i := range b {
		if rng.Intn(6) == 0 {
			b[i] = byte(rng.Intn(256))
		} else {
			b[i] = badBytes[rng.Intn(len(badBytes))]
		}
	}
	return string(b)
}

func subOf(rng *rand.Rand, s string) string {
	// a random byte-substring of s (so that separators actually occur), cut at rune starts mostly
	if len(s) == 0 {
		return ""
	}
	i := rng.Intn(len(s))
	j := i + 1 + rng.Intn(3)
	if j > len(s) {
		j = len(s)
	}
	if rng.Intn(3) > 0 {
		for i > 0 && !utf8.RuneStart(s[i]) {
			i--
		}
		for j < len(s) && !utf8.RuneStart(s[j]) {
			j++
		}
	}
	return s[i:j]
}

func main() {
	out := flag.String("out", "out", "output directory")
	shard := flag.Int("shard", 3000, "cases per Coq file")
	flag.Parse()

	s3 := allStrings(3)
	s2 := allStrings(2)
	s1 := allStrings(1)
	ints := []int{}
	for i := -8; i <= 8; i++ {
		ints = append(ints, i)
	}

	// --- exhaustive / structured part ---
	for _, s := range s3 {
		vLen(s)
		vTrim(s)
		vB64e(s)
		vB64d(s)
		vUrle(s)
		vUrld(s)
		vUpper(s)
		vLower(s)
		vB64d(guardEnc(s))
		vUrld(guardUrl(s))
	}
	// substring: all of (len<=2) x starts x lengths; len 3 sampled
	for _, s := range s3 {
		full := utf8.RuneCountInString(s) <= 2
		for _, st := range ints {
			if full || pick(6) {
				vSub(s, st, false, 0)
			}
			for _, n := range ints {
				if full || pick(24) {
					vSub(s, st, true, n)
				}
			}
		}
	}
	// before / after / contains: s3 x s1 full, s3 x (len 2) sampled
	for _, s := range s3 {
		for _, c := range s2 {
			if utf8.RuneCountInString(c) <= 1 || pick(20) {
				vBefore(s, c)
				vAfter(s, c)
				vContains(s, c)
			}
		}
	}
	// pad: s1 x widths x (unset + s2) full; longer s sampled
	for _, s := range s3 {
		full := utf8.RuneCountInString(s) <= 1
		for _, w := range ints {
			if full || pick(8) {
				vPad(s, w, false, "")
			}
			for _, ch := range s2 {
				if full || pick(600) {
					vPad(s, w, true, ch)
				}
			}
		}
	}
	// split: s3 x s1 x {unset, -8..8} sampled; join of the result
	for _, s := range s3 {
		for _, c := range s2 {
			short := utf8.RuneCountInString(c) <= 1
			if short && utf8.RuneCountInString(s) <= 2 || pick(40) {
				vSplit(s, c, false, 0)
				l, _ := jlib.Split(s, sc(c), jtypes.OptionalInt{})
				vJoin(l, true, c)
			}
			for _, n := range ints {
				if pick(300) {
					vSplit(s, c, true, n)
				}
			}
		}
	}
	// join: lists of up to 3 short strings
	for _, a := range s1 {
		vJoin([]string{a}, false, "")
		for _, b := range s1 {
			for _, sep := range s1 {
				if pick(3) {
					vJoin([]string{a, b}, true, sep)
					vJoin([]string{a, b, a}, true, sep+"é")
				}
			}
		}
	}
	vJoin([]string{}, false, "")
	vJoin([]string{}, true, ",")
	// replace: s3 x s1 (pattern) x s1 (replacement) sampled, limits
	for _, s := range s3 {
		for _, p := range s2 {
			for _, r := range s1 {
				if utf8.RuneCountInString(s) <= 2 && utf8.RuneCountInString(p) <= 1 && pick(3) || pick(150) {
					vReplace(s, p, r, false, 0)
				}
				if pick(200) {
					vReplace(s, p, r+"é", true, ints[int(hctr>>40)%len(ints)])
				}
			}
		}
	}
	// expandReplaceString
	ealpha := []string{"$", "0", "1", "2", "9", "a", "é"}
	gcfg := [][]string{{}, {"G"}, {"G", "H"}, {"a", "b", "c", "d", "e", "f", "g", "h", "i", "j", "k", "l"}}
	var estr []string
	estr = append(estr, "")
	prev := []string{""}
	for l := 1; l <= 5; l++ {
		var cur []string
		for _, p := range prev {
			for _, a := range ealpha {
				cur = append(cur, p+a)
			}
		}
		estr = append(estr, cur...)
		prev = cur
	}
	for _, r := range estr {
		for _, g := range gcfg {
			if len(r) <= 3 || pick(12) {
				vExpand(r, "<M>", g)
			}
		}
	}
	for _, r := range []string{"$9999999999999999999", "$9223372036854775808", "$9223372036854775807", "$18446744073709551617",
		"$18446744073709551618x", "$123456789012345678901234567890", "a$1b$2c$3d$10e$11f$12g$13h$120", "$", "$$", "$$$", "$é", "é$1é", "$01", "$10", "$100"} {
		for _, g := range gcfg {
			vExpand(r, "mm", g)
		}
	}
	// pad / substring with extreme integers (no case here allocates: they return early or panic)
	big := []int{math.MinInt64, math.MinInt64 + 1, math.MaxInt64, -math.MaxInt64, 1 << 50, -(1 << 50), 1 << 62, -(1 << 62), (1 << 48) + 1000}
	for _, w := range big {
		for _, s := range []string{"", "a", "é€", "😀😀😀"} {
			vSub(s, w, false, 0)
			vSub(s, w, true, 2)
			vSub(s, 1, true, w)
			vSub(s, -1, true, w)
			if w == math.MinInt64 && s != "" || w != math.MinInt64 {
				// (every one of these panics or returns s: nothing is allocated)
				vPad(s, w, false, "")
				vPad(s, w, true, "ab")
				vPad(s, w, true, "€")
			}
			vPad("", math.MinInt64, true, s)
			vSplit(s, ",", true, w)
			vReplace(s, "a", "b", true, w)
		}
	}

	// --- random valid UTF-8, up to 40 runes ---
	rng := rand.New(rand.NewSource(20260923))
	for i := 0; i < 1500; i++ {
		s := randString(rng, 40)
		c := subOf(rng, s)
		if rng.Intn(4) == 0 {
			c = randString(rng, 2)
		}
		ch := randString(rng, 3)
		st := rng.Intn(90) - 45
		n := rng.Intn(90) - 45
		vLen(s)
		vSub(s, st, rng.Intn(3) > 0, n)
		vBefore(s, c)
		vAfter(s, c)
		vContains(s, c)
		vPad(s, st, rng.Intn(3) > 0, ch)
		vPad(ch, n, true, c)
		vTrim(s)
		vTrim(" \t" + s + "\u3000\n ")
		vSplit(s, c, rng.Intn(2) == 0, rng.Intn(12)-2)
		l, _ := jlib.Split(s, sc(c), jtypes.OptionalInt{})
		vJoin(l, true, c)
		vSplit(s, "", rng.Intn(2) == 0, rng.Intn(50)-2)
		vReplace(s, c, ch, rng.Intn(2) == 0, rng.Intn(6)-1)
		vB64e(s)
		vB64d(s)
		e, _ := jlib.Base64Encode(s)
		vB64d(e)
		vB64d(mutate(rng, e))
		vUrle(s)
		u, _ := jlib.EncodeURLComponent(s)
		vUrld(u)
		vUrld(mutate(rng, u))
		vUrld(s)
		vUpper(s)
		vLower(s)
		vExpand(s, c, l)
	}
	// --- random byte strings (invalid UTF-8) ---
	for i := 0; i < 1500; i++ {
		s := randBytes(rng, 24)
		c := subOf(rng, s)
		if rng.Intn(4) == 0 {
			c = randBytes(rng, 2)
		}
		ch := randBytes(rng, 3)
		st := rng.Intn(60) - 30
		n := rng.Intn(60) - 30
		vLen(s)
		vSub(s, st, rng.Intn(3) > 0, n)
		vBefore(s, c)
		vAfter(s, c)
		vContains(s, c)
		vPad(s, st, rng.Intn(3) > 0, ch)
		vTrim(s)
		vSplit(s, c, rng.Intn(2) == 0, rng.Intn(12)-2)
		l, _ := jlib.Split(s, sc(c), jtypes.OptionalInt{})
		vJoin(l, true, c)
		vSplit(s, "", rng.Intn(2) == 0, rng.Intn(30)-2)
		vReplace(s, c, ch, rng.Intn(2) == 0, rng.Intn(6)-1)
		vB64e(s)
		vB64d(s)
		e, _ := jlib.Base64Encode(s)
		vB64d(e)
		vB64d(mutate(rng, e))
		vUrle(s)
		u, _ := jlib.EncodeURLComponent(s)
		vUrld(u)
		vUrld(mutate(rng, u))
		vUrld(s)
		vUpper(s)
		vLower(s)
		vExpand(s, c, l)
	}
	// every single byte, every 2-byte string over a small set: base64 / url / trim / case
	for b := 0; b < 256; b++ {
		s := string([]byte{byte(b)})
		vB64e(s)
		vB64d("QQ" + s + "=")
		vB64d("Q" + s + "==")
		vUrle(s)
		vUrld(s)
		vUrld("%" + s + "0")
		vUrld("%4" + s)
		vTrim(s + "x" + s)
		vTrim("x" + s)
		vUpper(s)
		vLower(s)
		vUpper(s + "é")
		vLower("É" + s)
		vLen(s)
	}
	for _, s := range []string{"QUJD", "QUJDRA==", "QUJDREU=", "QUJDRA=", "QUJDRA", "QUJDRA===", "QUJDRA==\n", "QUJDRA=\n=", "QU\nJD", "\n", "=", "==", "A", "AA", "AAA", "AA=A", "AA==AAAA", "AAA=AAAA", "AAAA=", "AAAAAAAAAAAA", "AAAAAAAA\r\nAAAA", "AAAAAAA-", "QUJDRE\rU=", "QUJDREU\n=\n", "QR==", "QUF="} {
		vB64d(s)
	}

	if len(vecs) < 50000 {
		fmt.Fprintln(os.Stderr, "too few vectors:", len(vecs))
		os.Exit(1)
	}
	emit(*out, *shard)
	fmt.Println("vectors:", len(vecs))
	cnt := map[string]int{}
	for _, v := range vecs {
		cnt[v.fn]++
		if v.exp == "P" {
			cnt["(panics)"]++
		}
		if v.exp == "E" {
			cnt["(errors)"]++
		}
	}
	keys := []string{}
	for k := range cnt {
		keys = append(keys, k)
	}
	sort.Strings(keys)
	for _, k := range keys {
		fmt.Printf("  %-10s %d\n", k, cnt[k])
	}
}

func guardEnc(s string) string { e, _ := jlib.Base64Encode(s); return e }
func guardUrl(s string) string {
	e, err := jlib.EncodeURLComponent(s)
	if err != nil {
		return "%EF%BF%BD"
	}
	return e
}

func mutate(rng *rand.Rand, s string) string {
	if len(s) == 0 {
		return "="
	}
	b := []byte(s)
	i := rng.Intn(len(b))
	switch rng.Intn(5) {
	case 0:
		b[i] = "=\n\r%+-_ Gg"[rng.Intn(10)]
	case 1:
		b = append(b[:i], b[i+1:]...)
	case 2:
		b = append(b[:i], append([]byte{"=\n\r%+"[rng.Intn(5)]}, b[i:]...)...)
	case 3:
		b = b[:i]
	default:
		b = append(b, "=\n\rA%"[rng.Intn(5)])
	}
	return string(b)
}

const preamble = `(* generated by /verif/harness/vectors/strings/main.go — do not edit *)
From JV Require Import Base.Bytes Base.Utf8 Base.Res Model.LibString.
Open Scope string_scope.

Definition dhex (s : string) : string := match string_of_hex s with Some x => x | None => "?" end.
Definition dint (s : string) : Z := match Z_of_dec s with Some z => z | None => 0%%Z end.
Definition dopt_int (s : string) : option Z :=
  match s with String "S" r => Some (dint r) | _ => None end.
Definition dopt_str (s : string) : option string :=
  match s with String "S" r => Some (dhex r) | _ => None end.
Definition dlist (s : string) : list string :=
  match s with
  | String "L" (String "," r) => map dhex (ssplit_char "," r)
  | _ => []
  end.
Definition elist (l : list string) : string :=
  String "L" (sconcat (map (fun x => String "," (hex_of_string x)) l)).
Definition eres (r : lres string) : string :=
  match r with LOk s => String "O" (hex_of_string s) | LErr _ => "E" | LPanic _ => "P" | LUndef => "U" | LFuel => "F" end.
Definition eresl (r : lres (list string)) : string :=
  match r with LOk l => elist l | LErr _ => "E" | LPanic _ => "P" | LUndef => "U" | LFuel => "F" end.

Definition upper_tbl : list (Z * Z) := [%s]%%Z.
Definition lower_tbl : list (Z * Z) := [%s]%%Z.
Fixpoint lookup (t : list (Z * Z)) (r : Z) : Z :=
  match t with [] => r | (k, v) :: t' => if (k =? r)%%Z then v else lookup t' r end.

Definition run (f : string) (a : list string) : string :=
  let s0 := dhex (nth 0 a "") in
  let a1 := nth 1 a "" in let a2 := nth 2 a "" in let a3 := nth 3 a "" in
  if seqb f "len" then String "Z" (string_of_Z (LibString.length s0))
  else if seqb f "sub" then eres (substring s0 (dint a1) (dopt_int a2))
  else if seqb f "before" then eres (LOk (substring_before s0 (dhex a1)))
  else if seqb f "after" then eres (LOk (substring_after s0 (dhex a1)))
  else if seqb f "pad" then eres (pad s0 (dint a1) (dopt_str a2))
  else if seqb f "trim" then eres (LOk (trim s0))
  else if seqb f "contains" then (if contains_str s0 (dhex a1) then "B1" else "B0")
  else if seqb f "split" then eresl (split_str s0 (dhex a1) (dopt_int a2))
  else if seqb f "join" then eres (LOk (join (dlist (nth 0 a "")) (dopt_str a1)))
  else if seqb f "replace" then eres (replace s0 (dhex a1) (dhex a2) (dopt_int a3))
  else if seqb f "b64e" then eres (LOk (base64_encode s0))
  else if seqb f "b64d" then eres (base64_decode s0)
  else if seqb f "urle" then eres (encode_url_component s0)
  else if seqb f "urld" then eres (decode_url s0)
  else if seqb f "upper" then eres (LOk (uppercase (lookup upper_tbl) s0))
  else if seqb f "lower" then eres (LOk (lowercase (lookup lower_tbl) s0))
  else if seqb f "expand" then eres (expand_replace_string s0 (dhex a1) (dlist a2))
  else "?".

Definition check (c : string * list string * string) : bool :=
  let '(f, a, e) := c in seqb (run f a) e.
`

func emit(dir string, per int) {
	if err := os.MkdirAll(dir, 0o755); err != nil {
		panic(err)
	}
	var rs []int
	for r := range caseRunes {
		rs = append(rs, int(r))
	}
	sort.Ints(rs)
	var up, lo []string
	for _, r := range rs {
		if u := unicode.ToUpper(rune(r)); int(u) != r {
			up = append(up, fmt.Sprintf("(%d,%d)", r, u))
		}
		if l := unicode.ToLower(rune(r)); int(l) != r {
			lo = append(lo, fmt.Sprintf("(%d,%d)", r, l))
		}
	}
	must(os.WriteFile(filepath.Join(dir, "StrCheck.v"), []byte(fmt.Sprintf(preamble, strings.Join(up, ";"), strings.Join(lo, ";"))), 0o644))
	for i, n := 0, 0; i < len(vecs); i, n = i+per, n+1 {
		j := i + per
		if j > len(vecs) {
			j = len(vecs)
		}
		var b strings.Builder
		b.WriteString("From JV Require Import Base.Bytes.\nFrom SV Require Import StrCheck.\nOpen Scope string_scope.\nDefinition cases : list (string * list string * string) := [\n")
		for k, v := range vecs[i:j] {
			if k > 0 {
				b.WriteString(";\n")
			}
			q := make([]string, len(v.args))
			for x, a := range v.args {
				q[x] = `"` + a + `"`
			}
			fmt.Fprintf(&b, `("%s",[%s],"%s")`, v.fn, strings.Join(q, ";"), v.exp)
		}
		b.WriteString("].\nDefinition bad := Eval vm_compute in filter (fun c => negb (check c)) cases.\nPrint bad.\n")
		must(os.WriteFile(filepath.Join(dir, fmt.Sprintf("shard_%03d.v", n)), []byte(b.String()), 0o644))
	}
}

func must(err error) {
	if err != nil {
		panic(err)
	}
}
