// Test-vector generator for /verif/coq/Base/Decimal.v (Gallina re-implementation of the
// strconv / fmt / encoding/json number handling used by jsonata-go).
//
// How to run (go1.23.5; only the standard library is needed):
//
//	export GOFLAGS=-mod=mod GOPROXY=off GOSUMDB=off GOTOOLCHAIN=local
//	mkdir -p /tmp/decvec/out && cp /verif/harness/vectors/decimal/main.go /tmp/decvec/ && cd /tmp/decvec
//	printf 'module scratch\ngo 1.16\n' > go.mod
//	go run main.go /tmp/decvec/out            # optional 2nd arg: random seed (default 1)
//	cd /tmp/decvec/out && ls *.v | xargs -P 12 -I{} sh -c 'timeout 900 coqc -Q /verif/coq JV {} > {}.log 2>&1 || echo FAIL {}'
//	grep -L "bad = \[\]" *.log      # must print nothing; every file also ends in "Goal bad = []. reflexivity."
//	rm -rf /tmp/decvec
//
// Every shard (about 1000 cases) is a Coq file of the form
//
//	Definition cases := [ (input..., expected) ; ... ].
//	Definition bad := Eval vm_compute in filter (fun c => negb (check c)) cases.  Print bad.
//	Goal bad = []. reflexivity. Qed.
//
// Shard families:
//
//	pf_*   strconv.ParseFloat(s, 64)             (input as hex bytes, kind 0 ok / 1 ErrRange / 2 ErrSyntax, Float64bits)
//	pfdev  documented deviations of parse_float   (inf/nan/hex spellings and digit-separating underscores:
//	       Go accepts, the model says PFSyntax)
//	fm_*   FormatFloat(x,'g'|'e'|'f',-1,64), json.Marshal(x), and the shortest (digits, dp)
//	fx_*   FormatFloat(x,'f',prec,64)
//	it_*   strconv.FormatInt / strconv.Atoi
package main

import (
	"encoding/hex"
	"encoding/json"
	"fmt"
	"math"
	"math/big"
	"math/rand"
	"os"
	"path/filepath"
	"strconv"
	"strings"
)

var rng *rand.Rand

const shardSize = 1000

const header = `From JV.Base Require Import Bytes F64 Decimal.
Open Scope Z_scope.
Open Scope string_scope.
`

func writeShards(dir, prefix, checkDef string, cases []string) {
	n := 0
	for i := 0; i < len(cases); i += shardSize {
		j := i + shardSize
		if j > len(cases) {
			j = len(cases)
		}
		var b strings.Builder
		b.WriteString(header)
		b.WriteString(checkDef)
		b.WriteString("Definition cases := [\n")
		b.WriteString(strings.Join(cases[i:j], ";\n"))
		b.WriteString("\n].\n")
		b.WriteString("Definition bad := Eval vm_compute in filter (fun c => negb (check c)) cases.\nPrint bad.\n")
		b.WriteString("Goal bad = []. Proof. reflexivity. Qed.\n")
		b.WriteString("Eval vm_compute in List.length cases.\n")
		name := filepath.Join(dir, fmt.Sprintf("%s_%03d.v", prefix, n))
		if err := os.WriteFile(name, []byte(b.String()), 0o644); err != nil {
			panic(err)
		}
		n++
	}
	fmt.Printf("%s: %d cases in %d shards\n", prefix, len(cases), n)
}

// ---------------------------------------------------------------- ParseFloat

const pfCheck = `Definition check (c : string * Z * Z) : bool :=
  let '(h, kind, bits) := c in
  match string_of_hex h with
  | None => false
  | Some s =>
      match parse_float s with
      | PFOk x => Z.eqb kind 0 && Z.eqb (bits_of_f x) bits && valid_f64 x
      | PFRange x => Z.eqb kind 1 && Z.eqb (bits_of_f x) bits
      | PFSyntax => Z.eqb kind 2
      end
  end.
`

func pfCase(s string) string {
	f, err := strconv.ParseFloat(s, 64)
	kind := 0
	if err != nil {
		ne := err.(*strconv.NumError)
		switch ne.Err {
		case strconv.ErrRange:
			kind = 1
		case strconv.ErrSyntax:
			kind = 2
		default:
			panic(err)
		}
	}
	bits := math.Float64bits(f)
	if kind == 2 {
		bits = 0
	}
	if math.IsNaN(f) {
		panic("NaN from ParseFloat: " + s)
	}
	return fmt.Sprintf("(\"%s\", %d, %d)", hex.EncodeToString([]byte(s)), kind, bits)
}

func randDigits(n int) string {
	b := make([]byte, n)
	for i := range b {
		b[i] = byte('0' + rng.Intn(10))
	}
	return string(b)
}

func randSign() string {
	switch rng.Intn(6) {
	case 0:
		return "-"
	case 1:
		return "+"
	}
	return ""
}

func randExp() string {
	var e int
	switch rng.Intn(6) {
	case 0:
		return ""
	case 1, 2:
		e = rng.Intn(61) - 30
	case 3, 4:
		e = rng.Intn(701) - 350
	default:
		e = rng.Intn(5001) - 2500
	}
	ch := "e"
	if rng.Intn(4) == 0 {
		ch = "E"
	}
	s := strconv.Itoa(e)
	if e >= 0 && rng.Intn(2) == 0 {
		s = "+" + s
	}
	if rng.Intn(10) == 0 {
		// leading zeros in the exponent
		if s[0] == '+' || s[0] == '-' {
			s = s[:1] + "00" + s[1:]
		} else {
			s = "00" + s
		}
	}
	return ch + s
}

func randDecimal() string {
	n := 1 + rng.Intn(40)
	d := randDigits(n)
	switch rng.Intn(3) {
	case 0: // integer
	case 1:
		p := rng.Intn(n + 1)
		d = d[:p] + "." + d[p:]
	default:
		d = d[:1] + "." + d[1:]
	}
	return randSign() + d + randExp()
}

// exact decimal expansion of num * 2^exp (num > 0)
func exactDecimal(num *big.Int, exp int) string {
	r := new(big.Rat)
	if exp >= 0 {
		r.SetInt(new(big.Int).Lsh(num, uint(exp)))
		return r.FloatString(0)
	}
	r.SetFrac(num, new(big.Int).Lsh(big.NewInt(1), uint(-exp)))
	s := r.FloatString(-exp)
	s = strings.TrimRight(s, "0")
	s = strings.TrimSuffix(s, ".")
	return s
}

// decimal strings exactly at, just above and just below the midpoint between x and the
// next float above x
func halfwayCases(x float64) []string {
	bits := math.Float64bits(x)
	exp := int(bits>>52) & 0x7ff
	mant := bits & (1<<52 - 1)
	if exp == 0x7ff {
		return nil
	}
	if exp == 0 {
		exp = 1
	} else {
		mant |= 1 << 52
	}
	e := exp - 1075
	mid := new(big.Int).SetUint64(mant)
	mid.Lsh(mid, 1).Add(mid, big.NewInt(1)) // 2m+1 at exponent e-1
	s := exactDecimal(mid, e-1)
	if !strings.Contains(s, ".") {
		s += ".0"
	}
	// below: exact value of (2m+1)*2^k - 1 at a finer exponent
	lo := new(big.Int).Lsh(mid, 12)
	lo.Sub(lo, big.NewInt(1))
	below := exactDecimal(lo, e-1-12)
	out := []string{s, s + "1", s + "000000000000000000001", below}
	// the same numbers written with an exponent
	sh := rng.Intn(40) - 20
	out = append(out, s+"e"+strconv.Itoa(sh), shiftPoint(s, 7)+"e-7", shiftPoint(s+"1", 3)+"e-3")
	if x != 0 {
		out = append(out, "-"+s)
	}
	return out
}

// moves the decimal point of a plain decimal string k places to the right (k >= 0)
func shiftPoint(s string, k int) string {
	i := strings.IndexByte(s, '.')
	ip, fp := s[:i], s[i+1:]
	for len(fp) < k {
		fp += "0"
	}
	return ip + fp[:k] + "." + fp[k:]
}

func randFloatBits() uint64 {
	switch rng.Intn(8) {
	case 0: // subnormal
		return rng.Uint64() & (1<<52 - 1)
	case 1: // near 1
		return (uint64(1023-30+rng.Intn(90)) << 52) | rng.Uint64()&(1<<52-1)
	case 2: // few mantissa bits
		return (uint64(rng.Intn(2047)) << 52) | (rng.Uint64()&(1<<52-1))&^(1<<uint(rng.Intn(52))-1)
	}
	return rng.Uint64() &^ (1 << 63)
}

func genParseFloat(dir string) {
	var cs []string
	fixed := []string{
		"1.7976931348623157e308", "1.7976931348623158e308", "1.7976931348623159e308", "2e308", "1e309", "1e400", "1e4000",
		"17976931348623157e292", "179769313486231570814527423731704356798070567525844996598917476803157260780028538760589558632766878171540458953514382464234321326889464182768467546703537516986049910576551282076245490090389328944075868508455133942304583236903222948165808559332123348274797826204144723168738177180919299881250404026184124858368",
		"179769313486231580793728971405303415079934132710037826936173778980444968292764750946649017977587207096330286416692887910946555547851940402630657488671505820681908902000708383676273854845817711531764475730270069855571366959622842914819860834936475292719074168444365510704342711559699508093042880177904174497791",
		"179769313486231580793728971405303415079934132710037826936173778980444968292764750946649017977587207096330286416692887910946555547851940402630657488671505820681908902000708383676273854845817711531764475730270069855571366959622842914819860834936475292719074168444365510704342711559699508093042880177904174497792",
		"4.9e-324", "5e-324", "4.9406564584124654e-324", "2.4703282292062327e-324", "2.4703282292062328e-324", "2.47032822920623272e-324",
		"2.4703282292062327208051355972712752e-324", "2.4703282292062327208051355972712753e-324",
		"2.470328229206232720882843964341106861825299013071623822127928412503377536351043759326499181808179961898982823477228588654633283551779698981993873980053909390631503565951557022639229085839244910518443593180284993653615250031937045767824921936562366986365848075700158576926990370631192827955855133292783433840935197801553124659726357957462276646527282722005637400648549997709659947045402082816622623785739345073633900796776193057750674017632467360096895134053553745851666113422376667860416215968046191446729184030053005753084904876539171138659164623952491262365388187963623937328042389101867234849766823508986338858792562830275599565752445550725518931369083625477918694866799496832404970582102851318545139621383772282614543769341253209859132766723632812201525082e-324",
		"7.4109846876186981626485318930233205854758970392148714663837852375101326090531312779794975454245398856969484704316857659638998506553390969459816219401617281718945106978546710679176872575177347315553307795408549809608457500958111373034747658096871009590975442271004757307809711118935784838675653998783503015228055934046593739791790738723868299395818481660169122019456499931289798411362062484498678713572180352209017023903285791732520220528974020802906854021606612375549983402671300035812486479041385743401875520901590172592547146296175134159774938718574737870961645638908718119841271673056017045493004705269590165763776884908267986972573366521765567941072508764337560846003984904972149117463085539556354188641513168478436313080237596295773983001708984375e-324",
		"2.2250738585072014e-308", "2.2250738585072011e-308", "2.225073858507201e-308", "2.2250738585072009e-308", "2.2250738585072012e-308",
		"1e-323", "1e-324", "1e-325", "1e-400", "1e-4000", "0e400", "0e-400", "0e999999999", "1e999999999", "1e-999999999", "-1e-999999999", "-1e999999999",
		"0.000000000000000000000000000000000000000000000000000000000000000000000000000000000000000000000000000000000000000000000000000000000000000000000000000000000000000000000000000000000000000000000000000000000000000000000000000000000000000000000000000000000000000000000000000000000000000000000000000000000000000000000000000000000000000000000000000000000000000001e400",
		"1000000000000000000000000000000000000000000000000000000000000000000000000000000000000000000000000000000000000000000000000000000000000000000000000000000000000000000000000000000000000000000000000000000000000000000000000000000000000000000000000000000000000000000000000000000000000000000000000000000000000000000000000000000000000000000000000000000000000000000000e-400",
		"1e", "1e+", "1e-", ".", "", "+", "-", "1.e5", ".5e-2", "00012", "1_0", "0x10", "0x", "0x1", "1.", ".5", "1.5", "+.5", "-.5", "-1.", "1..5", "1.5.", "1e5e5", "1e5.5",
		"e5", ".e5", "+e5", "1 ", " 1", "1e 5", "1,5", "--1", "+-1", "1e--5", "1e+-5", "1E5", "1E+05", "1e0005", "0", "-0", "+0", "0.0", "-0.0", "-0e0", "0.000", "00", "-00.00e-00",
		"9007199254740993", "9007199254740992", "9007199254740991", "9007199254740994", "9007199254740995", "18014398509481985", "18014398509481986", "18014398509481987",
		"1e23", "8.5e22", "9.999999999999999e22", "0.1", "0.2", "0.3", "0.30000000000000004", "123456789012345678901234567890",
		"1e21", "1e-6", "1e-7", "1e22", "1e15", "1e16", "4503599627370496.5", "4503599627370497.5", "4503599627370495.5", "0.5", "1.5", "2.5",
		"100000000000000016777215", "100000000000000016777216", "100000000000000016777217",
		"\xef\xbc\x91", "1\x00", "١", "1f", "1d", "0b1", "0o7", "1p5", "infx", "1e5x",
	}
	// Go accepts digit-separating underscores ("1_0" = 10) although the documentation of
	// ParseFloat does not say so; the model answers PFSyntax (documented deviation).
	var dv []string
	addPf := func(s string) {
		if strings.Contains(s, "_") {
			if f, err := strconv.ParseFloat(s, 64); err == nil || err.(*strconv.NumError).Err == strconv.ErrRange {
				dv = append(dv, fmt.Sprintf("(\"%s\", 2, 0) (* Go: %q = %v *)", hex.EncodeToString([]byte(s)), s, f))
				return
			}
		}
		cs = append(cs, pfCase(s))
	}
	for _, s := range fixed {
		addPf(s)
	}
	// random decimals
	for i := 0; i < 14000; i++ {
		cs = append(cs, pfCase(randDecimal()))
	}
	// halfway cases around random doubles
	for i := 0; i < 900; i++ {
		var x float64
		switch {
		case i < 400: // moderate exponents: short strings
			x = math.Float64frombits((uint64(1023-70+rng.Intn(140)) << 52) | rng.Uint64()&(1<<52-1))
		case i < 500:
			x = float64(rng.Int63n(1 << 53))
		case i < 560: // subnormals and the subnormal/normal border
			x = math.Float64frombits(uint64(rng.Intn(40)))
		case i < 600:
			x = math.Float64frombits(1<<52 - 20 + uint64(rng.Intn(40)))
		case i < 640: // just below overflow
			x = math.Float64frombits(0x7fefffffffffffff - uint64(rng.Intn(20)))
		case i < 700: // powers of two (uneven neighbour spacing)
			x = math.Ldexp(1, rng.Intn(2000)-1000)
		default:
			x = math.Float64frombits(randFloatBits())
		}
		for _, s := range halfwayCases(x) {
			cs = append(cs, pfCase(s))
		}
	}
	// round trips of shortest and 17-digit representations
	for i := 0; i < 2000; i++ {
		x := math.Float64frombits(randFloatBits())
		if math.IsNaN(x) || math.IsInf(x, 0) {
			continue
		}
		cs = append(cs, pfCase(strconv.FormatFloat(x, 'e', -1, 64)))
		cs = append(cs, pfCase(strconv.FormatFloat(x, 'e', 16+rng.Intn(10), 64)))
		cs = append(cs, pfCase(strconv.FormatFloat(x, 'g', -1, 64)))
	}
	// mutated (mostly ill-formed) inputs; no letters that could spell inf/nan/hex floats
	alphabet := "+-.eE_ 0123456789,x"
	for i := 0; i < 2500; i++ {
		s := []byte(randDecimal())
		for k := 1 + rng.Intn(2); k > 0; k-- {
			p := rng.Intn(len(s) + 1)
			c := alphabet[rng.Intn(len(alphabet))]
			switch rng.Intn(3) {
			case 0: // insert
				s = append(s[:p], append([]byte{c}, s[p:]...)...)
			case 1: // replace
				if p < len(s) {
					s[p] = c
				}
			default: // delete
				if p < len(s) && len(s) > 1 {
					s = append(s[:p], s[p+1:]...)
				}
			}
		}
		str := string(s)
		low := strings.ToLower(str)
		if strings.Contains(low, "0x") {
			continue
		}
		addPf(str)
	}
	// spread the expensive cases (halfway strings with up to 1100 digits) over all shards
	rng.Shuffle(len(cs), func(i, j int) { cs[i], cs[j] = cs[j], cs[i] })
	writeShards(dir, "pf", pfCheck, cs)

	// documented deviations: Go accepts these, the model answers PFSyntax
	for _, s := range []string{"Inf", "+Inf", "-Inf", "inf", "INF", "Infinity", "-infinity", "NaN", "nan", "0x1p-2", "0x10p0", "0X1.8p1", "0x_1p0", "1_000.5", "1_0e1_0"} {
		f, err := strconv.ParseFloat(s, 64)
		if err != nil {
			panic("expected Go to accept " + s)
		}
		dv = append(dv, fmt.Sprintf("(\"%s\", 2, 0) (* Go: %v *)", hex.EncodeToString([]byte(s)), f))
	}
	writeShards(dir, "pfdev", pfCheck, dv)
}

// ---------------------------------------------------------------- shortest formatting

const fmCheck = `Definition check (c : Z * string * string * string * string * string * Z) : bool :=
  let '(bits, g, e, f, j, ds, dp) := c in
  let x := f_of_bits bits in
  seqb (format_float_g x) g && seqb (format_float_e x) e && seqb (format_float_f x) f &&
  seqb (format_json_number x) j &&
  (let '(ds', dp') := shortest_digits x in seqb ds' ds && Z.eqb dp' dp) &&
  (negb (is_finite x) || is_zero x || shortest_digits_ok x).
`

func fmCase(bits uint64) string {
	x := math.Float64frombits(bits)
	g := fmt.Sprintf("%g", x)
	if g != strconv.FormatFloat(x, 'g', -1, 64) {
		panic("fmt %g differs from FormatFloat g")
	}
	e := strconv.FormatFloat(x, 'e', -1, 64)
	f := strconv.FormatFloat(x, 'f', -1, 64)
	j := g
	ds, dp := "", 0
	if !math.IsNaN(x) && !math.IsInf(x, 0) {
		b, err := json.Marshal(x)
		if err != nil {
			panic(err)
		}
		j = string(b)
		if x != 0 {
			m := strings.TrimPrefix(e, "-")
			i := strings.IndexByte(m, 'e')
			ex, err := strconv.Atoi(m[i+1:])
			if err != nil {
				panic(err)
			}
			ds = strings.Replace(m[:i], ".", "", 1)
			dp = ex + 1
		}
	}
	return fmt.Sprintf("(%d, \"%s\", \"%s\", \"%s\", \"%s\", \"%s\", %d)", bits, g, e, f, j, ds, dp)
}

func genFormat(dir string) {
	var bs []uint64
	add := func(x float64) { bs = append(bs, math.Float64bits(x)) }
	addN := func(x float64) { // x, its neighbours and their negations
		add(x)
		add(-x)
		up, dn := x, x
		for i := 0; i < 2; i++ {
			up = math.Nextafter(up, math.Inf(1))
			dn = math.Nextafter(dn, math.Inf(-1))
			add(up)
			add(dn)
		}
	}
	// specials and fixed edge cases
	for _, b := range []uint64{0, 1 << 63, 0x7ff0000000000000, 0xfff0000000000000, 0x7ff8000000000001, 0xfff8000000000000, 0x7ff0000000000001,
		1, 2, 3, 0x000fffffffffffff, 0x0010000000000000, 0x0010000000000001, 0x7fefffffffffffff, 0x7feffffffffffffe, 0x7fe0000000000000} {
		bs = append(bs, b)
	}
	for _, x := range []float64{1 << 53, 1<<53 + 2, 1<<53 - 1, 1 << 52, 1<<52 + 1, 123456, 1234567, 1e8, 0.0001, 1e-5, 100000, 1e6, 1e21, 1e-6, 1e-7, 1e20, 999999.9999999999,
		0.1, 0.2, 0.3, 0.1 + 0.2, 1.0 / 3, 2.0 / 3, 5e-324, 1.7976931348623157e308, 2.2250738585072014e-308, 9.5367431640625e-07, 8.41e21, 2.0e23, 1e23, 8.5e22} {
		addN(x)
	}
	// powers of ten and their neighbours
	for k := -325; k <= 309; k++ {
		x, err := strconv.ParseFloat("1e"+strconv.Itoa(k), 64)
		if err != nil && !math.IsInf(x, 0) {
			panic(err)
		}
		if math.IsInf(x, 0) {
			continue
		}
		addN(x)
		for _, d := range []string{"2", "5", "9", "9.5", "9.9999999999999", "9.99999999999999", "9.999999999999999", "1.0000000000000002"} {
			y, _ := strconv.ParseFloat(d+"e"+strconv.Itoa(k), 64)
			if !math.IsInf(y, 0) {
				add(y)
			}
		}
	}
	// powers of two and their neighbours
	for k := -1074; k <= 1023; k++ {
		addN(math.Ldexp(1, k))
	}
	// random bit patterns
	for i := 0; i < 6000; i++ {
		bs = append(bs, rng.Uint64())
	}
	for i := 0; i < 2000; i++ {
		bs = append(bs, randFloatBits()|uint64(rng.Intn(2))<<63)
	}
	// integers
	for i := 0; i < 1500; i++ {
		v := rng.Int63() >> uint(rng.Intn(63))
		add(float64(v))
		if i%3 == 0 {
			add(-float64(v))
		}
	}
	for i := 0; i < 300; i++ {
		add(float64(i))
		add(float64(i) * 1000)
	}
	// decimal fractions with few digits
	for i := 0; i < 3500; i++ {
		n := 1 + rng.Intn(17)
		s := strings.TrimLeft(randDigits(n), "0")
		if s == "" {
			s = "1"
		}
		s += "e" + strconv.Itoa(rng.Intn(50)-30)
		x, _ := strconv.ParseFloat(s, 64)
		add(x)
	}
	// subnormals
	for i := 0; i < 800; i++ {
		bs = append(bs, rng.Uint64()&(1<<52-1)>>uint(rng.Intn(52)))
	}
	// around the JSON cutoffs 1e-6 and 1e21 and the %g cutoffs 1e-4, 1e6 (hmm: 1e21 for %v)
	for _, c := range []float64{1e-6, 1e21, 1e-4, 1e-5, 1e6, 1e5, 1e20, 1e22} {
		x := c
		y := c
		for i := 0; i < 20; i++ {
			x = math.Nextafter(x, 0)
			y = math.Nextafter(y, math.Inf(1))
			add(x)
			add(y)
		}
	}
	var cs []string
	for _, b := range bs {
		cs = append(cs, fmCase(b))
	}
	writeShards(dir, "fm", fmCheck, cs)
}

// ---------------------------------------------------------------- fixed precision

const fxCheck = `Definition check (c : Z * Z * string) : bool :=
  let '(bits, p, s) := c in seqb (format_float_fixed (f_of_bits bits) p) s.
`

func genFixed(dir string) {
	var cs []string
	add := func(x float64, p int) {
		cs = append(cs, fmt.Sprintf("(%d, %d, \"%s\")", math.Float64bits(x), p, strconv.FormatFloat(x, 'f', p, 64)))
	}
	for _, x := range []float64{0, math.Copysign(0, -1), math.Inf(1), math.Inf(-1), math.NaN(), 0.5, 1.5, 2.5, -0.5, -2.5, 0.25, 0.125, 0.375, 0.0625,
		1e21, 1e22, 1e23, 5e-324, 1.7976931348623157e308, 0.001, 0.07, 0.7, 0.05, 0.005, 0.015, 0.025, 1.005, 2.675, 1e-7, 999.9995, 9.995, 0.9999, 99.5, 0.95, 0.94, -0.0001} {
		for p := 0; p <= 6; p++ {
			add(x, p)
		}
		add(x, 20)
		add(x, 40)
	}
	add(5e-324, 1074)
	add(5e-324, 1080)
	add(5e-324, 1073)
	add(1.7976931348623157e308, 0)
	add(2.2250738585072014e-308, 1022)
	// exact ties: n / 2^j printed with fewer decimals than j
	for i := 0; i < 5000; i++ {
		j := 1 + rng.Intn(12)
		n := rng.Int63n(1 << uint(4+rng.Intn(30)))
		x := float64(n) / float64(int64(1)<<uint(j))
		if rng.Intn(4) == 0 {
			x = -x
		}
		add(x, rng.Intn(j+2))
	}
	// decimal fractions (the jsonata $formatNumber / $round use case)
	for i := 0; i < 8000; i++ {
		n := 1 + rng.Intn(17)
		s := randDigits(n) + "e" + strconv.Itoa(-rng.Intn(n+6))
		x, _ := strconv.ParseFloat(s, 64)
		if rng.Intn(5) == 0 {
			x = -x
		}
		add(x, rng.Intn(21))
	}
	// random bit patterns of moderate magnitude
	for i := 0; i < 6000; i++ {
		b := (uint64(1023-80+rng.Intn(160)) << 52) | rng.Uint64()&(1<<52-1) | uint64(rng.Intn(2))<<63
		add(math.Float64frombits(b), rng.Intn(25))
	}
	// arbitrary bit patterns (large outputs)
	for i := 0; i < 1200; i++ {
		add(math.Float64frombits(rng.Uint64()), rng.Intn(30))
	}
	// powers of ten and neighbours
	for k := -30; k <= 30; k++ {
		x, _ := strconv.ParseFloat("1e"+strconv.Itoa(k), 64)
		for _, y := range []float64{x, math.Nextafter(x, 0), math.Nextafter(x, math.Inf(1)), 5 * x, math.Nextafter(5*x, 0), math.Nextafter(5*x, math.Inf(1))} {
			for _, p := range []int{0, 1, 2, -k - 1, -k, -k + 1, 17} {
				if p >= 0 {
					add(y, p)
				}
			}
		}
	}
	writeShards(dir, "fx", fxCheck, cs)
}

// ---------------------------------------------------------------- FormatInt / Atoi

const itCheck = `Definition check (c : Z * Z * Z * string * string * Z) : bool :=
  let '(kind, z, base, s, h, r) := c in
  if Z.eqb kind 0 then seqb (format_int z base) s
  else match string_of_hex h with
       | None => false
       | Some t => match atoi t with
                   | Some v => Z.eqb kind 1 && Z.eqb v r
                   | None => Z.eqb kind 2
                   end
       end.
`

func genInt(dir string) {
	var cs []string
	addF := func(z int64, base int) {
		cs = append(cs, fmt.Sprintf("(0, (%d), %d, \"%s\", \"\", 0)", z, base, strconv.FormatInt(z, base)))
	}
	addA := func(s string) {
		v, err := strconv.Atoi(s)
		kind := 1
		if err != nil {
			ne := err.(*strconv.NumError)
			if ne.Err == strconv.ErrRange {
				return // documented deviation: the model ignores range errors
			}
			kind = 2
			v = 0
		}
		cs = append(cs, fmt.Sprintf("(%d, 0, 0, \"\", \"%s\", (%d))", kind, hex.EncodeToString([]byte(s)), v))
	}
	for _, z := range []int64{0, 1, -1, 9, 10, 35, 36, 37, math.MaxInt64, math.MinInt64, math.MaxInt64 - 1, math.MinInt64 + 1, 255, 256, -255, 1 << 32, 1<<53 + 1} {
		for base := 2; base <= 36; base++ {
			addF(z, base)
		}
	}
	for i := 0; i < 12000; i++ {
		z := rng.Int63() >> uint(rng.Intn(63))
		if rng.Intn(2) == 0 {
			z = -z
		}
		addF(z, 2+rng.Intn(35))
	}
	for _, s := range []string{"", "+", "-", "0", "-0", "+0", "007", "-007", "+12", "12a", "a12", " 1", "1 ", "1_0", "_1", "1_", "0x10", "1e3", "1.0", "--1", "+-1", "-+1",
		"9223372036854775807", "-9223372036854775808", "9223372036854775808", "-9223372036854775809", "99999999999999999999", "000000000000000000000000001",
		"\xef\xbc\x91", "1\x00", "١", "123456789012345678", "1234567890123456789", "-1234567890123456789"} {
		addA(s)
	}
	for i := 0; i < 8000; i++ {
		s := randSign() + strings.Repeat("0", rng.Intn(3)) + randDigits(1+rng.Intn(18))
		if rng.Intn(5) == 0 {
			b := []byte(s)
			b[rng.Intn(len(b))] = "+-_ a.x"[rng.Intn(7)]
			s = string(b)
		}
		addA(s)
	}
	writeShards(dir, "it", itCheck, cs)
}

func main() {
	if len(os.Args) < 2 {
		fmt.Println("usage: go run main.go <outdir> [seed]")
		os.Exit(2)
	}
	dir := os.Args[1]
	seed := int64(1)
	if len(os.Args) > 2 {
		seed, _ = strconv.ParseInt(os.Args[2], 10, 64)
	}
	rng = rand.New(rand.NewSource(seed))
	if err := os.MkdirAll(dir, 0o755); err != nil {
		panic(err)
	}
	genParseFloat(dir)
	genFormat(dir)
	genFixed(dir)
	genInt(dir)
}
