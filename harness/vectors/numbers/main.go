// Test-vector generator for the Coq model of jsonata-go's number functions
// (JV.Model.LibNumber, JV.Model.LibFormatNumber, instantiated in JV.Model.LibNumberInst).
//
// It calls the real code (jlib.Number, Round, Power, Sqrt, FormatBase, FormatNumber,
// jxpath.FormatNumber, and the math functions the model re-implements) and writes Coq files
//
//	<out>/Prelude.v          check functions and the table of decimal formats
//	<out>/S_<kind>_<n>.v     ~1000 cases each; `bad` must print as [] and `Goal bad = []` holds
//	<out>/run.sh             compiles everything (16 jobs) and reports failing shards
//
// Every FormatNumber call runs in a worker subprocess (this binary with -worker) under
// recover() and a 2 s watchdog: a panic is recorded as outcome 2, a hang (worker killed) as
// outcome 3, and compared with the model's LPanic / LFuel.  All other calls run under recover().
//
// How to run (scratch module outside /repo and /verif):
//
//	export GOFLAGS=-mod=mod GOPROXY=off GOSUMDB=off GOTOOLCHAIN=local
//	mkdir -p /tmp/numbers/gen && cd /tmp/numbers && cat > go.mod <<EOF
//	module scratch
//	go 1.16
//	require github.com/blues/jsonata-go v0.0.0
//	replace github.com/blues/jsonata-go => /repo        (or a worktree of it)
//	EOF
//	cp /verif/harness/vectors/numbers/main.go gen/main.go
//	go build -o gen/gen ./gen && ./gen/gen -out /tmp/numbers/out
//	sh /tmp/numbers/out/run.sh        # needs /verif/coq/{Base,Model}/*.vo compiled; JVROOT=<dir> overrides /verif/coq
package main

import (
	"bufio"
	"encoding/hex"
	"flag"
	"fmt"
	"math"
	"math/rand"
	"os"
	"os/exec"
	"path/filepath"
	"reflect"
	"sort"
	"strconv"
	"strings"
	"sync"
	"time"

	"github.com/blues/jsonata-go/jlib"
	"github.com/blues/jsonata-go/jlib/jxpath"
	"github.com/blues/jsonata-go/jtypes"
)

// ---------------------------------------------------------------------------------------
// encoding helpers

func hx(s string) string { return "\"" + hex.EncodeToString([]byte(s)) + "\"" }

// float as a Z literal: -1 for NaN, else the IEEE bits
func fb(x float64) string {
	if math.IsNaN(x) {
		return "(-1)"
	}
	return strconv.FormatUint(math.Float64bits(x), 10)
}

func zi(n int64) string {
	if n < 0 {
		return "(" + strconv.FormatInt(n, 10) + ")"
	}
	return strconv.FormatInt(n, 10)
}

func bl(b bool) string {
	if b {
		return "true"
	}
	return "false"
}

// ---------------------------------------------------------------------------------------
// formats

type dfmt = jxpath.DecimalFormat

func coqFormat(f dfmt) string {
	return fmt.Sprintf("(mk_decimal_format %s %s %s %s (unhex %s) (unhex %s) (unhex %s) (unhex %s) %s %s %s)",
		zi(int64(f.DecimalSeparator)), zi(int64(f.GroupSeparator)), zi(int64(f.ExponentSeparator)),
		zi(int64(f.MinusSign)), hx(f.Infinity), hx(f.NaN), hx(f.Percent), hx(f.PerMille),
		zi(int64(f.ZeroDigit)), zi(int64(f.OptionalDigit)), zi(int64(f.PatternSeparator)))
}

func formats() []dfmt {
	d := jxpath.NewDecimalFormat()
	var fs []dfmt
	add := func(mod func(f *dfmt)) {
		f := d
		mod(&f)
		fs = append(fs, f)
	}
	add(func(f *dfmt) {})                                                            // 0 default
	add(func(f *dfmt) { f.DecimalSeparator = ','; f.GroupSeparator = '.' })          // 1 european
	add(func(f *dfmt) { f.ZeroDigit = 0x0660 })                                      // 2 arabic-indic (2 bytes)
	add(func(f *dfmt) { f.ZeroDigit = 0xFF10 })                                      // 3 fullwidth (3 bytes)
	add(func(f *dfmt) { f.ZeroDigit = 0x1D7CE })                                     // 4 math bold (4 bytes)
	add(func(f *dfmt) { f.ZeroDigit = 0x7F })                                        // 5 digits straddle 1/2 bytes
	add(func(f *dfmt) { f.ZeroDigit = 0x7FA })                                       // 6 straddle 2/3 bytes
	add(func(f *dfmt) { f.ZeroDigit = 0xFFFA })                                      // 7 straddle 3/4, contains U+FFFD
	add(func(f *dfmt) { f.OptionalDigit = '@'; f.PatternSeparator = '|' })           // 8
	add(func(f *dfmt) { f.ExponentSeparator = 'E'; f.MinusSign = 0x2212 })           // 9
	add(func(f *dfmt) { f.ExponentSeparator = 0xD7; f.GroupSeparator = 0x2019 })     // 10 multi-byte separators
	add(func(f *dfmt) { f.Infinity = "∞"; f.NaN = "nan"; f.Percent = "pct"; f.PerMille = "pm" }) // 11
	add(func(f *dfmt) { f.Percent = "" })                                            // 12 empty percent
	add(func(f *dfmt) { f.PerMille = "" })                                           // 13 empty per-mille
	add(func(f *dfmt) { f.Percent = "%"; f.PerMille = "%%" })                        // 14 overlapping
	add(func(f *dfmt) { f.ZeroDigit = '%' })                                         // 15 digits % & ' ( ) * + , - .
	add(func(f *dfmt) { f.GroupSeparator = '.' })                                    // 16 group = decimal
	add(func(f *dfmt) { f.DecimalSeparator = 0x066B; f.GroupSeparator = 0x066C; f.ZeroDigit = 0x0660 }) // 17
	add(func(f *dfmt) { f.ZeroDigit = 'a'; f.OptionalDigit = 'z' })                  // 18 letters as digits
	add(func(f *dfmt) { f.PatternSeparator = '#'; f.OptionalDigit = ';' })           // 19 swapped
	add(func(f *dfmt) { f.MinusSign = 0x110000 })                                    // 20 invalid minus (struct only)
	add(func(f *dfmt) { f.GroupSeparator = 0xFFFD })                                 // 21 RuneError separator
	add(func(f *dfmt) { f.DecimalSeparator = 0xFFFD })                               // 22
	add(func(f *dfmt) { f.ExponentSeparator = 0xFFFD })                              // 23
	add(func(f *dfmt) { f.PatternSeparator = 0xFFFD })                               // 24
	add(func(f *dfmt) { f.ZeroDigit = 0xFFFD })                                      // 25
	add(func(f *dfmt) { f.ZeroDigit = -5 })                                          // 26 negative zero digit
	add(func(f *dfmt) { f.OptionalDigit = 0xFFFD })                                  // 27
	add(func(f *dfmt) { f.GroupSeparator = 0xD800 })                                 // 28 surrogate
	add(func(f *dfmt) { f.ZeroDigit = 0x10FFFB })                                    // 29 digits run past MaxRune
	add(func(f *dfmt) { f.ZeroDigit = 0xD7FA })                                      // 30 digits run into surrogates
	add(func(f *dfmt) { f.ZeroDigit = math.MinInt32 })                               // 31 int32 wrap-around
	add(func(f *dfmt) { f.ZeroDigit = math.MaxInt32 - 3 })                           // 32 int32 wrap-around
	return fs
}

// number of formats reachable through jlib.FormatNumber options (valid, non-RuneError runes)
const nOptionFormats = 20

// translate a picture over the canonical alphabet # 0-9 , . e ; % ‰ into the format's symbols
func translate(p string, f dfmt) string {
	var b strings.Builder
	for _, r := range p {
		switch {
		case r == '#':
			b.WriteString(string(f.OptionalDigit))
		case r >= '0' && r <= '9':
			b.WriteString(string(f.ZeroDigit + (r - '0')))
		case r == ',':
			b.WriteString(string(f.GroupSeparator))
		case r == '.':
			b.WriteString(string(f.DecimalSeparator))
		case r == 'e':
			b.WriteString(string(f.ExponentSeparator))
		case r == ';':
			b.WriteString(string(f.PatternSeparator))
		case r == '%':
			b.WriteString(f.Percent)
		case r == '‰':
			b.WriteString(f.PerMille)
		default:
			b.WriteRune(r)
		}
	}
	return b.String()
}

// ---------------------------------------------------------------------------------------
// FormatNumber cases, executed in worker subprocesses

type fnCase struct {
	value   float64
	picture string
	fmtIdx  int         // index into formats(), or -1 when opts are used
	hasOpts bool
	opts    [][2]string // sorted by key
	// result
	kind    int // 0 ok, 1 error, 2 panic, 3 hang
	payload string
}

func (c *fnCase) request() string {
	var parts []string
	parts = append(parts, strconv.FormatUint(math.Float64bits(c.value), 10), "x"+hex.EncodeToString([]byte(c.picture)),
		strconv.Itoa(c.fmtIdx), bl(c.hasOpts))
	for _, kv := range c.opts {
		parts = append(parts, hex.EncodeToString([]byte(kv[0]))+":"+hex.EncodeToString([]byte(kv[1])))
	}
	return strings.Join(parts, " ")
}

func unhex(s string) string {
	b, err := hex.DecodeString(s)
	if err != nil {
		panic(err)
	}
	return string(b)
}

func workerMain() {
	fs := formats()
	in := bufio.NewScanner(os.Stdin)
	in.Buffer(make([]byte, 1<<20), 1<<20)
	out := bufio.NewWriter(os.Stdout)
	for in.Scan() {
		fields := strings.Fields(in.Text())
		bits, _ := strconv.ParseUint(fields[0], 10, 64)
		value := math.Float64frombits(bits)
		picture := unhex(fields[1][1:])
		fi, _ := strconv.Atoi(fields[2])
		hasOpts := fields[3] == "true"
		kind, payload := 0, ""
		func() {
			defer func() {
				if r := recover(); r != nil {
					kind, payload = 2, fmt.Sprint(r)
				}
			}()
			var s string
			var err error
			if fi >= 0 {
				s, err = jxpath.FormatNumber(value, picture, fs[fi])
			} else if !hasOpts {
				s, err = jlib.FormatNumber(value, picture, jtypes.OptionalValue{})
			} else {
				m := map[string]interface{}{}
				for _, kv := range fields[4:] {
					p := strings.SplitN(kv, ":", 2)
					m[unhex(p[0])] = unhex(p[1])
				}
				s, err = jlib.FormatNumber(value, picture, jtypes.NewOptionalValue(reflect.ValueOf(m)))
			}
			if err != nil {
				kind, payload = 1, err.Error()
			} else {
				kind, payload = 0, s
			}
		}()
		fmt.Fprintf(out, "%d x%s\n", kind, hex.EncodeToString([]byte(payload)))
		out.Flush()
	}
}

type worker struct {
	cmd   *exec.Cmd
	in    *bufio.Writer
	lines chan string
}

func startWorker() *worker {
	cmd := exec.Command(os.Args[0], "-worker")
	stdin, _ := cmd.StdinPipe()
	stdout, _ := cmd.StdoutPipe()
	if err := cmd.Start(); err != nil {
		panic(err)
	}
	w := &worker{cmd: cmd, in: bufio.NewWriter(stdin), lines: make(chan string, 1)}
	go func() {
		sc := bufio.NewScanner(stdout)
		sc.Buffer(make([]byte, 1<<24), 1<<24)
		for sc.Scan() {
			w.lines <- sc.Text()
		}
		close(w.lines)
	}()
	return w
}

// one request/response round trip; ok = false when the watchdog fired (worker killed)
func (w *worker) ask(c *fnCase, limit time.Duration) (ok bool) {
	fmt.Fprintln(w.in, c.request())
	w.in.Flush()
	select {
	case line, alive := <-w.lines:
		if !alive {
			panic("worker died")
		}
		f := strings.Fields(line)
		c.kind, _ = strconv.Atoi(f[0])
		c.payload = unhex(f[1][1:])
		return true
	case <-time.After(limit):
		w.cmd.Process.Kill()
		w.cmd.Wait()
		return false
	}
}

// A case is recorded as a hang only when it exceeds the 2 s watchdog and, re-run alone in a
// fresh worker, a 6 s watchdog as well (a loaded machine can starve a worker for a while).
func runFnCases(cases []*fnCase) {
	ch := make(chan *fnCase, len(cases))
	for _, c := range cases {
		ch <- c
	}
	close(ch)
	var wg sync.WaitGroup
	for i := 0; i < 8; i++ {
		wg.Add(1)
		go func() {
			defer wg.Done()
			var w *worker
			for c := range ch {
				if w == nil {
					w = startWorker()
				}
				if w.ask(c, 2*time.Second) {
					continue
				}
				w = startWorker()
				if w.ask(c, 6*time.Second) {
					continue
				}
				w = nil
				c.kind, c.payload = 3, ""
			}
			if w != nil {
				w.cmd.Process.Kill()
				w.cmd.Wait()
			}
		}()
	}
	wg.Wait()
}

// ---------------------------------------------------------------------------------------
// output

var outDir string
var shardNames []string

func writeShard(kind string, header string, check string, lines []string) {
	const per = 1000
	for i, n := 0, 0; i < len(lines); i, n = i+per, n+1 {
		j := i + per
		if j > len(lines) {
			j = len(lines)
		}
		name := fmt.Sprintf("S_%s_%03d", kind, n)
		shardNames = append(shardNames, name)
		var b strings.Builder
		b.WriteString("From Coq Require Import ZArith Bool List Ascii String.\n")
		b.WriteString("From JV.Base Require Import Bytes Utf8 F64 Res Decimal.\n")
		b.WriteString("From JV.Model Require Import LibNumber LibFormatNumber LibNumberInst.\n")
		b.WriteString("From NV Require Import Prelude.\nImport ListNotations.\nOpen Scope string_scope. Open Scope Z_scope.\n")
		b.WriteString(header)
		b.WriteString("Definition cases := [\n")
		b.WriteString(strings.Join(lines[i:j], ";\n"))
		b.WriteString("\n].\n")
		b.WriteString("Definition bad := Eval vm_compute in filter (fun c => negb (" + check + " c)) cases.\n")
		b.WriteString("Print bad.\nGoal bad = []. Proof. reflexivity. Qed.\n")
		if err := os.WriteFile(filepath.Join(outDir, name+".v"), []byte(b.String()), 0o644); err != nil {
			panic(err)
		}
	}
}

const prelude = `From Coq Require Import ZArith Bool List Ascii String.
From JV.Base Require Import Bytes Utf8 F64 Res Decimal.
From JV.Model Require Import LibNumber LibFormatNumber LibNumberInst.
Import ListNotations.
Open Scope string_scope. Open Scope Z_scope.

Definition unhex (h : string) : string :=
  match string_of_hex h with Some s => s | None => "<bad hex>" end.

(* bits = -1 denotes NaN *)
Definition same_f (x : f64) (bits : Z) : bool :=
  if bits =? -1 then is_nan x else negb (is_nan x) && (bits_of_f x =? bits).
Definition fb (bits : Z) : f64 := if bits =? -1 then S754_nan else f_of_bits bits.

(* Go outcome: 0 = ok string, 1 = error (message), 2 = panic, 3 = hang *)
Definition same_out (cmpmsg : bool) (r : lres string) (kind : Z) (payload : string) : bool :=
  match r with
  | LOk s => (kind =? 0) && seqb s (unhex payload)
  | LErr t => (kind =? 1) && (if cmpmsg then seqb t (unhex payload) else true)
  | LPanic _ => kind =? 2
  | LFuel => kind =? 3
  | LUndef => false
  end.

Definition same_lf (r : lres f64) (ok : bool) (bits : Z) : bool :=
  match r with
  | LOk x => ok && same_f x bits
  | LErr _ => negb ok
  | _ => false
  end.

Definition FUEL : nat := 1500.

Definition check_num (c : string * bool * Z) : bool :=
  let '(h, ok, bits) := c in same_lf (go_number_of_string (unhex h)) ok bits.

Definition check_round (c : Z * bool * Z * Z) : bool :=
  let '(x, hasp, p, e) := c in same_f (go_round (fb x) (if hasp then Some p else None)) e.

Definition check_fbase (c : Z * bool * Z * Z * string) : bool :=
  let '(x, hasb, b, kind, payload) := c in
  same_out false (go_format_base (fb x) (if hasb then Some (fb b) else None)) kind payload.

Definition check_pow (c : Z * Z * Z * bool * Z) : bool :=
  let '(x, y, r, ok, e) := c in same_lf (go_power (fun _ _ => fb r) (fb x) (fb y)) ok e.

Definition check_sqrt (c : Z * bool * Z) : bool :=
  let '(x, ok, e) := c in same_lf (go_sqrt (fb x)) ok e.

(* op: 0 floor 1 ceil 2 abs 3 modf.int 4 modf.frac 5 nextafter(+inf) 6 nextafter(-inf)
       7 trunc 8 mod 2 9 x*10 10 x/10 11 math.Round *)
Definition check_misc (c : Z * Z * Z) : bool :=
  let '(op, x, e) := c in
  let x := fb x in
  same_f (if op =? 0 then floor x else if op =? 1 then ceil x else if op =? 2 then abs x
          else if op =? 3 then fst (modf x) else if op =? 4 then snd (modf x)
          else if op =? 5 then nextafter x f_inf else if op =? 6 then nextafter x f_ninf
          else if op =? 7 then ftrunc x else if op =? 8 then fmod x f_two
          else if op =? 9 then fmul x f_ten else if op =? 10 then fdiv x f_ten else fround x) e.

(* (n, math.Pow10(n), math.Pow(10, n)) *)
Definition check_pow10 (c : Z * Z * Z) : bool :=
  let '(n, a, b) := c in same_f (pow10 n) a && same_f (go_pow10 n) b.

(* strconv.FormatFloat(x, 'f', dp, 64) as used by makeNumberString *)
Definition check_fixed (c : Z * Z * string) : bool :=
  let '(x, dp, h) := c in seqb (format_float_fixed (fabs (fb x)) dp) (unhex h).
`

const preludeTail = `
Definition check_fnum (c : Z * string * nat * Z * string) : bool :=
  let '(v, pic, fi, kind, payload) := c in
  same_out true (go_format_number FUEL (fb v) (unhex pic) (nth fi fmts default_decimal_format))
           kind payload.

Definition check_libfnum (c : Z * string * bool * list (string * string) * Z * string) : bool :=
  let '(v, pic, hasopts, opts, kind, payload) := c in
  same_out false
    (go_lib_format_number FUEL (fb v) (unhex pic)
       (if hasopts then Some (map (fun kv => (unhex (fst kv), unhex (snd kv))) opts) else None))
    kind payload.
`

// ---------------------------------------------------------------------------------------
// inputs

func doubles(r *rand.Rand) []float64 {
	var xs []float64
	add := func(v ...float64) { xs = append(xs, v...) }
	add(0, math.Copysign(0, -1), math.NaN(), math.Inf(1), math.Inf(-1))
	for i := -25; i <= 25; i++ {
		add(float64(i))
	}
	// decimal fractions with 0..6 digits, including exact ties
	for _, s := range []string{"0.5", "1.5", "2.5", "3.5", "0.125", "0.375", "0.25", "0.75", "2.675", "1.005",
		"1.015", "1.025", "1.035", "1.045", "0.145", "0.285", "4.525", "99.995", "999.9995", "0.0095",
		"0.00999", "0.000123", "12345.678", "1234567.891", "123456", "1234567", "0.1", "0.2", "0.3", "0.7",
		"14.5", "15.5", "0.05", "0.15", "0.25", "0.35", "0.45", "0.55", "0.65", "0.0005", "0.0015", "0.0025",
		"1234.5", "1235.5", "1250", "1350", "1450", "1500", "2500", "150", "250", "50", "5", "15", "25",
		"0.000005", "0.000015", "0.000025", "100.5", "101.5", "1e15", "1000000000000000.5",
		"450359962737049.7", "450359962737049.5", "45035996273704.95", "4503599627370497.5",
		"0.49999999999999994", "0.5000000000000001", "1.4999999999999998", "2.5000000000000004",
		"9.999999999999999e22", "1e23", "123.456", "987654.321", "3.14159", "2.71828", "255", "256",
		"65535.5", "4294967295", "4294967296", "9223372036854775807", "9223372036854775808",
		"18446744073709551616", "1e19", "9.3e18", "9007199254740993", "4503599627370496.5"} {
		v, _ := strconv.ParseFloat(s, 64)
		add(v, -v, math.Nextafter(v, math.Inf(1)), math.Nextafter(v, math.Inf(-1)))
	}
	for e := -12; e <= 21; e++ {
		v := math.Pow10(e)
		add(v, -v, 5*v, -5*v, 1.5*v, 2.5*v, math.Nextafter(5*v, math.Inf(1)), math.Nextafter(5*v, 0))
	}
	add(1e300, 1e308, 5e307, 1.7976931348623157e308, -1e308, 5e-324, 1e-320, 2.2250738585072014e-308, 1e-300, -5e-324)
	// 2^52 .. 2^53 region
	for _, k := range []float64{0, 1, 2, 3, 4, 5, 1000, 1001} {
		add(4503599627370496+k, 4503599627370496+k+0.5, 9007199254740992-k, 9007199254740992+2*k, -(4503599627370496 + k + 0.5))
		add(2251799813685248+k/2+0.25, 2251799813685248+k/2+0.5)
	}
	for i := 0; i < 120; i++ {
		switch i % 4 {
		case 0:
			add(math.Float64frombits(r.Uint64()))
		case 1:
			add(float64(r.Intn(2000000)-1000000) / math.Pow10(r.Intn(7)))
		case 2:
			add(r.NormFloat64() * math.Pow10(r.Intn(30)-10))
		case 3:
			add((float64(r.Intn(100000)) + 0.5) / math.Pow10(r.Intn(6)))
		}
	}
	return xs
}

func numberStrings(r *rand.Rand) []string {
	alpha := []string{"0", "1", "9", "-", "+", ".", "e", "E", " ", "a"}
	var out []string
	var rec func(prefix string, n int)
	rec = func(prefix string, n int) {
		out = append(out, prefix)
		if n == 0 {
			return
		}
		for _, a := range alpha {
			rec(prefix+a, n-1)
		}
	}
	rec("", 4)
	for i := 0; i < 20000; i++ {
		n := 5 + r.Intn(2)
		s := ""
		for j := 0; j < n; j++ {
			s += alpha[r.Intn(len(alpha))]
		}
		out = append(out, s)
	}
	// structured valid numbers and near misses
	digs := func(n int) string {
		s := ""
		for j := 0; j < n; j++ {
			s += string(rune('0' + r.Intn(10)))
		}
		return s
	}
	for i := 0; i < 4000; i++ {
		s := ""
		if r.Intn(3) == 0 {
			s += "-"
		}
		s += digs(1 + r.Intn(20))
		if r.Intn(2) == 0 {
			s += "." + digs(1+r.Intn(20))
		}
		if r.Intn(2) == 0 {
			s += []string{"e", "E"}[r.Intn(2)] + []string{"", "-", "+"}[r.Intn(3)] + digs(1+r.Intn(3))
		}
		out = append(out, s)
		// mutate
		if len(s) > 0 && r.Intn(2) == 0 {
			p := r.Intn(len(s) + 1)
			m := []string{"", ".", "e", "-", "+", " ", "x", "_", "\n", "0x", "E", "\xff"}[r.Intn(12)]
			if r.Intn(2) == 0 || p == len(s) {
				out = append(out, s[:p]+m+s[p:])
			} else {
				out = append(out, s[:p]+m+s[p+1:])
			}
		}
	}
	out = append(out, "1e308", "1e309", "-1e309", "1.7976931348623157e308", "1.7976931348623159e308", "1e-400",
		"-0", "-0.0", "00", "007", "1\n", "\n1", "1e400", "0e400", "Infinity", "NaN", "inf", "0x10", "1_000", "1e", "1.", ".5",
		"+1", "--1", "1e+", "1E-0", "4.9e-324", "2.4e-324", "2.5e-324", "true", "١٢")
	return out
}

// pictures over the canonical alphabet
func genPicture(r *rand.Rand) string {
	sub := func() string {
		nOpt, nMand := r.Intn(5), r.Intn(5)
		if nOpt+nMand == 0 && r.Intn(3) > 0 {
			nMand = 1
		}
		ds := strings.Repeat("#", nOpt)
		for i := 0; i < nMand; i++ {
			if r.Intn(6) == 0 {
				ds += string(rune('1' + r.Intn(9)))
			} else {
				ds += "0"
			}
		}
		ip := ds
		switch r.Intn(4) {
		case 1: // regular grouping
			g := 1 + r.Intn(4)
			ip = ""
			for i := 0; i < len(ds); i++ {
				if i > 0 && (len(ds)-i)%g == 0 {
					ip += ","
				}
				ip += ds[i : i+1]
			}
		case 2: // irregular grouping
			ip = ""
			for i := 0; i < len(ds); i++ {
				if i > 0 && r.Intn(3) == 0 {
					ip += ","
				}
				ip += ds[i : i+1]
			}
		}
		fp := ""
		if r.Intn(3) > 0 {
			fm, fo := r.Intn(4), r.Intn(4)
			fd := strings.Repeat("0", fm) + strings.Repeat("#", fo)
			fp = "."
			for i := 0; i < len(fd); i++ {
				if i > 0 && r.Intn(5) == 0 {
					fp += ","
				}
				fp += fd[i : i+1]
			}
		}
		ex := ""
		if r.Intn(4) == 0 {
			ex = "e" + strings.Repeat("0", 1+r.Intn(3))
		}
		texts := []string{"", "", "", "$", "USD ", "(", ")", " units", "a", "€", "-", "x y", "%", "‰", " %"}
		return texts[r.Intn(len(texts))] + ip + fp + ex + texts[r.Intn(len(texts))]
	}
	p := sub()
	if r.Intn(4) == 0 {
		p += ";" + sub()
	}
	return p
}

func mutate(r *rand.Rand, p string) string {
	rs := []rune(p)
	ins := []rune("#0,.e;%‰1 9a-")
	for k := 1 + r.Intn(2); k > 0; k-- {
		pos := 0
		if len(rs) > 0 {
			pos = r.Intn(len(rs) + 1)
		}
		switch r.Intn(4) {
		case 0: // insert
			rs = append(rs[:pos:pos], append([]rune{ins[r.Intn(len(ins))]}, rs[pos:]...)...)
		case 1: // delete
			if pos < len(rs) {
				rs = append(rs[:pos:pos], rs[pos+1:]...)
			}
		case 2: // replace
			if pos < len(rs) {
				rs[pos] = ins[r.Intn(len(ins))]
			}
		case 3: // duplicate
			if pos < len(rs) {
				rs = append(rs[:pos:pos], append([]rune{rs[pos]}, rs[pos:]...)...)
			}
		}
	}
	s := string(rs)
	if r.Intn(25) == 0 { // raw invalid UTF-8
		pos := r.Intn(len(s) + 1)
		s = s[:pos] + []string{"\xff", "\xc3", "\xe2\x80", "\xf0\x9f", "\x80"}[r.Intn(5)] + s[pos:]
	}
	return s
}

func optionsOf(f dfmt) [][2]string {
	d := jxpath.NewDecimalFormat()
	var o [][2]string
	add := func(k, v string) { o = append(o, [2]string{k, v}) }
	if f.DecimalSeparator != d.DecimalSeparator {
		add("decimal-separator", string(f.DecimalSeparator))
	}
	if f.GroupSeparator != d.GroupSeparator {
		add("grouping-separator", string(f.GroupSeparator))
	}
	if f.ExponentSeparator != d.ExponentSeparator {
		add("exponent-separator", string(f.ExponentSeparator))
	}
	if f.MinusSign != d.MinusSign {
		add("minus-sign", string(f.MinusSign))
	}
	if f.Infinity != d.Infinity {
		add("infinity", f.Infinity)
	}
	if f.NaN != d.NaN {
		add("NaN", f.NaN)
	}
	if f.Percent != d.Percent {
		add("percent", f.Percent)
	}
	if f.PerMille != d.PerMille {
		add("per-mille", f.PerMille)
	}
	if f.ZeroDigit != d.ZeroDigit {
		add("zero-digit", string(f.ZeroDigit))
	}
	if f.OptionalDigit != d.OptionalDigit {
		add("digit", string(f.OptionalDigit))
	}
	if f.PatternSeparator != d.PatternSeparator {
		add("pattern-separator", string(f.PatternSeparator))
	}
	sort.Slice(o, func(i, j int) bool { return o[i][0] < o[j][0] })
	return o
}

// ---------------------------------------------------------------------------------------

func guard(f func()) (panicked bool) {
	defer func() {
		if r := recover(); r != nil {
			panicked = true
		}
	}()
	f()
	return false
}

func main() {
	worker := flag.Bool("worker", false, "internal: run as FormatNumber worker")
	flag.StringVar(&outDir, "out", "/tmp/numbers/out", "output directory")
	flag.Parse()
	if *worker {
		workerMain()
		return
	}
	if err := os.MkdirAll(outDir, 0o755); err != nil {
		panic(err)
	}
	r := rand.New(rand.NewSource(20260923))
	xs := doubles(r)
	total := 0

	// ---- Number
	{
		var lines []string
		for _, s := range numberStrings(r) {
			var v float64
			var err error
			if guard(func() { v, err = jlib.Number(jlib.StringNumberBool(reflect.ValueOf(s))) }) {
				panic("Number panicked on " + s)
			}
			lines = append(lines, fmt.Sprintf("(%s, %s, %s)", hx(s), bl(err == nil), fb(v)))
		}
		total += len(lines)
		writeShard("num", "", "check_num", lines)
	}

	// ---- Round
	{
		var lines []string
		for _, x := range xs {
			lines = append(lines, fmt.Sprintf("(%s, false, 0, %s)", fb(x), fb(jlib.Round(x, jtypes.OptionalInt{}))))
			for p := -6; p <= 12; p++ {
				lines = append(lines, fmt.Sprintf("(%s, true, %s, %s)", fb(x), zi(int64(p)), fb(jlib.Round(x, jtypes.NewOptionalInt(p)))))
			}
		}
		for _, p := range []int{-400, -330, -309, -20, 13, 17, 20, 300, 308, 309, 330, 400, 1 << 40, math.MaxInt64, math.MinInt64, math.MinInt64 + 1} {
			for _, x := range []float64{1.5, -2.5, 123.456, 1e300, 1e-300, 5e-324, 1.7976931348623157e308, 0.1} {
				lines = append(lines, fmt.Sprintf("(%s, true, %s, %s)", fb(x), zi(int64(p)), fb(jlib.Round(x, jtypes.NewOptionalInt(p)))))
			}
		}
		total += len(lines)
		writeShard("round", "", "check_round", lines)
	}

	// ---- FormatBase
	{
		var lines []string
		one := func(x float64, has bool, b float64) {
			var s string
			var err error
			base := jtypes.OptionalFloat64{}
			if has {
				base = jtypes.NewOptionalFloat64(b)
			}
			kind := 0
			if guard(func() { s, err = jlib.FormatBase(x, base) }) {
				kind = 2
			} else if err != nil {
				kind, s = 1, err.Error()
			}
			lines = append(lines, fmt.Sprintf("(%s, %s, %s, %d, %s)", fb(x), bl(has), fb(b), kind, hx(s)))
		}
		vals := []float64{0, math.Copysign(0, -1), 1, -1, 2, 10, 35, 36, 37, 255, -255, 255.5, 254.5, 0.5, 1.5, -0.5, -1.5, 100, 1295,
			1e6, 123456789, 4294967296, 9007199254740993, 9.223372036854775e18, 9223372036854775808, -9223372036854775808,
			1e19, -1e19, 1e300, math.NaN(), math.Inf(1), math.Inf(-1), 0.49999999999999994, 2.5000000000000004, 1e-10}
		for _, x := range vals {
			one(x, false, 0)
			for b := 0; b <= 40; b++ {
				one(x, true, float64(b))
			}
			for _, b := range []float64{1.5, 2.5, 1.4999, 35.5, 36.5, 36.4999, 10.2, 15.9, -2, -16, 1e10, 1e19, math.NaN(), math.Inf(1), math.Inf(-1), 0.5, 2.0000000000000004} {
				one(x, true, b)
			}
		}
		for i := 0; i < 600; i++ {
			one(xs[r.Intn(len(xs))], true, float64(r.Intn(41))+[]float64{0, 0, 0.25, 0.5, 0.75}[r.Intn(5)])
		}
		total += len(lines)
		writeShard("fbase", "", "check_fbase", lines)
	}

	// ---- Power, Sqrt, misc math, Pow10, fixed formatting
	{
		var lines []string
		ys := []float64{0, 1, 2, 3, -1, -2, 0.5, -0.5, 1.5, 10, 100, 1000, -1000, 0.1, math.Inf(1), math.Inf(-1), math.NaN(), 1e300, 1024, -1074}
		for _, x := range xs {
			for k := 0; k < 6; k++ {
				y := ys[r.Intn(len(ys))]
				v, err := jlib.Power(x, y)
				lines = append(lines, fmt.Sprintf("(%s, %s, %s, %s, %s)", fb(x), fb(y), fb(math.Pow(x, y)), bl(err == nil), fb(v)))
			}
		}
		total += len(lines)
		writeShard("pow", "", "check_pow", lines)

		lines = nil
		for _, x := range xs {
			v, err := jlib.Sqrt(x)
			lines = append(lines, fmt.Sprintf("(%s, %s, %s)", fb(x), bl(err == nil), fb(v)))
		}
		total += len(lines)
		writeShard("sqrt", "", "check_sqrt", lines)

		lines = nil
		for _, x := range xs {
			i, f := math.Modf(x)
			for op, v := range []float64{math.Floor(x), math.Ceil(x), math.Abs(x), i, f,
				math.Nextafter(x, math.Inf(1)), math.Nextafter(x, math.Inf(-1)), math.Trunc(x), math.Mod(x, 2), x * 10, x / 10, math.Round(x)} {
				lines = append(lines, fmt.Sprintf("(%d, %s, %s)", op, fb(x), fb(v)))
			}
		}
		total += len(lines)
		writeShard("misc", "", "check_misc", lines)

		lines = nil
		for n := -420; n <= 420; n++ {
			lines = append(lines, fmt.Sprintf("(%s, %s, %s)", zi(int64(n)), fb(math.Pow10(n)), fb(math.Pow(10, float64(n)))))
		}
		for _, n := range []int{1000, 1023, 1024, 2047, 2048, 4095, 4096, 4097, 5000, 8191, 8192, 65536, 1 << 20, 1<<31 - 1, -1000, -5000, 1 << 40} {
			lines = append(lines, fmt.Sprintf("(%s, %s, %s)", zi(int64(n)), fb(math.Pow10(n)), fb(math.Pow(10, float64(n)))))
		}
		total += len(lines)
		writeShard("pow10", "", "check_pow10", lines)

		lines = nil
		for _, x := range xs {
			for _, dp := range []int{0, 1, 2, 3, 6, 9} {
				lines = append(lines, fmt.Sprintf("(%s, %d, %s)", fb(x), dp, hx(strconv.FormatFloat(math.Abs(x), 'f', dp, 64))))
			}
		}
		total += len(lines)
		writeShard("fixed", "", "check_fixed", lines)
	}

	// ---- FormatNumber
	fs := formats()
	var fn []*fnCase
	addFn := func(v float64, pic string, fi int) {
		fn = append(fn, &fnCase{value: v, picture: pic, fmtIdx: fi})
	}
	// (a) every picture of length <= 4 over a small alphabet, default format
	{
		alpha := []string{"#", "0", ",", ".", "e", ";", "%", "a"}
		var pics []string
		var rec func(p string, n int)
		rec = func(p string, n int) {
			pics = append(pics, p)
			if n == 0 {
				return
			}
			for _, a := range alpha {
				rec(p+a, n-1)
			}
		}
		rec("", 4)
		for _, p := range pics {
			addFn(1234.5678, p, 0)
			addFn(-0.05, p, 0)
		}
		for i, p := range pics {
			if i%3 == 0 {
				addFn(0, p, 0)
			}
		}
	}
	fvals := []float64{0, math.Copysign(0, -1), 1, -1, 0.5, 1.5, 2.5, 0.125, 12, 123, 1234, 12345.678, 1234567.891, -1234567.891,
		0.000123, 0.00999, 0.0095, 99.995, 999.9995, 1e21, 1e-7, 1e300, 1e308, 5e307, 5e-324, 1.7976931348623157e308,
		math.NaN(), math.Inf(1), math.Inf(-1), 1000000000000000.5, 4503599627370496.5, 9007199254740992, 0.1, 0.2, 0.3,
		1.0 / 3, 2.0 / 3, 14.5, 0.145, 0.285, 1.005, 1.015, 1.025, 0.05, -0.05, 100, 1000, 10000, 999999, 0.999, 9.5, 9.995,
		-2.5, -0.5, -1e-7, 1e15, 123456789012, 0.00001, 42, 7, 1e10, 2e-10}
	posVals := []float64{1, 0.5, 12, 1234.5678, 0.000123, 99.995, 1e21, 1e-7, 1e300, 5e307, 5e-324, 1.7976931348623157e308, 9.995, 0.0999, 100, 7}
	// (b) grammar pictures, default format
	for i := 0; i < 7000; i++ {
		p := genPicture(r)
		v := fvals[r.Intn(len(fvals))]
		if strings.Contains(p, "e") && r.Intn(8) > 0 { // mostly positive values for exponent pictures (others hang)
			v = posVals[r.Intn(len(posVals))]
		}
		addFn(v, p, 0)
		if i%3 == 0 {
			addFn(xs[r.Intn(len(xs))], p, 0)
		}
	}
	// (c) mutations
	for i := 0; i < 4000; i++ {
		p := mutate(r, genPicture(r))
		v := fvals[r.Intn(len(fvals))]
		if strings.Contains(p, "e") && r.Intn(8) > 0 {
			v = posVals[r.Intn(len(posVals))]
		}
		addFn(v, p, 0)
	}
	// (d) custom formats
	for fi := 1; fi < len(fs); fi++ {
		n := 260
		for i := 0; i < n; i++ {
			p := genPicture(r)
			hasExp := strings.Contains(p, "e")
			if i%4 == 3 {
				p = mutate(r, p)
			}
			tp := translate(p, fs[fi])
			if i%16 == 15 {
				tp = mutate(r, tp)
			}
			v := fvals[r.Intn(len(fvals))]
			if hasExp && r.Intn(10) > 0 {
				v = posVals[r.Intn(len(posVals))]
			}
			addFn(v, tp, fi)
			if i%20 == 0 { // same picture untranslated
				addFn(v, p, fi)
			}
		}
	}
	// (e) long pictures and large scaling factors
	for _, n := range []int{20, 60, 309, 310, 311, 320, 400} {
		for _, v := range []float64{1, 123.456, 1e300, 5e307, 1.7976931348623157e308, 5e-324} {
			addFn(v, strings.Repeat("0", n)+".0e0", 0)
			addFn(v, strings.Repeat("0", n), 0)
			addFn(v, "#,"+strings.Repeat("0", n), 0)
			addFn(v, "0."+strings.Repeat("#", n), 0)
			addFn(v, "0."+strings.Repeat("0", n), 0)
		}
	}
	// (f) through jlib.FormatNumber with an options object
	var lfn []*fnCase
	for fi := 0; fi < nOptionFormats; fi++ {
		opts := optionsOf(fs[fi])
		for i := 0; i < 150; i++ {
			p := genPicture(r)
			hasExp := strings.Contains(p, "e")
			if i%5 == 4 {
				p = mutate(r, p)
			}
			v := fvals[r.Intn(len(fvals))]
			if hasExp && r.Intn(10) > 0 {
				v = posVals[r.Intn(len(posVals))]
			}
			lfn = append(lfn, &fnCase{value: v, picture: translate(p, fs[fi]), fmtIdx: -1, hasOpts: fi > 0 || i%2 == 0, opts: opts})
		}
	}
	badOpts := [][][2]string{
		{{"zero-digit", ""}}, {{"zero-digit", "00"}}, {{"zero-digit", "\xff"}}, {{"zero-digit", "�"}},
		{{"decimal-separator", "ab"}}, {{"unknown", "x"}}, {{"unknown", "xy"}}, {{"Infinity", "x"}}, {{"nan", "x"}},
		{{"infinity", ""}, {"NaN", ""}}, {{"digit", "\xe2\x80"}}, {{"grouping-separator", " "}, {"minus-sign", "~"}},
		{{"per-mille", "\xff"}, {"percent", "\xfe"}}, {{"pattern-separator", ";;"}}, {{"exponent-separator", "^"}},
		{{"", "x"}}, {{"zero-digit", "\U0001d7ce"}, {"digit", "¤"}},
	}
	for _, o := range badOpts {
		for _, v := range []float64{1234.5678, -42.5, math.NaN(), math.Inf(-1), 0.25} {
			for _, p := range []string{"#,##0.00", "0", "0.0;(0.0)", "#~0", "0.0^0", "0%", "\U0001d7ce.\U0001d7ce¤"} {
				if strings.Contains(p, "^") && v <= 0 {
					continue
				}
				lfn = append(lfn, &fnCase{value: v, picture: p, fmtIdx: -1, hasOpts: true, opts: o})
			}
		}
	}

	all := append(append([]*fnCase{}, fn...), lfn...)
	runFnCases(all)

	{
		var lines []string
		counts := map[int]int{}
		for _, c := range fn {
			counts[c.kind]++
			payload := c.payload
			if c.kind >= 2 {
				payload = ""
			}
			lines = append(lines, fmt.Sprintf("(%s, %s, %d%%nat, %d, %s)", fb(c.value), hx(c.picture), c.fmtIdx, c.kind, hx(payload)))
		}
		fmt.Fprintf(os.Stderr, "jxpath.FormatNumber outcomes: ok=%d err=%d panic=%d hang=%d\n", counts[0], counts[1], counts[2], counts[3])
		total += len(lines)
		writeShard("fnum", "", "check_fnum", lines)

		lines = nil
		counts = map[int]int{}
		for _, c := range lfn {
			counts[c.kind]++
			payload := c.payload
			if c.kind >= 2 {
				payload = ""
			}
			var kv []string
			for _, o := range c.opts {
				kv = append(kv, fmt.Sprintf("(%s, %s)", hx(o[0]), hx(o[1])))
			}
			lines = append(lines, fmt.Sprintf("(%s, %s, %s, [%s], %d, %s)", fb(c.value), hx(c.picture), bl(c.hasOpts), strings.Join(kv, "; "), c.kind, hx(payload)))
		}
		fmt.Fprintf(os.Stderr, "jlib.FormatNumber outcomes: ok=%d err=%d panic=%d hang=%d\n", counts[0], counts[1], counts[2], counts[3])
		total += len(lines)
		writeShard("libfnum", "", "check_libfnum", lines)
	}

	// ---- prelude and driver
	{
		var b strings.Builder
		b.WriteString(prelude)
		b.WriteString("\nDefinition fmts : list decimal_format := [\n")
		var fl []string
		for _, f := range fs {
			fl = append(fl, "  "+coqFormat(f))
		}
		b.WriteString(strings.Join(fl, ";\n"))
		b.WriteString("\n].\n")
		b.WriteString(preludeTail)
		if err := os.WriteFile(filepath.Join(outDir, "Prelude.v"), []byte(b.String()), 0o644); err != nil {
			panic(err)
		}
		var sh strings.Builder
		sh.WriteString("#!/bin/sh\n# compiles the prelude and every shard; prints FAIL <shard> for each shard with a non-empty `bad`\n")
		sh.WriteString("cd \"$(dirname \"$0\")\" || exit 1\nJVROOT=${JVROOT:-/verif/coq}; export JVROOT\n")
		sh.WriteString("timeout 600 coqc -Q $JVROOT JV -Q . NV Prelude.v || { echo 'FAIL Prelude'; exit 1; }\n")
		sh.WriteString("ls S_*.v | xargs -P 16 -I{} sh -c 'timeout 3000 coqc -Q $JVROOT JV -Q . NV {} > {}.log 2>&1 || echo FAIL {}'\n")
		sh.WriteString("echo \"shards: $(ls S_*.v | wc -l)  passed: $(ls S_*.vo 2>/dev/null | wc -l)\"\n")
		if err := os.WriteFile(filepath.Join(outDir, "run.sh"), []byte(sh.String()), 0o755); err != nil {
			panic(err)
		}
	}
	fmt.Fprintf(os.Stderr, "total vectors: %d in %d shards\n", total, len(shardNames))
}
