// Vector generator for the Coq model of jsonata-go's date functions
// (JV.Model.LibDate, JV.Model.LibFormatDate).
//
// It calls the REAL code (jlib.FromMillis, jlib.ToMillis, jxpath.FormatTime, jxpath.FormatNumber,
// time.Parse, time.Time.Date/Weekday/YearDay/ISOWeek), each call under recover() and with a
// timeout, and writes Coq files DV.v (checker) and V_000.v, V_001.v, ... (about 1000 vectors
// each) into the output directory.  Every V_*.v ends with
//     Definition bad := Eval vm_compute in filter (fun c => negb (check tab c)) cases.
//     Print bad.
// and `bad` must be [] in every shard.
//
// formatdate.go prints integers through FormatNumber(float64(n), layout, defaultDecimalFormat),
// which the model takes as a parameter; each shard therefore carries a table `tab` of the real
// FormatNumber results for every (n, layout) pair the vectors of that shard can need.
//
// How to run (scratch module outside /repo and /verif):
//   export GOFLAGS=-mod=mod GOPROXY=off GOSUMDB=off GOTOOLCHAIN=local
//   mkdir -p /tmp/dates/out && cd /tmp/dates && cat > go.mod <<EOF
//   module scratch
//   go 1.16
//   require github.com/blues/jsonata-go v0.0.0
//   replace github.com/blues/jsonata-go => /repo
//   EOF
//   (to validate against a patched tree, point the replace at that tree instead, e.g. a git worktree)
//   cp /verif/harness/vectors/dates/main.go . && go run . /tmp/dates/out
//   (compile /verif/coq Base, Model/LibDate.v, Model/LibFormatDate.v, Spec/C19.v, Proofs/LibDateProofs.v first)
//   cd /tmp/dates/out && coqc -Q /verif/coq JV -Q . DV DV.v
//   ls V_*.v | xargs -P 12 -n 1 sh -c 'timeout 3000 coqc -Q /verif/coq JV -Q . DV $0 > $0.log 2>&1'
//   grep -L "bad = \[\]" V_*.v.log        # must print nothing
//   cat V_*.v.log | grep -c "bad = \[\]"   # number of shards
package main

import (
	"encoding/hex"
	"fmt"
	"math"
	"math/rand"
	"os"
	"path/filepath"
	"regexp"
	"sort"
	"strconv"
	"strings"
	"time"

	"github.com/blues/jsonata-go/jlib"
	"github.com/blues/jsonata-go/jlib/jxpath"
	"github.com/blues/jsonata-go/jtypes"
)

const shardSize = 1000
const callTimeout = 1500 * time.Millisecond

var outDir string
var shardNo int
var shardCases []string
var total int

type fiKey struct {
	n      int
	layout string
}

var fiCache = map[fiKey]string{}
var shardNeeds = map[fiKey]bool{}
var timeouts int

func hx(s string) string { return "\"" + hex.EncodeToString([]byte(s)) + "\"" }

func zlit(n int64) string {
	if n < 0 {
		return fmt.Sprintf("(%d)", n)
	}
	return fmt.Sprintf("%d", n)
}

type strRes struct {
	kind int // 0 ok, 1 err, 2 panic, 3 timeout
	s    string
}

func (r strRes) coq() string {
	switch r.kind {
	case 0:
		return "(XOk " + hx(r.s) + ")"
	case 1:
		return "XErr"
	case 2:
		return "XPanic"
	}
	return "XTimeout"
}

// run f under recover with a timeout
func guarded(f func() (string, error)) strRes {
	ch := make(chan strRes, 1)
	go func() {
		defer func() {
			if r := recover(); r != nil {
				ch <- strRes{kind: 2}
			}
		}()
		s, err := f()
		if err != nil {
			ch <- strRes{kind: 1}
		} else {
			ch <- strRes{kind: 0, s: s}
		}
	}()
	select {
	case r := <-ch:
		return r
	case <-time.After(callTimeout):
		timeouts++
		return strRes{kind: 3}
	}
}

var decimalFormat = jxpath.NewDecimalFormat()

func need(n int, layout string) {
	if layout == "" {
		return
	}
	k := fiKey{n, layout}
	if _, ok := fiCache[k]; !ok {
		r := guarded(func() (string, error) { return jxpath.FormatNumber(float64(n), layout, decimalFormat) })
		fiCache[k] = r.coq()
	}
	shardNeeds[k] = true
}

// ---- enumeration of the (n, layout) pairs FormatTime(t, picture) can pass to formatInteger ----

func isWS(r rune) bool { return r == ' ' || r == '\t' || r == '\n' || r == '\r' || r == '\v' }
func stripSpace(s string) string {
	return strings.Map(func(r rune) rune {
		if isWS(r) {
			return -1
		}
		return r
	}, s)
}

var defaults = map[byte]string{'Y': "1", 'M': "1", 'D': "1", 'd': "1", 'F': "n", 'W': "1", 'w': "1", 'H': "1", 'h': "1",
	'P': "n", 'm': "01", 's': "01", 'f': "1", 'Z': "01:01", 'z': "01:01", 'C': "n", 'E': "n"}

var reTZ = regexp.MustCompile("^([0-9]+)([^0-9A-Za-z])([0-9]+)$")

// replica of formatdate.go's lastDigits (only used to enumerate FormatNumber arguments)
func lastDigits(n, count int) int {
	const maxInt = int(^uint(0) >> 1)
	mod := 1
	for i := 0; i < count; i++ {
		if mod > maxInt/10 {
			return n
		}
		mod *= 10
	}
	return n % mod
}

func countDigits(s string) int {
	n := 0
	for _, r := range s {
		if strings.ContainsRune("0123456789#", r) {
			n++
		}
	}
	return n
}

func needMarker(t time.Time, body string) {
	s := stripSpace(body)
	if s == "" {
		return
	}
	comp := s[0]
	layouts := map[string]bool{}
	if d := defaults[comp]; d != "" {
		layouts[d] = true
	}
	widths := map[int]bool{}
	if len(s) > 1 {
		rest := s[1:]
		pres := rest
		if pos := strings.LastIndexByte(rest, ','); pos >= 0 {
			pres = rest[:pos]
			for _, p := range strings.Split(rest[pos+1:], "-") {
				if w, err := strconv.Atoi(p); err == nil && w > 0 && w < 100 {
					widths[w] = true
				}
			}
		}
		layouts[pres] = true
		if len(pres) >= 2 {
			layouts[pres[:len(pres)-1]] = true
		}
	}
	if comp == 'Z' || comp == 'z' {
		for l := range layouts {
			if m := reTZ.FindStringSubmatch(l); m != nil {
				layouts[m[1]] = true
				layouts[m[3]] = true
			}
		}
	}
	var ns []int
	switch comp {
	case 'Y':
		y := t.Year()
		ns = append(ns, y)
		for l := range layouts {
			widths[countDigits(l)] = true
		}
		for w := range widths {
			ns = append(ns, lastDigits(y, w))
		}
	case 'M':
		ns = append(ns, int(t.Month()))
	case 'D':
		ns = append(ns, t.Day())
	case 'd':
		ns = append(ns, t.YearDay())
	case 'F':
		ns = append(ns, int(t.Weekday())+1)
	case 'W':
		_, w := t.ISOWeek()
		ns = append(ns, w)
	case 'w':
		ns = append(ns, t.Day()/7+1)
	case 'H':
		ns = append(ns, t.Hour())
	case 'h':
		h := t.Hour()
		if h > 12 {
			h -= 12
		}
		ns = append(ns, h)
	case 'm':
		ns = append(ns, t.Minute())
	case 's':
		ns = append(ns, t.Second())
	case 'Z', 'z':
		_, off := t.Zone()
		h := off / 3600
		m := off % 3600 / 60
		am, ah := m, h
		if am < 0 {
			am = -am
		}
		if ah < 0 {
			ah = -ah
		}
		ns = append(ns, ah, ah*100+am, am)
	}
	for l := range layouts {
		for _, n := range ns {
			need(n, l)
		}
	}
}

func needFor(t time.Time, picture string) {
	for i := 0; i < len(picture); i++ {
		if picture[i] == '[' {
			j := strings.IndexByte(picture[i+1:], ']')
			if j >= 0 {
				needMarker(t, picture[i+1:i+1+j])
			}
		}
	}
}

// ---- shard output ----

const dvSource = `(* generated by /verif/harness/vectors/dates/main.go — checker for the date vectors *)
From JV Require Import Base.Bytes Base.Utf8 Base.Res Model.LibDate Model.LibFormatDate.
From JV Require Proofs.LibDateProofs.
Open Scope Z_scope.

Inductive xs := XOk (h : string) | XErr | XPanic | XTimeout.
Inductive xz := ZOk (z : Z) | ZErr | ZPanic | ZTimeout.

Definition unhex (s : string) : string :=
  match string_of_hex s with Some x => x | None => "<<bad hex>>"%string end.
Definition unhexo (o : option string) : option string :=
  match o with Some h => Some (unhex h) | None => None end.

Definition fi_of (tab : list (string * list (Z * xs))) (n : Z) (layout : string) : lres string :=
  match find (fun e => seqb (fst e) (hex_of_string layout)) tab with
  | None => LPanic "ORACLE-MISSING-LAYOUT"
  | Some (_, l) =>
      match find (fun e => fst e =? n) l with
      | None => LPanic "ORACLE-MISSING-N"
      | Some (_, XOk h) => LOk (unhex h)
      | Some (_, XErr) => LErr "formatnumber"
      | Some (_, XPanic) => LPanic "formatnumber"
      | Some (_, XTimeout) => LFuel
      end
  end.

Definition agree_s (r : lres string) (e : xs) : bool :=
  match r, e with
  | LOk s, XOk h => seqb s (unhex h)
  | LErr _, XErr => true
  | LPanic w, XPanic => negb (sprefix "ORACLE" w)
  | LFuel, XTimeout => true
  | _, _ => false
  end.
Definition agree_z (r : lres Z) (e : xz) : bool :=
  match r, e with
  | LOk a, ZOk b => a =? b
  | LErr _, ZErr => true
  | LPanic w, ZPanic => negb (sprefix "ORACLE" w)
  | LFuel, ZTimeout => true
  | _, _ => false
  end.

Inductive vcase :=
| VFrom (ms : Z) (pic tz : option string) (e : xs)
| VTo (s : string) (pic tz : option string) (e : xz)
| VFmt (sec ns off : Z) (name pic : string) (e : xs)
| VParse (layout value : string) (e : option (Z * Z * Z * string))
| VCal (days y m d wd yd iy iw : Z)
| VFi (n : Z) (layout : string) (e : xs).

Definition check (tab : list (string * list (Z * xs))) (c : vcase) : bool :=
  match c with
  | VFrom ms pic tz e => agree_s (from_millis (fi_of tab) ms (unhexo pic) (unhexo tz)) e
  | VTo s pic tz e => agree_z (to_millis (fi_of tab) (unhex s) (unhexo pic) (unhexo tz)) e
  | VFmt sec ns off name pic e =>
      agree_s (format_time (fi_of tab)
                 {| unix_sec := sec; nsec := ns; offset := off; zname := unhex name |} (unhex pic)) e
  | VParse layout value e =>
      match go_time_parse (unhex layout) (unhex value), e with
      | LOk t, Some (sec, ns, off, name) =>
          (unix_sec t =? sec) && (nsec t =? ns) && (offset t =? off) && seqb (zname t) (unhex name)
      | LErr _, None => true
      | _, _ => false
      end
  | VCal days y m d wd yd iy iw =>
      let '(y', m', d') := civil_of_days days in
      let '(iy', iw') := iso_week days in
      (y' =? y) && (m' =? m) && (d' =? d) && (weekday_of_days days =? wd) && (yearday days =? yd)
      && (iy' =? iy) && (iw' =? iw) && (days_of_civil y m d =? days)
  | VFi n layout e =>
      (* the FormatNumber facts assumed by the inverse-law theorem (hypotheses fi_year, fi_2,
         fi_2neg, fi_4 of Proofs/LibDateProofs.v) hold of the real FormatNumber *)
      agree_s (Proofs.LibDateProofs.fi_example n (unhex layout)) e
  end.
`

func flush() {
	if len(shardCases) == 0 {
		return
	}
	byLayout := map[string][]int{}
	for k := range shardNeeds {
		byLayout[k.layout] = append(byLayout[k.layout], k.n)
	}
	var layouts []string
	for l := range byLayout {
		layouts = append(layouts, l)
	}
	sort.Strings(layouts)
	var b strings.Builder
	b.WriteString("From JV Require Import Base.Bytes Base.Utf8 Base.Res Model.LibDate Model.LibFormatDate.\n")
	b.WriteString("From DV Require Import DV.\nOpen Scope Z_scope.\n")
	b.WriteString("Definition tab : list (string * list (Z * xs)) := [\n")
	for i, l := range layouts {
		ns := byLayout[l]
		sort.Ints(ns)
		if i > 0 {
			b.WriteString(";\n")
		}
		b.WriteString("(" + hx(l) + "%string, [")
		for j, n := range ns {
			if j > 0 {
				b.WriteString("; ")
			}
			b.WriteString("(" + zlit(int64(n)) + ", " + fiCache[fiKey{n, l}] + ")")
		}
		b.WriteString("])")
	}
	b.WriteString("].\n")
	b.WriteString("Definition cases : list vcase := [\n")
	b.WriteString(strings.Join(shardCases, ";\n"))
	b.WriteString("].\n")
	b.WriteString("Definition bad := Eval vm_compute in filter (fun c => negb (check tab c)) cases.\nPrint bad.\n")
	name := filepath.Join(outDir, fmt.Sprintf("V_%03d.v", shardNo))
	if err := os.WriteFile(name, []byte(b.String()), 0644); err != nil {
		panic(err)
	}
	shardNo++
	shardCases = nil
	shardNeeds = map[fiKey]bool{}
}

func emit(c string) {
	shardCases = append(shardCases, c)
	total++
	if len(shardCases) >= shardSize {
		flush()
	}
}

// ---- the vector kinds ----

type optS struct {
	set bool
	s   string
}

func (o optS) coq() string {
	if !o.set {
		return "None"
	}
	return "(Some " + hx(o.s) + "%string)"
}
func (o optS) jt() jtypes.OptionalString {
	if !o.set {
		return jtypes.OptionalString{}
	}
	return jtypes.NewOptionalString(o.s)
}
func some(s string) optS { return optS{true, s} }

var none = optS{}

// harness-side replica of date.go's parseTimeZone, only used to find out which FormatNumber
// calls can occur
func zoneOf(tz string) (*time.Location, bool) {
	if len(tz) != 5 || (tz[0] != '+' && tz[0] != '-') {
		return nil, false
	}
	h, err := strconv.Atoi(tz[1:3])
	if err != nil {
		return nil, false
	}
	m, err := strconv.Atoi(tz[3:5])
	if err != nil {
		return nil, false
	}
	mult := 1
	if tz[0] == '-' {
		mult = -1
	}
	return time.FixedZone(tz, mult*(60*(60*h+m))), true
}

const defaultFormat = "[Y]-[M01]-[D01]T[H01]:[m]:[s].[f001][Z01:01t]"

var defaultParse = []string{
	"[Y]-[M01]-[D01]T[H01]:[m]:[s][Z01:01t]",
	"[Y]-[M01]-[D01]T[H01]:[m]:[s][Z0100t]",
	"[Y]-[M01]-[D01]T[H01]:[m]:[s]",
	"[Y]-[M01]-[D01]",
	"[Y]",
}

func emitFrom(ms int64, pic, tz optS) strRes {
	t := time.Unix(ms/1000, (ms%1000)*int64(time.Millisecond)).UTC()
	ok := true
	if tz.s != "" {
		var loc *time.Location
		loc, ok = zoneOf(tz.s)
		if ok {
			t = t.In(loc)
		}
	}
	if ok {
		p := pic.s
		if p == "" {
			p = defaultFormat
		}
		needFor(t, p)
	}
	r := guarded(func() (string, error) { return jlib.FromMillis(ms, pic.jt(), tz.jt()) })
	emit(fmt.Sprintf("VFrom %s %s %s %s", zlit(ms), pic.coq(), tz.coq(), r.coq()))
	return r
}

var refTime = time.Date(2006, time.January, 2, 15, 4, 5, 0, time.FixedZone("MST", -7*60*60))

func emitTo(s string, pic, tz optS) {
	if pic.s == "" {
		for _, p := range defaultParse {
			needFor(refTime, p)
		}
	} else {
		needFor(refTime, pic.s)
	}
	var ms int64
	r := guarded(func() (string, error) {
		v, err := jlib.ToMillis(s, pic.jt(), tz.jt())
		ms = v
		return "", err
	})
	var e string
	switch r.kind {
	case 0:
		e = "(ZOk " + zlit(ms) + ")"
	case 1:
		e = "ZErr"
	case 2:
		e = "ZPanic"
	default:
		e = "ZTimeout"
	}
	emit(fmt.Sprintf("VTo %s%%string %s %s %s", hx(s), pic.coq(), tz.coq(), e))
}

func emitFmt(sec, ns int64, off int, name, pic string) {
	t := time.Unix(sec, ns).In(time.FixedZone(name, off))
	needFor(t, pic)
	r := guarded(func() (string, error) { return jxpath.FormatTime(t, pic) })
	emit(fmt.Sprintf("VFmt %s %s %s %s%%string %s%%string %s", zlit(sec), zlit(ns), zlit(int64(off)), hx(name), hx(pic), r.coq()))
}

func emitParse(layout, value string) {
	var t time.Time
	r := guarded(func() (string, error) {
		v, err := time.Parse(layout, value)
		t = v
		return "", err
	})
	e := "None"
	if r.kind == 0 {
		name, off := t.Zone()
		e = fmt.Sprintf("(Some (%s, %s, %s, %s%%string))", zlit(t.Unix()), zlit(int64(t.Nanosecond())), zlit(int64(off)), hx(name))
	} else if r.kind != 1 {
		panic("time.Parse panicked or hung: " + layout + " / " + value)
	}
	emit(fmt.Sprintf("VParse %s%%string %s%%string %s", hx(layout), hx(value), e))
}

func emitFi(n int, layout string) {
	r := guarded(func() (string, error) { return jxpath.FormatNumber(float64(n), layout, decimalFormat) })
	emit(fmt.Sprintf("VFi %s %s%%string %s", zlit(int64(n)), hx(layout), r.coq()))
}

func emitCal(days int64) {
	t := time.Unix(days*86400, 0).UTC()
	y, m, d := t.Date()
	iy, iw := t.ISOWeek()
	emit(fmt.Sprintf("VCal %s %s %d %d %d %d %s %d", zlit(days), zlit(int64(y)), int(m), d, int(t.Weekday()), t.YearDay(), zlit(int64(iy)), iw))
}

func daysOf(y int, m time.Month, d int) int64 {
	return time.Date(y, m, d, 0, 0, 0, 0, time.UTC).Unix() / 86400
}

func offsets() []string {
	var r []string
	for mins := -14 * 60; mins <= 14*60; mins += 15 {
		a := mins
		sign := "+"
		if a < 0 {
			a = -a
			sign = "-"
		}
		r = append(r, fmt.Sprintf("%s%02d%02d", sign, a/60, a%60))
	}
	return r
}

var badZones = []string{"+2500", "0100", "+1", "+01:00", "Z", "UTC", "+-1-2", "-+1+2", "++1+1", "+ 1 2", "+1 2 ", "+0a00",
	"+00a0", "+9999", "-9999", "+2460", "-0099", "+١٢٣٤", "*0100", " 0100", "+01000", "", "+0+00", "+-0-0", "+1e10", "+0x10",
	"+0_10", "+-9-9", "-0000", "+0000", "+2400", "-2400", "+2401", "-0001", "+0059", "+0060", "-0030", "-0059", "−0100", "+\x0000\x00"}

func main() {
	os.Setenv("TZ", "UTC")
	if len(os.Args) < 2 {
		fmt.Println("usage: go run . <outdir>")
		os.Exit(2)
	}
	outDir = os.Args[1]
	os.MkdirAll(outDir, 0755)
	if err := os.WriteFile(filepath.Join(outDir, "DV.v"), []byte(dvSource), 0644); err != nil {
		panic(err)
	}
	rng := rand.New(rand.NewSource(19))
	offs := offsets()

	// ---------- A. calendar: years -5000..15000 ----------
	for y := -5000; y <= 15000; y++ {
		emitCal(daysOf(y, 1, 1))
		emitCal(daysOf(y, 12, 31))
		emitCal(daysOf(y, 2, 28) + 1)
	}
	for d := daysOf(-5000, 1, 1); d <= daysOf(15000, 12, 31); d += 331 {
		emitCal(d)
	}
	for d := int64(-800); d <= 800; d++ {
		emitCal(d)
	}
	for _, d := range []int64{math.MinInt64 / 86400000, math.MaxInt64 / 86400000, -719468, -719469, -719467, -719162, -719163,
		146097, 146096, -146097, 106751991167, -106751991167} {
		emitCal(d)
		emitCal(d + 1)
		emitCal(d - 1)
	}
	flush()

	// ---------- B. default picture: FromMillis and the ToMillis round trip ----------
	var sampleTexts []string
	i := 0
	for d := daysOf(1000, 1, 1); d <= daysOf(9999, 12, 31); d += 331 {
		for _, delta := range []int64{-1, 0, 1} {
			ms := d*86400000 + delta
			tz := none
			switch i % 4 {
			case 1, 2:
				tz = some(offs[(i/4)%len(offs)])
			case 3:
				tz = some(offs[rng.Intn(len(offs))])
			}
			i++
			r := emitFrom(ms, none, tz)
			if r.kind == 0 {
				emitTo(r.s, none, none)
				if i%97 == 0 {
					sampleTexts = append(sampleTexts, r.s)
				}
			}
		}
	}
	// all 24 hours, each minute-of-hour edge, some days; leap days; year ends; ISO-week edge years
	special := []int64{}
	for _, ymd := range [][3]int{{2015, 12, 31}, {2016, 1, 3}, {2020, 12, 31}, {2021, 1, 3}, {2000, 2, 29}, {1900, 2, 28}, {1900, 3, 1},
		{2100, 2, 28}, {2400, 2, 29}, {1999, 12, 31}, {2000, 1, 1}, {1000, 1, 1}, {9999, 12, 31}, {1969, 12, 31}, {1970, 1, 1},
		{2262, 4, 11}, {2262, 4, 12}, {1677, 9, 21}, {2018, 9, 30}, {2024, 2, 29}, {2024, 12, 30}, {2026, 1, 1}, {2010, 1, 3}, {2009, 12, 31}} {
		special = append(special, daysOf(ymd[0], time.Month(ymd[1]), ymd[2]))
	}
	for _, d := range special {
		for h := int64(0); h < 24; h++ {
			for _, delta := range []int64{-1, 0, 1, 59*60000 + 59999} {
				ms := d*86400000 + h*3600000 + delta
				tz := none
				if (h+delta)%3 == 0 {
					tz = some(offs[rng.Intn(len(offs))])
				}
				r := emitFrom(ms, none, tz)
				if r.kind == 0 {
					emitTo(r.s, none, none)
				}
			}
		}
	}
	// every offset (valid and invalid) on a few instants
	for _, ms := range []int64{0, 1538323085762, -1, 253370764800000 - 1, -30610224000000} {
		for _, z := range offs {
			r := emitFrom(ms, none, some(z))
			if r.kind == 0 {
				emitTo(r.s, none, some(z))
			}
			emitFrom(ms, some("[H01]:[m01] [Z] [z] [Z0101] [Z01] [Z1] [ZZ] [ZN] [Z0101t] [z01:01t] [Z001]"), some(z))
		}
		for _, z := range badZones {
			r := emitFrom(ms, none, some(z))
			if r.kind == 0 {
				emitTo(r.s, none, none)
			}
			emitFrom(ms, some("[H01]:[m01] [Z] [z] [Z0101] [Z01] [Z1] [ZZ] [ZN] [Z0101t] [z01:01t] [Z001]"), some(z))
		}
	}
	// negative ms, ms beyond 2262, extremes
	for _, ms := range []int64{-1, -999, -1000, -1001, -86400000, -86400001, -62135596800000, -62135596800001, -62167219200000,
		-62167219200001, -62198755200000, 9223372036854, 9223372036855, 9223372036854775, 9223372036854776, -9223372036854, -9223372036855,
		-9223372036856, 253402300799999, 253402300800000, 253370764800000, 32503680000000, math.MaxInt64, math.MinInt64, math.MaxInt64 - 1,
		math.MinInt64 + 1, 1 << 53, -(1 << 53), 1e15, -1e15, 1e17, -1e17, 4102444800000, 7258118400000} {
		for _, tz := range []optS{none, some("+0530"), some("-1145"), some("")} {
			r := emitFrom(ms, none, tz)
			if r.kind == 0 {
				emitTo(r.s, none, none)
			}
			emitFrom(ms, some("[Y] [Y0001] [Y01] [M] [D] [d] [F] [F1] [W] [w] [H] [h] [P] [m] [s] [f] [Z] [z] [C] [E]"), tz)
			emitFrom(ms, some(""), tz)
		}
	}
	for k := 0; k < 3000; k++ {
		var ms int64
		switch k % 3 {
		case 0:
			ms = rng.Int63n(253402300800000+30610224000000) - 30610224000000 // years 1000..9999
		case 1:
			ms = rng.Int63n(4e12) - 2e12
		default:
			ms = int64(rng.Uint64())
		}
		tz := none
		if k%2 == 0 {
			tz = some(offs[rng.Intn(len(offs))])
		}
		r := emitFrom(ms, none, tz)
		if r.kind == 0 {
			emitTo(r.s, none, none)
		}
	}
	flush()

	// ---------- C. every component letter x presentation modifier x width modifier ----------
	letters := []string{"Y", "M", "D", "d", "F", "W", "w", "H", "h", "P", "m", "s", "f", "Z", "z", "C", "E", "X", "q", "é", "1"}
	mods := []string{"", "1", "01", "001", "0001", "I", "i", "w", "W", "Ww", "n", "N", "Nn", "1o", "01o", "1t", "01t", "1c", "1a", "No",
		"Nnt", "o", "t", "#1", "##01", "9", "01:01", "0101", "01:01t", "0101t", "0", "00", "Z", "Zt", "01.01", "0100", "010101",
		"01é01", "1-1", "1x1", "01:", ":01", "1:1o", "#", "a", "ot", "1,0", "12345", "000001", "#,##0", "0.0", "nN", "NN"}
	widths := []string{"", ",2-3", ",*-4", ",3", ",*", ",*-*", ",2-1", ",0", ",a", ",1-2-3", ",", ",-", ",*-20", ",*-19", ",*-64", ",*-65",
		",12-*", ",1", ",*-1", ",*-2", ",5-5", ",007", ",+3", ",3-", ",-3", ",99999999999999999999", ",*-18"}
	instants := []int64{0, 1538323085762, 951825600000 + 43200000, -1, 1136239445000, 1451602800000 - 1, 1609372800000 + 13*3600000 + 7*60000 + 9123,
		-30610224000000, 253402300799999, -62198755200000 + 5000, 1726272000000 + 12*3600000, 1583020800000 - 3600000*11 - 60000}
	k := 0
	for _, l := range letters {
		for _, m := range mods {
			for wi, w := range widths {
				// the full cross product for the common widths, a rotating subset for the rest
				nInst := 1
				if wi < 4 {
					nInst = 4
				}
				for q := 0; q < nInst; q++ {
					ms := instants[k%len(instants)]
					k++
					tz := none
					if k%3 == 0 {
						tz = some(offs[(k/3)%len(offs)])
					}
					emitFrom(ms, some("["+l+m+w+"]"), tz)
				}
			}
		}
	}
	flush()
	// the [h] / [P] / [H] matrix: every hour
	for h := int64(0); h < 24; h++ {
		for _, p := range []string{"[h]", "[h01]", "[h1o]", "[H]", "[H01]", "[P]", "[PN]", "[Pn]", "[PNn]", "[P,*-1]", "[PN,*-1]", "[h]:[m01] [PN]", "[H]h[m]m[s]s",
			"[h#1]", "[P1]", "[Pn,3]", "[Pn,3-3]"} {
			emitFrom(1538265600000+h*3600000+7*60000+8009, some(p), none)
			emitFrom(h*3600000, some(p), some("+0000"))
		}
	}
	// names: every month and weekday with every name format and max width
	for mth := 1; mth <= 12; mth++ {
		ms := daysOf(2021, time.Month(mth), 1+mth) * 86400000
		for _, p := range []string{"[MNn]", "[MN]", "[Mn]", "[MNn,*-3]", "[MN,*-2]", "[Mn,*-1]", "[MNn,*-4]", "[MNn,*-5]", "[MNn,*-6]", "[MNn,*-7]", "[MNn,*-8]",
			"[MNn,*-9]", "[MNn,10]", "[MNn,10-12]", "[MNn,3-3]", "[M1o]", "[MI]", "[Mi]", "[Mw]", "[MNno]", "[MNt]", "[M01]", "[M1]", "[M#1]"} {
			emitFrom(ms, some(p), none)
		}
	}
	for wd := 0; wd < 7; wd++ {
		ms := (daysOf(2021, 3, 7) + int64(wd)) * 86400000
		for _, p := range []string{"[FNn]", "[FN]", "[Fn]", "[F]", "[FNn,*-3]", "[FN,*-2]", "[Fn,*-1]", "[FNn,*-4]", "[FNn,*-5]", "[FNn,*-6]", "[FNn,*-7]", "[FNn,*-8]",
			"[FNn,*-9]", "[FNn,11]", "[F1]", "[F01]", "[F1o]", "[FI]", "[Fw]", "[F0]", "[W]", "[W01]", "[w]", "[d]", "[d001]", "[d1o]"} {
			emitFrom(ms, some(p), none)
		}
	}
	// days 1..31 and year-days, ordinals
	for d := int64(0); d < 400; d++ {
		ms := (daysOf(2023, 12, 20) + d) * 86400000
		emitFrom(ms, some("[D1o] [D01o] [d1o] [D] [d] [W] [w] [F1] [FNn,*-3] [Y0001]-W[W01]-[F1] [Y,2-2]|[Y,*-2]|[Y01]|[Y001]|[Y1o]"), none)
	}
	flush()
	// ISO week edges: 28 Dec .. 5 Jan for years 1995..2035 and some far years
	for _, y := range []int{1000, 1582, 1600, 1899, 1900, 1995, 1996, 1997, 1998, 1999, 2000, 2001, 2002, 2003, 2004, 2005, 2006, 2007, 2008, 2009, 2010, 2011, 2012, 2013,
		2014, 2015, 2016, 2017, 2018, 2019, 2020, 2021, 2022, 2023, 2024, 2025, 2026, 2027, 2028, 2029, 2030, 2031, 2032, 2033, 2034, 2035, 2099, 2100, 2101, 2400, 9998, 9999} {
		for d := daysOf(y, 12, 26); d <= daysOf(y, 12, 26)+12; d++ {
			emitFrom(d*86400000, some("[Y0001]-[M01]-[D01] [FNn,*-3] W[W] w[w] d[d] [W01]/[F1]"), none)
			emitFrom(d*86400000+86399999, some("W[W]"), some("+1400"))
			emitFrom(d*86400000, some("W[W]"), some("-1400"))
		}
	}
	flush()

	// ---------- D. literal text, escapes, whitespace in markers, malformed pictures ----------
	malformed := []string{"[", "]", "[[", "]]", "[]", "[ ]", "[Y", "Y]", "[Y,]", "[Y,*-*]", "[Y,2-1]", "[[]", "[]]", "[[]]", "[[Y]]", "[[[Y]]]", "[[[Y]", "[Y]]]", "[Y]]",
		"]][Y]", "[Y]]]x", "a[[b]]c[Y]", "[Y][[", "[Y][", "[Y]]", "[Y[M]]", "[Y][M", "[ Y ]", "[Y 0001]", "[Y\t0\n0\r0\v1]", "[ M N n , * - 3 ]", "[\n]", "[Y]\n[M]", "x",
		"", "no markers", "[[no markers]]", "[Y]é[M]ü", "é[Y]", "[é]", "[Yé]", "\xff[Y]\xfe", "[\xff]", "[Y\xff]", "[Y,\xff]", "[Y1\xff1]", "[Z1\xff1]", "[Y,2-3-4]", "[Y,*]",
		"[Y,**]", "[Y,1*]", "[Y,,2]", "[Y1,2,3]", "[Y,2,3]", "[Y,2,]", "[YY]", "[Y-M]", "[Y][M][D]", "[Y]-[M]-[D]T[H]:[m]:[s].[f]", "[D]/[M]/[Y] [h]:[m] [P]",
		"the [D1o] of [MNn], [Y]", "[[[D]]]", "]]]][Y]", "[Y]]]]]", "[[[[Y]", "[Y]]]]", "][Y]", "[Y]]x]", "[Y][[[M]", "[Y,3]", "[Y01,3]", "[Y,3-4]", "[Y0001,*-2]",
		"[Y#0]", "[Y##0]", "[Y###0]", "[Y#,##0]", "[Y0,000]", "[H0e0]", "[m0e0]", "[s0.0e0]", "[Y0e0]", "[Z0e0]", "[H1e1]", "[Ye]", "[H%]", "[H0%]", "[H0;0]", "[H0;]", "[H;0]",
		"[H0.0]", "[H.0]", "[H0.]", "[H0,0]", "[H,0]", "[H0..0]", "[H0'x']", "[H'0]", "[Hx0y]", "[H-0]", "[H+0]", "[H(0)]", "[H٠١]", "[H１]", "[f]", "[f1]", "[f01]", "[f001]",
		"[f0001]", "[f000000001]", "[f0000000001]", "[f00000000000001]", "[f1o]", "[f#1]", "[f,3]", "[f001,3]", "[fN]", "[f1x]", "[fé1]", "[f1,*-2]", "[f1é]",
		"[ZN]", "[Zn]", "[ZNn]", "[zN]", "[ZN,*-2]", "[ZN,6]", "[ZZ]", "[Zz]", "[zZ]", "[Z,8]", "[z,12]", "[Z0101,7]", "[ZZ,3]", "[Z01:01,*-3]", "[Z1:1]", "[Z1:01]", "[Z001:001]",
		"[Z01 01]", "[Z01h01]", "[Z01_01]", "[Z01-01]", "[Z01+01]", "[Z01::01]", "[Z:01]", "[Z01:]", "[Z01:01:01]", "[Z01:01x]", "[Z01:01o]", "[Z01:01c]", "[Z01:01a]", "[Z01t]",
		"[Z1t]", "[Z0101t]", "[Zt]", "[ZNt]", "[ZZt]", "[z0101t]", "[z01t]", "[z1]", "[z01]", "[z0101]", "[z01:01]", "[zZ]", "[zN]", "[Z#1]", "[Z#1:01]", "[Z1#]", "[Z01é01]",
		"[C]", "[CN]", "[Cn]", "[CNn]", "[C1]", "[CN,*-1]", "[CN,4]", "[E]", "[EN]", "[ENn]", "[E1]", "[E,*-1]", "[w]", "[w1]", "[w01]", "[wN]", "[w1o]",
		"[Y,*-100]", "[Y,*-63]", "[Y,*-62]", "[Y,*-30]", "[Y,*-21]", "[Y,100-100]", "[MNn,*-100]", "[MNn,100]", "[MNn,1000-*]", "[PN,20]", "[ZN,20]", "[Z,20]", "[D,20]", "[D01,20]",
		"[D,2]", "[D,2-2]", "[H,2]", "[m,1]", "[m,*-1]", "[s,3]", "[Y,4]", "[Y,4-4]", "[M,2]", "[d,3]", "[W,2]", "[F,3]", "[F1,3]", "[h,2]", "[f,3]", "[f,3-3]", "[f,*-3]",
		"[Y,9223372036854775807]", "[Y,9223372036854775808]", "[Y,00000000000000000000002]", "[MNn,00000000000000000000002-3]",
		"[Mn,*-9223372036854775807]"}
	for _, p := range malformed {
		for _, ms := range []int64{0, 1538323085762, -62198755200000 + 86400000*45 + 1} {
			emitFrom(ms, some(p), none)
			emitFrom(ms, some(p), some("-0730"))
		}
		emitTo("2006-01-02T15:04:05.000-07:00", some(p), none)
		emitTo("2018", some(p), none)
	}
	flush()
	// random pictures assembled from fragments
	frags := []string{"[", "]", "[[", "]]", "Y", "M", "D", "d", "F", "W", "w", "H", "h", "P", "m", "s", "f", "Z", "z", "C", "E", "0", "1", "01", "001", "N", "n", "Nn", "o", "t", "c", "a",
		",", "-", "*", "2", "3", " ", ":", "#", "é", "x", "T", ".", "[Y]", "[M01]", "[D1o]", "[H01]", "[m]", "[s]", "[Z]", "[MNn]", "[FNn,*-3]", "[h]", "[P]", "[f001]"}
	for n := 0; n < 6000; n++ {
		var sb strings.Builder
		cnt := 1 + rng.Intn(8)
		for j := 0; j < cnt; j++ {
			sb.WriteString(frags[rng.Intn(len(frags))])
		}
		ms := instants[rng.Intn(len(instants))]
		tz := none
		if n%4 == 0 {
			tz = some(offs[rng.Intn(len(offs))])
		}
		emitFrom(ms, some(sb.String()), tz)
		if n%5 == 0 {
			emitTo("2006-01-02T15:04:05", some(sb.String()), none)
		}
	}
	flush()

	// ---------- E. FormatTime directly: arbitrary nanoseconds, zone names, offsets with seconds ----------
	fmtPics := []string{defaultFormat, "[Y0001]-[M01]-[D01]T[H01]:[m01]:[s01].[f001][Z01:01]", "[f]", "[f1]|[f01]|[f001]|[f000001]|[f000000001]", "[ZN]|[Zn]|[ZNn]|[zN]|[ZN,6]",
		"[Z]|[z]|[Z0101]|[Z01]|[Z1]|[ZZ]|[Z01:01t]|[Z0101t]|[Z1t]|[Z001]|[Z0001]", "[H]:[m]:[s] [h] [P] [F] [FNn] [D] [d] [W] [w] [M] [MNn] [Y] [C] [E]", "[Y]", "[Y,*-2]", "[Y01]"}
	zones := []struct {
		name string
		off  int
	}{{"UTC", 0}, {"", 0}, {"MST", -25200}, {"CEST", 7200}, {"x", 3661}, {"abc def", -1}, {"NST", -12600}, {"", 19800}, {"Z", 1}, {"weird", -3599}, {"W", 3599},
		{"a", 43200}, {"b", -43200}, {"c", 46800}, {"d", -46800}, {"e", 360000}, {"f", -360000}, {"g", 59}, {"h", -59}, {"i", 60}, {"j", -60}, {"k", 86399}, {"l", -86399}}
	for n := 0; n < 4000; n++ {
		var sec int64
		switch n % 4 {
		case 0:
			sec = rng.Int63n(253402300800+30610224000) - 30610224000
		case 1:
			sec = rng.Int63n(4e9) - 2e9
		case 2:
			sec = rng.Int63n(2e13) - 1e13
		default:
			sec = special[rng.Intn(len(special))]*86400 + int64(rng.Intn(86400))
		}
		ns := rng.Int63n(1e9)
		if n%7 == 0 {
			ns = []int64{0, 1, 999999999, 1000000, 999999, 123456789, 100000000}[rng.Intn(7)]
		}
		z := zones[rng.Intn(len(zones))]
		emitFmt(sec, ns, z.off, z.name, fmtPics[n%len(fmtPics)])
	}
	flush()

	// ---------- F. ToMillis through explicit pictures, and corrupted texts ----------
	toPics := []struct {
		pic  string
		gran int64 // the instants the picture can represent: multiples of gran ms
		utc  bool  // picture has no zone: only UTC renderings are invertible
	}{
		{"[Y0001]-[M01]-[D01]T[H01]:[m01]:[s01].[f001][Z01:01]", 1, false},
		{"[Y0001]-[M01]-[D01]T[H01]:[m01]:[s01].[f001][Z0101]", 1, false},
		{"[Y0001]-[M01]-[D01] [H01]:[m01]:[s01]", 1000, true},
		{"[Y0001]-[M01]-[D01]", 86400000, true},
		{"[Y0001][M01][D01][H01][m01][s01]", 1000, true},
		{"[D01]/[M01]/[Y0001] [H01]:[m01]:[s01].[f001] [Z01:01]", 1, false},
		{"[H01]:[m01]:[s01] [Y0001]-[M01]-[D01][Z0101]", 1000, false},
		{"[Y0001]-[M01]-[D01]T[H01]:[m01]:[s01][Z01:01]", 1000, false},
		{"[Y0001]-[M01]-[D01]T[H01]:[m01]:[s01].[f001]", 1, true},
		{"[Y0001]-[M01]", 0, true},
		{"[Y0001]", 0, true},
		{"[M01]/[D01]/[Y0001]", 86400000, true},
		{"[Y0001]-[M01]-[D01]T[H01]:[m01][Z01:01]", 60000, false},
		{"[Y0001][M01][D01]T[H01][m01][s01][f001][Z0101]", 1, false},
	}
	for _, tp := range toPics {
		for n := 0; n < 450; n++ {
			ms := rng.Int63n(253402300800000+30610224000000) - 30610224000000
			if n%5 == 0 {
				ms = special[rng.Intn(len(special))]*86400000 + int64(rng.Intn(86400000))
			}
			if tp.gran > 0 && n%6 != 5 {
				ms -= ((ms % tp.gran) + tp.gran) % tp.gran
			}
			tz := none
			if !tp.utc || n%9 == 8 {
				tz = some(offs[rng.Intn(len(offs))])
			}
			r := emitFrom(ms, some(tp.pic), tz)
			if r.kind == 0 {
				emitTo(r.s, some(tp.pic), tz)
			}
		}
	}
	flush()
	otherPics := []string{"[Y]-[M]-[D]", "[h]:[m] [P]", "[h]:[m01]:[s01] [PN]", "[D1o] [MNn] [Y]", "[FNn], [D] [MNn,*-3] [Y]", "[FNn,*-3] [MNn,*-3] [D] [H01]:[m]:[s] [ZN] [Y]",
		"[d001] [Y0001]", "[d] [Y]", "[ZN] [Y]", "[Y] [z]", "[Y][Z0101]00", "[Y]T[Z01:01]:00", "[Y01]-[M01]", "[Y,2-2]/[M]", "[f1] [Y]", "[Y].[f001]", "[Y] [P]", "[Y] [PN] [h]",
		"[W] [Y]", "[F1] [Y]", "[H]", "[h]", "[m]", "[s]", "[Y] [Z1]", "[Y] [Z01]", "[Y] [Z1t]", "[Y][ZZ]", "[Y0001]-[M01]-[D01]T[H01]:[m01]:[s01],[f001]", "[Y] _[D]", "[D] [M01] _[Y]",
		"[Y]-[M01]-[D01]T[H01]:[m]:[s][Z01:01t]", "[Y]-[M01]-[D01]T[H01]:[m]:[s][Z0100t]", "[M]/[D]/[Y] [h]:[m]:[s] [P]", "[MNn] [D], [Y]", "[MN,*-3] [D01] [Y0001]",
		"[Y]  [M]", "[Y] [M] ", " [Y]", "[Y][M01][D01]", "[C] [Y] [E]", "[Y]é[M]", "[Y]Mon[M]", "[Y]Jan[M]", "[Y]Month[M]", "[Y]January[D]", "[Y] MST", "[Y] PM [h]", "[Y] 15 [m]",
		"[Y] 2006", "[Y].000", "[Y].999", "[s].999", "[s],000 [Y]", "[Y] Z07:00", "[Y] -07:00:00", "[Y] -070000", "[Y][Z01:01]:00", "[Y] __2", "[Y] 002", "[Y] _2", "[Y] 0[M]", "[Y] 1[H]"}
	var texts []string
	for _, p := range otherPics {
		for n := 0; n < 12; n++ {
			ms := rng.Int63n(253402300800000+30610224000000) - 30610224000000
			if n%3 == 0 {
				ms = special[rng.Intn(len(special))]*86400000 + int64(rng.Intn(86400))*1000
			}
			tz := none
			if n%2 == 0 {
				tz = some(offs[rng.Intn(len(offs))])
			}
			r := emitFrom(ms, some(p), tz)
			if r.kind == 0 {
				emitTo(r.s, some(p), tz)
				texts = append(texts, r.s)
				emitTo(corrupt(rng, r.s), some(p), tz)
			}
		}
	}
	flush()
	// default layouts: hand-written texts and corruptions
	hand := []string{"2018", "2018-09-30", "2018-09-30T15:58:05", "2018-09-30T15:58:05Z", "2018-09-30T15:58:05.762Z", "2018-09-30T15:58:05+02:00", "2018-09-30T15:58:05+0200",
		"2018-09-30T15:58:05.1+0200", "2018-09-30T15:58:05.123456789Z", "2018-09-30T15:58:05.1234567891Z", "2018-09-30T15:58:05,5Z", "2018-09-30T15:58:05.", "2018-09-30T15:58:05.Z",
		"9999-01-01T00:00:00.000Z", "9999-12-31T23:59:59.999Z", "2262-04-11T23:47:16.854Z", "2262-04-11T23:47:16.855Z", "1677-09-21T00:12:43.145Z", "1677-09-21T00:12:43.146Z",
		"1677-09-21T00:12:43.147Z", "0000-01-01T00:00:00Z", "0001-01-01", "0999", "999", "10000", "1000", "2018-02-29", "2016-02-29", "1900-02-29", "2000-02-29", "2018-04-31",
		"2018-13-01", "2018-00-01", "2018-01-00", "2018-01-32", "2018-1-1", "2018-09-30T24:00:00", "2018-09-30T23:60:00", "2018-09-30T23:59:60", "2018-09-30T23:59:59+24:00",
		"2018-09-30T23:59:59+25:00", "2018-09-30T23:59:59+00:60", "2018-09-30T23:59:59+00:61", "2018-09-30T23:59:59-00:00", "2018-09-30T23:59:59z", "2018-09-30t23:59:59Z",
		"2018-09-30 23:59:59Z", " 2018", "2018 ", "2018-09-30T15:58:05+02", "2018-09-30T15:58:05+2:00", "2018-09-30T15:58:05 02:00", "2018-09-30T15:58:05*02:00", "", "x",
		"２０１８", "2018-09-30T15:58:05+02:00x", "2018-09-30T15:58:05ZZ", "2018-09-30T15:58:05.5+0230", "+2018", "-2018", "2018-09-30T15:58:05.-5Z", "2018-09-30T15:58:05.+5Z",
		"2018-09-30T15:58:05.5.5Z", "2018-09-30T5:58:05Z", "2018-09-30T15:8:05Z", "2018-09-30T15:58:5Z", "20180930", "2018-0930", "2018-09-30T15:58:05-07:00", "2018-09-30T15:58:05-0700"}
	for _, s := range hand {
		emitTo(s, none, none)
		emitTo(s, some(""), some("+0100"))
	}
	for _, s := range sampleTexts {
		for c := 0; c < 12; c++ {
			emitTo(corrupt(rng, s), none, none)
		}
	}
	flush()

	// ---------- G. time.Parse directly ----------
	layouts := []string{time.ANSIC, time.UnixDate, time.RubyDate, time.RFC822, time.RFC822Z, time.RFC850, time.RFC1123, time.RFC1123Z, time.RFC3339, time.RFC3339Nano,
		time.Kitchen, time.Stamp, time.StampMilli, time.StampMicro, time.StampNano, time.Layout, "2006-01-02 15:04:05", "2006-01-02T15:04:05.000Z07:00", "2006-01-02T15:04:05Z0700",
		"2006-01-02T15:04:05Z07", "2006-01-02T15:04:05Z070000", "2006-01-02T15:04:05Z07:00:00", "2006-01-02T15:04:05-070000", "2006-01-02T15:04:05-07:00:00", "2006-01-02T15:04:05-07",
		"06-1-2 3:4:5 pm", "__2 2006", "002 2006", "002 2006 01 02", "__2 2006 Jan", "Monday January 2 2006", "Mon Jan 2 2006", "_2006 _2", "2006 MST", "MST 2006", "15h04m05s",
		"15:04:05,000", "15:04:05.999", "15:04:05.0000000000", "05.000000000", "05.00", "Jan _2", "Janet 2", "Monday Month", "Z07:00Z07:00", "-07:00 MST", "2006.01.02", "1/2/2006",
		"01/02/06", "2006-01-02T15:04:05", "2006", "3PM", "3pm", "03PM", "15PM", "2006 ", " 2006", "20060102150405", "2006-01-02T15:04:05.000000", "x", ""}
	pvals := []string{"Mon Jan  2 15:04:05 2006", "Mon Jan 2 15:04:05 2006", "Sun Feb 29 23:59:59 2004", "Mon Jan  2 15:04:05 MST 2006", "Mon Jan  2 15:04:05 UTC 2006",
		"Mon Jan  2 15:04:05 GMT+3 2006", "Mon Jan  2 15:04:05 GMT-11 2006", "Mon Jan  2 15:04:05 GMT+24 2006", "Mon Jan  2 15:04:05 GMT 2006", "Mon Jan  2 15:04:05 ChST 2006",
		"Mon Jan  2 15:04:05 WITA 2006", "Mon Jan  2 15:04:05 CEST 2006", "Mon Jan  2 15:04:05 ABCDE 2006", "Mon Jan  2 15:04:05 ABCDT 2006", "Mon Jan  2 15:04:05 ABCDEF 2006",
		"Mon Jan  2 15:04:05 +03 2006", "Mon Jan  2 15:04:05 -0 2006", "Mon Jan  2 15:04:05 AB 2006", "Mon Jan  2 15:04:05 abc 2006", "Mon Jan 02 15:04:05 -0700 2006",
		"02 Jan 06 15:04 MST", "02 Jan 68 15:04 MST", "02 Jan 69 15:04 MST", "02 Jan 06 15:04 -0700", "Monday, 02-Jan-06 15:04:05 MST", "Mon, 02 Jan 2006 15:04:05 MST",
		"Mon, 02 Jan 2006 15:04:05 -0700", "2006-01-02T15:04:05Z", "2006-01-02T15:04:05+07:00", "2006-01-02T15:04:05.123456789-07:00", "2006-01-02T15:04:05.5Z", "3:04PM", "12:04AM",
		"12:04PM", "0:04AM", "13:04PM", "Jan  2 15:04:05", "Jan  2 15:04:05.000", "Jan  2 15:04:05.123", "Jan  2 15:04:05.123456", "Jan  2 15:04:05.123456789", "01/02 03:04:05PM '06 -0700",
		"2006-01-02 15:04:05", "2006-01-02T15:04:05.000Z", "2006-01-02T15:04:05.000+01:30", "2006-01-02T15:04:05+0130", "2006-01-02T15:04:05+01", "2006-01-02T15:04:05+013045",
		"2006-01-02T15:04:05+01:30:45", "2006-01-02T15:04:05-000001", "2006-01-02T15:04:05-00:00:01", "2006-01-02T15:04:05+24:00", "2006-01-02T15:04:05+25:00", "2006-01-02T15:04:05+00:60",
		"2006-01-02T15:04:05+00:61", "2006-01-02T15:04:05+00:00:60", "2006-01-02T15:04:05+00:00:61", "06-1-2 3:4:5 pm", "06-12-31 12:59:59 am", "+6-1-2 3:4:5 pm", "-6-1-2 3:4:5 pm",
		"  2 2006", "366 2004", "366 2005", "060 2004", "060 2005", "061 2004", "000 2004", "365 2005", " 60 2004", "60 2004", "032 2006 02 01", "032 2006 01 01", "032 2006 02 02",
		" 32 2006 Feb", " 32 2006 Jan", "Monday January 2 2006", "monday JANUARY 2 2006", "Tuesday May 31 2006", "Mon May 31 2006", "Tue Jun 31 2006", "_2006  2", "_2006 12",
		"2006 MST", "MST 2006", "15h04m05s", "15:04:05,000", "15:04:05.000", "15:04:05,123", "15:04:05.9", "15:04:05", "15:04:05.12345678901", "05.000000001", "05.12", "59.99",
		"Jan  2", "Jan 2", "Jan 31", "Feb 29", "Feb 30", "Janet 2", "Monday Month", "Z+01:00", "+01:00Z", "ZZ", "-07:00 MST", "+00:00 UTC", "+01:00 CET", "2006.01.02", "1/2/2006",
		"12/31/1999", "13/1/2000", "01/02/06", "2006-01-02T15:04:05", "2006", "0000", "9999", "3PM", "3pm", "03PM", "12AM", "15PM", "11PM", "2006 ", " 2006", "  2006", "20060102150405",
		"2006-01-02T15:04:05.000000", "2006-01-02T15:04:05.999999", "x", "", "2006-02-29T00:00:00Z", "2004-02-29T00:00:00Z", "2006-01-02T15:04:05.1234567891Z",
		"2006-01-02T15:04:05.Z", "2006-01-02T15:04:05.+1Z", "2006-01-02T15:04:05.-1Z", "2006-01-02T15:04:05.000000000000000000000000001Z"}
	for _, l := range layouts {
		for _, v := range pvals {
			emitParse(l, v)
		}
		// self-generated values
		for n := 0; n < 6; n++ {
			tm := time.Unix(rng.Int63n(253402300800+62135596800)-62135596800, rng.Int63n(1e9)).In(time.FixedZone("", (rng.Intn(113)-56)*900))
			v := tm.Format(l)
			emitParse(l, v)
			emitParse(l, corrupt(rng, v))
		}
	}
	flush()

	// ---------- H. the FormatNumber facts the inverse-law theorem assumes ----------
	for n := 1000; n <= 9999; n++ {
		emitFi(n, "1")
	}
	for n := -99; n <= 99; n++ {
		emitFi(n, "01")
	}
	for n := 0; n <= 9999; n++ {
		emitFi(n, "0001")
	}
	flush()

	fmt.Printf("vectors: %d, shards: %d, FormatNumber oracle entries: %d, timeouts: %d\n", total, shardNo, len(fiCache), timeouts)
}

func corrupt(rng *rand.Rand, s string) string {
	if s == "" {
		return "x"
	}
	b := []byte(s)
	i := rng.Intn(len(b))
	switch rng.Intn(9) {
	case 0: // delete
		return string(append(b[:i:i], b[i+1:]...))
	case 1: // replace by a letter
		b[i] = 'x'
	case 2: // replace by a digit
		b[i] = byte('0' + rng.Intn(10))
	case 3: // duplicate
		return string(b[:i]) + string(b[i]) + string(b[i:])
	case 4: // append garbage
		return s + []string{" ", "Z", "0", ".5", "+01:00", "x"}[rng.Intn(6)]
	case 5: // prefix garbage
		return []string{" ", "0", "+", "-", "x"}[rng.Intn(5)] + s
	case 6: // bump a digit
		if b[i] >= '0' && b[i] <= '8' {
			b[i]++
		} else {
			b[i] = '9'
		}
	case 7: // swap
		j := rng.Intn(len(b))
		b[i], b[j] = b[j], b[i]
	default: // truncate
		return string(b[:i])
	}
	return string(b)
}
