module jvh

go 1.16

require github.com/blues/jsonata-go v0.0.0

replace github.com/blues/jsonata-go => /repo
