package main

import (
	"sort"
	"strconv"
	"strings"
)

// Go map iteration order is unspecified, so results that flow through * / ** / $keys / $each /
// $spread / $sift over multi-member objects may come in any order (sanctioned by the
// properties). For such programs outcomes are compared with arrays as multisets.
func usesUnordered(expr string) bool {
	for _, s := range []string{"$keys", "$each", "$spread", "$sift", "$merge", "$lookup"} {
		if strings.Contains(expr, s) {
			return true
		}
	}
	return hasWildcard(expr)
}

// hasWildcard: a * (or **) standing where an operand is expected (a multiplication has an
// operand in front of it)
func hasWildcard(expr string) bool {
	prev := byte(0)
	for i := 0; i < len(expr); i++ {
		ch := expr[i]
		if ch == ' ' || ch == '\t' || ch == '\n' || ch == '\r' {
			continue
		}
		if ch == '*' {
			if i+1 < len(expr) && expr[i+1] == '*' {
				return true
			}
			if prev == 0 || strings.IndexByte(".([{,;:?|=<>&+-/%!~^", prev) >= 0 {
				return true
			}
			// after a keyword operator (in, and, or) an operand is expected too
			head := strings.TrimRight(expr[:i], " \t\n\r")
			for _, kw := range []string{"in", "and", "or"} {
				if strings.HasSuffix(head, kw) && (len(head) == len(kw) || !isWordByte(head[len(head)-len(kw)-1])) {
					return true
				}
			}
		}
		prev = ch
	}
	return false
}

func canonUnordered(w string) string {
	if !strings.HasPrefix(w, "V ") {
		return w
	}
	toks := strings.Fields(w[2:])
	s, _ := canonAt(toks, 0)
	return "V~ " + s
}

func canonAt(toks []string, i int) (string, int) {
	if i >= len(toks) {
		return "", i
	}
	t := toks[i]
	switch t[0] {
	case 'A':
		n, _ := strconv.Atoi(t[1:])
		items := make([]string, 0, n)
		i++
		for k := 0; k < n; k++ {
			var s string
			s, i = canonAt(toks, i)
			items = append(items, s)
		}
		sort.Strings(items)
		return "A" + strconv.Itoa(n) + "(" + strings.Join(items, " ") + ")", i
	case 'O':
		n, _ := strconv.Atoi(t[1:])
		var sb strings.Builder
		sb.WriteString("O" + strconv.Itoa(n) + "(")
		i++
		for k := 0; k < n && i < len(toks); k++ {
			sb.WriteString(toks[i] + " ")
			var s string
			s, i = canonAt(toks, i+1)
			sb.WriteString(s + " ")
		}
		sb.WriteString(")")
		return sb.String(), i
	default:
		return t, i + 1
	}
}

func isWordByte(b byte) bool {
	return b == '_' || b == '$' || (b >= '0' && b <= '9') || (b >= 'a' && b <= 'z') || (b >= 'A' && b <= 'Z') || b >= 0x80
}
