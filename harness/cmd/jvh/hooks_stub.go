//go:build !verif
// +build !verif

package main

import jsonata "github.com/blues/jsonata-go"

// without the hook the printed form stands in for the tree
func rootWire(e *jsonata.Expr) string { return "S:" + e.String() }
