//go:build verif
// +build verif

package main

import jsonata "github.com/blues/jsonata-go"

// rootWire dumps the tree an Expr currently holds (hook accessor).
func rootWire(e *jsonata.Expr) string { return astWire(jsonata.VerifRoot(e)) }
