//go:build !verif
// +build !verif

package main

import "fmt"

func writeTables(dir string) error {
	return fmt.Errorf("built without the verif tag: tables cannot be regenerated")
}
