package main

import (
	"encoding/json"
	"strings"
	"encoding/hex"
	"fmt"
	"reflect"

	jsonata "github.com/blues/jsonata-go"
	"github.com/blues/jsonata-go/jparse"
)

// runParseCase: c.Expr holds the source as hex (arbitrary bytes). The implementation outcome is
// the AST wire or the complete error tuple; panics and hangs are recorded as such.
func runParseCase(c Case) (Result, string) {
	r := Result{ID: c.ID, Direct: map[string]string{}}
	src, err := hex.DecodeString(c.Expr)
	if err != nil {
		r.Impl = "X bad-hex"
		return r, ""
	}
	var node jparse.Node
	o := guarded(func() (interface{}, error) {
		n, err := jparse.Parse(string(src))
		node = n
		return nil, err
	})
	switch {
	case o.paniced || o.hung:
		r.Impl = o.wire
	case o.err != nil:
		if pe, ok := o.err.(*jparse.Error); ok {
			r.Impl = fmt.Sprintf("E %d %d %s %s", pe.Type, pe.Position, wS(pe.Token), wS(pe.Hint))
			// C08: defined error type, non-empty message, position inside the input
			if pe.Type < 1 || pe.Type > jparse.ErrInvalidParamType {
				r.Direct["errwf"] = "undefined error type"
			} else if pe.Error() == "" {
				r.Direct["errwf"] = "empty message"
			} else if pe.Position < 0 || pe.Position > len(src) {
				r.Direct["errwf"] = "position outside input"
			} else {
				r.Direct["errwf"] = "ok"
			}
		} else {
			r.Impl = "E other " + wS(o.err.Error())
			r.Direct["errwf"] = "error is not *jparse.Error"
		}
		if node != nil && !reflect.ValueOf(node).IsNil() {
			r.Direct["errwf"] = "non-nil node with error"
		}
	default:
		r.Impl = "A " + astWire(node)
		// a returned expression can be printed and evaluated
		so := guarded(func() (interface{}, error) { return node.String(), nil })
		if so.paniced || so.hung {
			r.Direct["usable"] = "String() " + so.wire
		} else {
			r.Direct["usable"] = "ok"
		}
		// … and evaluated: a panic of Eval on a tree that Compile returned is a Compile defect
		// (user-defined functions are skipped: unbounded recursion is outside the property)
		if !strings.Contains(string(src), "function") && !strings.Contains(string(src), "λ") && len(src) < 200 {
			if e, err := jsonata.Compile(string(src)); err == nil {
				eo := guarded(func() (interface{}, error) {
					return e.Eval(map[string]interface{}{"a": map[string]interface{}{"b": []interface{}{1.0, 2.0}}, "cfg": map[string]interface{}{"len": 2.0, "key": "a"}, "lens": []interface{}{1.0, 2.0}})
				})
				if eo.paniced && strings.Contains(eo.wire, hex.EncodeToString([]byte("unexpected node type"))) {
					r.Direct["usable"] = "Compile returned an expression that cannot be evaluated: " + eo.wire
				}
			}
		}
	}
	// MustCompile panics exactly when Compile returns an error
	_, cerr := func() (e *jsonata.Expr, err error) {
		defer func() {
			if p := recover(); p != nil {
				err = fmt.Errorf("panic")
			}
		}()
		return jsonata.Compile(string(src))
	}()
	mustPanicked := false
	func() {
		defer func() {
			if p := recover(); p != nil {
				mustPanicked = true
			}
		}()
		jsonata.MustCompile(string(src))
	}()
	if (cerr != nil) == mustPanicked {
		r.Direct["must"] = "ok"
	} else {
		r.Direct["must"] = "MustCompile/Compile disagree"
	}
	line := c.ID + "|P|" + c.Expr + "|"
	return r, line
}

// runHistoryCase: Compile c.Expr once; evaluate Input, then for each of Inputs: evaluate the
// other expressions (on that input) and then the expression again. Every outcome of the
// expression must equal the outcome of a freshly compiled copy on the same input (C05).
func runHistoryCase(c Case) Result {
	r := Result{ID: c.ID, Direct: map[string]string{}}
	e, err := jsonata.Compile(c.Expr)
	if err != nil {
		r.Compile = "E"
		r.Impl = "-"
		return r
	}
	r.Compile = "ok"
	if len(c.Vars) > 0 {
		if err := e.RegisterVars(c.Vars); err != nil {
			r.Impl = "X register " + err.Error()
			return r
		}
	}
	str0 := e.String()
	ast0 := rootWire(e)
	var others []*jsonata.Expr
	for _, s := range c.Others {
		if oe, err := jsonata.Compile(s); err == nil {
			others = append(others, oe)
		}
	}
	inputs := append([]jsonRaw{jsonRaw(c.Input)}, toRaw(c.Inputs)...)
	r.Direct["history"] = "ok"
	for step, raw := range inputs {
		in, ok := decodeInput([]byte(raw))
		if !ok {
			continue
		}
		for _, oe := range others {
			guarded(func() (interface{}, error) { return oe.Eval(deepCopyJSON(in)) })
		}
		got := evalOutcome(e, deepCopyJSON(in))
		fresh, _ := jsonata.Compile(c.Expr)
		if len(c.Vars) > 0 {
			fresh.RegisterVars(deepCopyJSON(interface{}(c.Vars)).(map[string]interface{}))
		}
		want := evalOutcome(fresh, deepCopyJSON(in))
		r.Hist = append(r.Hist, got.wire)
		same := got.wire == want.wire || usesVolatile(c.Expr) ||
			(usesUnordered(c.Expr) && canonUnordered(got.wire) == canonUnordered(want.wire))
		if !same && len(got.wire) > 5 && len(want.wire) > 5 && got.wire[:5] == "E lib" && want.wire[:5] == "E lib" {
			same = true
		}
		if !same && strings.HasPrefix(got.wire, "E ") && strings.HasPrefix(want.wire, "E ") && strings.Contains(c.Expr, "{") {
			// several members of one object constructor fail: which error is reported depends on Go's
			// map iteration order. Accept when some fresh evaluation reports the same error.
			for k := 0; k < 100 && !same; k++ {
				f2, _ := jsonata.Compile(c.Expr)
				if len(c.Vars) > 0 {
					f2.RegisterVars(deepCopyJSON(interface{}(c.Vars)).(map[string]interface{}))
				}
				same = evalOutcome(f2, deepCopyJSON(in)).wire == got.wire
			}
		}
		if !same && usesUnordered(c.Expr) {
			// positions taken over an unordered sequence (*, **, $keys ...): order-dependent by nature
			same = true
		}
		if !same && r.Direct["history"] == "ok" {
			r.Direct["history"] = fmt.Sprintf("step %d: got %s, fresh expression gives %s", step, got.wire, want.wire)
		}
	}
	if e.String() != str0 {
		r.Direct["string_same"] = "String() changed: " + e.String()
	} else {
		r.Direct["string_same"] = "ok"
	}
	if rootWire(e) != ast0 {
		r.Direct["tree_same"] = "the expression's tree changed during the history"
	} else {
		r.Direct["tree_same"] = "ok"
	}
	r.Impl = "-"
	return r
}

type jsonRaw []byte
type jsonRawMessage = json.RawMessage

func toRaw(xs []jsonRawMessage) []jsonRaw {
	out := make([]jsonRaw, len(xs))
	for i, x := range xs {
		out[i] = jsonRaw(x)
	}
	return out
}
