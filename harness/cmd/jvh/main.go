package main

// jvh — harness runner. Reads cases (JSON lines), runs them through the implementation built
// from /repo's working tree and through the extracted Coq model, answers the model's oracle
// queries with the Go standard library directly, and writes one JSON line per case with both
// outcomes and the direct runtime predicates. Comparison/projection policy lives in bin/check.

import (
	"sort"
	"bufio"
	"bytes"
	"encoding/hex"
	"encoding/json"
	"flag"
	"fmt"
	"math"
	"os"
	"os/exec"
	"reflect"
	"regexp"
	"regexp/syntax"
	"runtime"
	"strconv"
	"strings"
	"sync"
	"time"

	jsonata "github.com/blues/jsonata-go"
	"github.com/blues/jsonata-go/jparse"
)

type Case struct {
	ID    string          `json:"id"`
	Kind  string          `json:"kind"` // eval | parse | history
	Expr  string          `json:"expr"`
	Input json.RawMessage `json:"input"` // JSON text; absent/null => undefined input
	// history: further inputs evaluated on the same Expr, and other expressions run in between
	Inputs []json.RawMessage `json:"inputs,omitempty"`
	Others []string          `json:"others,omitempty"`
	Tags   []string          `json:"tags,omitempty"`
	// history: variables registered on the expression (Expr.RegisterVars) before the first evaluation
	Vars map[string]interface{} `json:"vars,omitempty"`
}

type Result struct {
	ID      string            `json:"id"`
	Compile string            `json:"compile"`
	Ast     string            `json:"ast,omitempty"`
	Impl    string            `json:"impl"`
	Model   string            `json:"model,omitempty"`
	Direct  map[string]string `json:"direct,omitempty"`
	IntSeen bool              `json:"int_seen,omitempty"`
	Hist    []string          `json:"hist,omitempty"`
	Rounds  int               `json:"rounds,omitempty"`
	Line    string            `json:"line,omitempty"` // the final model input line (with oracle answers)
	// what the model's own parser makes of the source text of an evaluation case ("A <ast>" or the
	// error tuple); when it is an AST, the model evaluates THAT tree, not the implementation's
	ModelParse string `json:"model_parse,omitempty"`
}

var evalTimeout = 5 * time.Second

type outcome struct {
	wire    string
	value   interface{}
	err     error
	info    wireInfo
	paniced bool
	hung    bool
}

func errWire(err error) string {
	switch e := err.(type) {
	case *jsonata.EvalError:
		return "E eval " + strconv.Itoa(int(e.Type))
	case jsonata.EvalError:
		return "E eval " + strconv.Itoa(int(e.Type))
	case *jsonata.ArgCountError:
		return "E argcount " + wS(e.Func)
	case *jsonata.ArgTypeError:
		return "E argtype " + wS(e.Func) + " " + strconv.Itoa(e.Which)
	case *jparse.Error:
		return "E parse " + strconv.Itoa(int(e.Type))
	default:
		return "E lib " + wS(err.Error())
	}
}

// guarded runs f with recover and a watchdog.
func guarded(f func() (interface{}, error)) (o outcome) {
	type ret struct {
		v interface{}
		e error
		p interface{}
		s string
	}
	ch := make(chan ret, 1)
	go func() {
		var r ret
		defer func() {
			if p := recover(); p != nil {
				buf := make([]byte, 4096)
				n := runtime.Stack(buf, false)
				r.p, r.s = p, string(buf[:n])
			}
			ch <- r
		}()
		r.v, r.e = f()
	}()
	select {
	case r := <-ch:
		if r.p != nil {
			o.paniced = true
			o.wire = "P " + wS(fmt.Sprint(r.p)+"\n"+panicSite(r.s))
			return
		}
		o.value, o.err = r.v, r.e
		return
	case <-time.After(evalTimeout):
		o.hung = true
		o.wire = "H"
		hangs++
		return
	}
}

var hangs int

// panicSite extracts the first jsonata-go frame from a stack trace.
func panicSite(stack string) string {
	lines := strings.Split(stack, "\n")
	for _, l := range lines {
		if strings.Contains(l, "github.com/blues/jsonata-go") && !strings.Contains(l, "/verif/") && strings.Contains(l, "(") {
			if i := strings.LastIndex(l, "("); i > 0 {
				return strings.TrimSpace(l[:i])
			}
			return strings.TrimSpace(l)
		}
	}
	return ""
}

func evalOutcome(e *jsonata.Expr, input interface{}) outcome {
	o := guarded(func() (interface{}, error) { return e.Eval(input) })
	if o.paniced || o.hung {
		return o
	}
	if o.err != nil {
		if o.err == jsonata.ErrUndefined {
			o.wire = "U"
		} else {
			o.wire = errWire(o.err)
		}
		return o
	}
	o.wire = "V " + valueWire(o.value, &o.info)
	return o
}

func decodeInput(raw json.RawMessage) (interface{}, bool) {
	if len(raw) == 0 {
		return nil, true
	}
	var v interface{}
	if err := json.Unmarshal(raw, &v); err != nil {
		return nil, false
	}
	return v, true
}

func inputWire(v interface{}) string {
	if v == nil {
		return "U"
	}
	var info wireInfo
	return valueWire(v, &info)
}

// allowedDynamic walks a result and reports the first dynamic type that is not one of the
// JSON-representable shapes (C10).
func allowedDynamic(v reflect.Value, depth int) string {
	if depth > 200 {
		return "too-deep"
	}
	if !v.IsValid() {
		return ""
	}
	if v.Type().Implements(typeCallable) {
		return ""
	}
	if v.Kind() == reflect.Struct && reflect.PtrTo(v.Type()).Implements(typeCallable) {
		return ""
	}
	switch v.Kind() {
	case reflect.Interface, reflect.Ptr:
		if v.IsNil() {
			return ""
		}
		if v.Kind() == reflect.Ptr && v.Elem().Kind() != reflect.Interface {
			return v.Type().String()
		}
		return allowedDynamic(v.Elem(), depth+1)
	case reflect.Bool, reflect.String:
		return ""
	case reflect.Float32, reflect.Float64:
		if f := v.Float(); math.IsNaN(f) || math.IsInf(f, 0) {
			return "non-finite number"
		}
		return ""
	case reflect.Int, reflect.Int8, reflect.Int16, reflect.Int32, reflect.Int64, reflect.Uint, reflect.Uint8, reflect.Uint16, reflect.Uint32, reflect.Uint64:
		return ""
	case reflect.Slice, reflect.Array:
		for i := 0; i < v.Len(); i++ {
			if s := allowedDynamic(v.Index(i), depth+1); s != "" {
				return s
			}
		}
		return ""
	case reflect.Map:
		if v.Type().Key().Kind() != reflect.String {
			return v.Type().String()
		}
		for _, k := range v.MapKeys() {
			if s := allowedDynamic(v.MapIndex(k), depth+1); s != "" {
				return s
			}
		}
		return ""
	default:
		return v.Type().String()
	}
}

func deepCopyJSON(v interface{}) interface{} {
	switch x := v.(type) {
	case map[string]interface{}:
		m := make(map[string]interface{}, len(x))
		for k, e := range x {
			m[k] = deepCopyJSON(e)
		}
		return m
	case []interface{}:
		s := make([]interface{}, len(x))
		for i, e := range x {
			s[i] = deepCopyJSON(e)
		}
		return s
	default:
		return v
	}
}

func usesVolatile(expr string) bool {
	return strings.Contains(expr, "$random") || strings.Contains(expr, "$shuffle") ||
		strings.Contains(expr, "$now") || strings.Contains(expr, "$millis")
}

func runEvalCase(c Case) (Result, string) {
	r := Result{ID: c.ID, Direct: map[string]string{}}
	var e *jsonata.Expr
	co := guarded(func() (interface{}, error) {
		x, err := jsonata.Compile(c.Expr)
		e = x
		return nil, err
	})
	switch {
	case co.paniced, co.hung:
		r.Compile = co.wire
		r.Impl = "-"
		return r, ""
	case co.err != nil:
		if pe, ok := co.err.(*jparse.Error); ok {
			r.Compile = fmt.Sprintf("E %d %d %s %s", pe.Type, pe.Position, wS(pe.Token), wS(pe.Hint))
		} else {
			r.Compile = "E other " + wS(co.err.Error())
		}
		r.Impl = "-"
		return r, ""
	}
	r.Compile = "ok"
	var savedVars interface{}
	if len(c.Vars) > 0 {
		savedVars = deepCopyJSON(interface{}(c.Vars))
		if err := e.RegisterVars(c.Vars); err != nil {
			r.Impl = "X register " + err.Error()
			return r, ""
		}
	}
	str0 := e.String()
	tree0 := rootWire(e)
	root0 := ""
	if n, err := jparse.Parse(c.Expr); err == nil {
		root0 = astWire(n)
	}
	r.Ast = root0

	input, ok := decodeInput(c.Input)
	if !ok {
		r.Impl = "X bad-input-json"
		return r, ""
	}
	for _, t := range c.Tags {
		if t == "shared" {
			input = shareify(input)
			if savedVars != nil {
				for k, v := range c.Vars {
					c.Vars[k] = shareify(v)
				}
			}
		}
	}
	saved := deepCopyJSON(input)
	clock := time.Now().UnixNano() / int64(time.Millisecond)

	o := evalOutcome(e, input)
	r.Impl = o.wire
	r.IntSeen = o.info.intSeen

	// C07: the caller's document is deep-equal to what it was
	if reflect.DeepEqual(saved, input) {
		r.Direct["immut"] = "ok"
	} else {
		r.Direct["immut"] = "input changed"
		input = deepCopyJSON(saved)
	}
	// ... and so is every value registered as a variable
	if savedVars != nil && !reflect.DeepEqual(savedVars, interface{}(c.Vars)) {
		r.Direct["immut"] = "a value registered as a variable changed"
	}
	if o.hung {
		return r, ""
	}
	// C10: JSON-representable result, ErrUndefined discipline
	if !o.paniced && o.err == nil {
		if s := allowedDynamic(reflect.ValueOf(o.value), 0); s != "" {
			r.Direct["json"] = "non-JSON dynamic type: " + s
		} else if got, err := json.Marshal(o.value); err != nil {
			r.Direct["json"] = "marshal: " + err.Error()
		} else if want, err2 := json.Marshal(functionsAsEmptyStrings(reflect.ValueOf(o.value), 0)); err2 == nil && !jsonEqual(got, want) {
			// function values stand for empty strings in the marshalled result
			r.Direct["json"] = "marshals as " + trunc(string(got), 120) + " where function values must stand for empty strings: " + trunc(string(want), 120)
		} else {
			r.Direct["json"] = "ok"
		}
	}
	// C05: same outcome on re-evaluation, same printed form, same tree
	if !o.paniced {
		o2 := evalOutcome(e, deepCopyJSON(saved))
		same := o2.wire == o.wire
		if !same && usesUnordered(c.Expr) && canonUnordered(o2.wire) == canonUnordered(o.wire) {
			same = true
		}
		if !same && usesVolatile(c.Expr) {
			same = true
		}
		if !same && usesUnordered(c.Expr) {
			// positions taken over an unordered sequence: order-dependent by nature
			r.Direct["repeat_unordered_skipped"] = "ok"
			same = true
		}
		if !same && strings.HasPrefix(o.wire, "E lib") && strings.HasPrefix(o2.wire, "E lib") {
			same = true
		}
		if !same && strings.HasPrefix(o.wire, "E ") && strings.HasPrefix(o2.wire, "E ") && strings.Contains(c.Expr, "{") {
			// several members of one object constructor fail: which error is reported is unspecified
			r.Direct["repeat_which_error_skipped"] = "ok"
			same = true
		}
		if same {
			r.Direct["repeat"] = "ok"
		} else {
			r.Direct["repeat"] = "second Eval differs: " + o2.wire
		}
		if e.String() != str0 {
			r.Direct["string_same"] = "String() changed: " + e.String()
		} else {
			r.Direct["string_same"] = "ok"
		}
		if rootWire(e) != tree0 {
			r.Direct["tree_same"] = "the expression's tree changed during evaluation"
		} else {
			r.Direct["tree_same"] = "ok"
		}
	}
	// C10: EvalBytes agrees with Eval
	if !o.paniced && len(c.Input) > 0 && !usesVolatile(c.Expr) {
		bo := guarded(func() (interface{}, error) { return e.EvalBytes([]byte(c.Input)) })
		if lastEvalBytes != nil && string(lastEvalBytes) != lastEvalBytesCopy {
			r.Direct["evalbytes"] = "the bytes returned by an earlier EvalBytes call changed after a later call: " + trunc(lastEvalBytesCopy, 60) + " became " + trunc(string(lastEvalBytes), 60)
			lastEvalBytes = nil
		}
		if b, ok := bo.value.([]byte); ok && bo.err == nil && !bo.paniced && !bo.hung {
			lastEvalBytes, lastEvalBytesCopy = b, string(b)
		}
		ebFailed := r.Direct["evalbytes"] != ""
		switch {
		case ebFailed:
		case bo.paniced || bo.hung:
			r.Direct["evalbytes"] = "EvalBytes " + bo.wire
		case o.err != nil:
			if bo.err == nil && !usesUnordered(c.Expr) {
				r.Direct["evalbytes"] = "EvalBytes succeeded but Eval failed"
			} else {
				r.Direct["evalbytes"] = "ok"
			}
		case bo.err != nil:
			if usesUnordered(c.Expr) {
				// a second evaluation over differently ordered members may legitimately fail
				r.Direct["evalbytes"] = "ok"
			} else if r.Direct["json"] == "ok" {
				r.Direct["evalbytes"] = "EvalBytes failed: " + bo.err.Error()
			} else {
				r.Direct["evalbytes"] = "ok"
			}
		default:
			var back interface{}
			if err := json.Unmarshal(bo.value.([]byte), &back); err != nil {
				r.Direct["evalbytes"] = "EvalBytes output is not JSON"
			} else {
				var i1, i2 wireInfo
				want, _ := json.Marshal(o.value)
				var wantv interface{}
				json.Unmarshal(want, &wantv)
				w1, w2 := "V "+valueWire(back, &i1), "V "+valueWire(wantv, &i2)
				if w1 == w2 || (usesUnordered(c.Expr) && canonUnordered(w1) == canonUnordered(w2)) {
					r.Direct["evalbytes"] = "ok"
				} else if usesUnordered(c.Expr) {
					// positions taken over an unordered sequence ($zip, predicates, ranges over * / ** / $keys ...):
					// two evaluations may legitimately differ by more than a permutation
					r.Direct["evalbytes"] = "ok"
					r.Direct["evalbytes_unordered_skipped"] = "ok"
				} else {
					r.Direct["evalbytes"] = "EvalBytes output differs from Eval's value"
				}
			}
		}
	}
	// C10: EvalBytes rejects input that is not valid JSON (malformed variants of the input text)
	if len(c.Input) > 0 && !o.paniced {
		x := string(c.Input)
		for _, bad := range []string{x + "]", x + "}", x + " x", x + ",", "[" + x, x + "\x00", x + "\n]", ""} {
			bo := guarded(func() (interface{}, error) { return e.EvalBytes([]byte(bad)) })
			if !bo.paniced && !bo.hung && bo.err == nil {
				r.Direct["evalbytes"] = "EvalBytes accepted malformed input " + strconv.Quote(bad)
				break
			}
		}
	}
	// C11: a JSON text denotes itself (oracle: encoding/json on the same text)
	for _, t := range c.Tags {
		if t == "jsonself" {
			var want interface{}
			dec := json.NewDecoder(strings.NewReader(c.Expr))
			if err := dec.Decode(&want); err != nil {
				r.Direct["jsonself"] = "ok"
				break
			}
			var i1, i2 wireInfo
			ww := "V " + valueWire(want, &i1)
			if want == nil {
				ww = "V N"
			}
			got := o.wire
			if got == ww || (strings.HasPrefix(got, "V ") && "V "+valueWire(o.value, &i2) == ww) {
				r.Direct["jsonself"] = "ok"
			} else {
				r.Direct["jsonself"] = "evaluates to " + got + " but the JSON text denotes " + ww
			}
		}
	}
	line := ""
	if root0 != "" {
		line = c.ID + "|E|" + root0 + "|" + inputWire(saved) + "|" + strconv.FormatInt(clock, 10) + "|"
	}
	return r, line
}

func trunc(s string, n int) string {
	if len(s) > n {
		return s[:n] + "..."
	}
	return s
}

func jsonEqual(a, b []byte) bool {
	var x, y interface{}
	if json.Unmarshal(a, &x) != nil || json.Unmarshal(b, &y) != nil {
		return string(a) == string(b)
	}
	return reflect.DeepEqual(x, y)
}

// functionsAsEmptyStrings rebuilds a result with every function value replaced by "" (what the
// property says a function value stands for when the result is marshalled)
func functionsAsEmptyStrings(v reflect.Value, depth int) interface{} {
	if !v.IsValid() || depth > 200 {
		return nil
	}
	if v.Type().Implements(typeCallable) {
		if (v.Kind() == reflect.Ptr || v.Kind() == reflect.Interface) && v.IsNil() {
			return nil
		}
		return ""
	}
	if v.Kind() == reflect.Struct && reflect.PtrTo(v.Type()).Implements(typeCallable) {
		return ""
	}
	switch v.Kind() {
	case reflect.Interface, reflect.Ptr:
		if v.IsNil() {
			return nil
		}
		return functionsAsEmptyStrings(v.Elem(), depth+1)
	case reflect.Slice, reflect.Array:
		if v.Kind() == reflect.Slice && v.IsNil() {
			return nil
		}
		out := make([]interface{}, v.Len())
		for i := range out {
			out[i] = functionsAsEmptyStrings(v.Index(i), depth+1)
		}
		return out
	case reflect.Map:
		if v.Type().Key().Kind() != reflect.String {
			return v.Interface()
		}
		out := map[string]interface{}{}
		for _, k := range v.MapKeys() {
			out[k.String()] = functionsAsEmptyStrings(v.MapIndex(k), depth+1)
		}
		return out
	default:
		if v.CanInterface() {
			return v.Interface()
		}
		return nil
	}
}

// shareify gives a decoded document SHARED SUB-STRUCTURES (which encoding/json never produces): in every
// object, a member "head" that equals a prefix of the member "all" becomes a sub-slice of it (same backing
// array, spare capacity), a member "same" that equals "all" becomes the very same slice, and a member "o2"
// that equals "o" becomes the same map instance. Values are unchanged; only identity is.
func shareify(v interface{}) interface{} {
	switch x := v.(type) {
	case map[string]interface{}:
		for k, e := range x {
			x[k] = shareify(e)
		}
		if all, ok := x["all"].([]interface{}); ok {
			if head, ok := x["head"].([]interface{}); ok && len(head) <= len(all) && reflect.DeepEqual(head, all[:len(head)]) {
				x["head"] = all[:len(head)]
			}
			if same, ok := x["same"].([]interface{}); ok && reflect.DeepEqual(same, all) {
				x["same"] = all
			}
		}
		if o, ok := x["o"].(map[string]interface{}); ok {
			if o2, ok := x["o2"].(map[string]interface{}); ok && reflect.DeepEqual(o, o2) {
				x["o2"] = o
			}
		}
		return x
	case []interface{}:
		for i, e := range x {
			x[i] = shareify(e)
		}
		return x
	default:
		return v
	}
}

// modelSource: registered variables are bound by a block around the expression on the model side
// (a JSON text is an expression that denotes itself)
func modelSource(c Case) string {
	if len(c.Vars) == 0 {
		return c.Expr
	}
	names := make([]string, 0, len(c.Vars))
	for k := range c.Vars {
		names = append(names, k)
	}
	sort.Strings(names)
	var sb strings.Builder
	sb.WriteString("(")
	for _, k := range names {
		b, _ := json.Marshal(c.Vars[k])
		sb.WriteString("$" + k + " := " + string(b) + "; ")
	}
	sb.WriteString(c.Expr + ")")
	return sb.String()
}

// the most recent EvalBytes result (the slice itself) and a copy of what it held when it was returned
var lastEvalBytes []byte
var lastEvalBytesCopy string

// runCase: the implementation side of one case (in the worker process, or here with -noisolation)
func runCase(c Case) (Result, string) {
	switch c.Kind {
	case "parse":
		return runParseCase(c)
	case "history":
		return runHistoryCase(c), ""
	case "ext":
		return runExtCase(c)
	case "reghistory":
		return runHistoryProcess(os.Args[0], c)
	default:
		return runEvalCase(c)
	}
}

type workerAnswer struct {
	R    Result `json:"r"`
	Line string `json:"line"`
	Hung bool   `json:"hung"`
}

// runWorker: the child process. One JSON case per input line, one JSON answer per output line.
// After an evaluation that the in-process watchdog gave up on, the worker asks to be replaced
// (the abandoned goroutine may still be looping or allocating).
func runWorker() {
	sc := bufio.NewScanner(os.Stdin)
	sc.Buffer(make([]byte, 1<<20), 1<<28)
	w := bufio.NewWriter(os.Stdout)
	for sc.Scan() {
		var c Case
		if err := json.Unmarshal(sc.Bytes(), &c); err != nil {
			continue
		}
		before := hangs
		r, line := runCase(c)
		b, _ := json.Marshal(workerAnswer{R: r, Line: line, Hung: hangs > before})
		w.Write(b)
		w.WriteByte('\n')
		w.Flush()
		if hangs > before {
			os.Exit(0)
		}
	}
}

// workerPool: the parent side. The implementation runs in a child process under an address-space
// limit; a child that does not answer in time, dies (fatal error, out of memory, stack overflow) or
// reports a hang is killed and replaced, and the case is recorded as hung / crashed.
type workerPool struct {
	cmd   *exec.Cmd
	in    *bufio.Writer
	out   *bufio.Scanner
	inC   interface{ Close() error }
	kills int
}

var isolated workerPool

func (p *workerPool) start() bool {
	self, _ := os.Executable()
	lim := "16000000"
	p.cmd = exec.Command("sh", "-c", "ulimit -v "+lim+" 2>/dev/null; exec \"$0\" -worker -timeout_ms "+strconv.Itoa(int(evalTimeout/time.Millisecond)), self)
	stdin, err1 := p.cmd.StdinPipe()
	stdout, err2 := p.cmd.StdoutPipe()
	p.cmd.Stderr = nil
	if err1 != nil || err2 != nil || p.cmd.Start() != nil {
		return false
	}
	p.inC = stdin
	p.in = bufio.NewWriter(stdin)
	p.out = bufio.NewScanner(stdout)
	p.out.Buffer(make([]byte, 1<<20), 1<<28)
	return true
}

func (p *workerPool) kill() {
	if p.cmd != nil && p.cmd.Process != nil {
		p.cmd.Process.Kill()
		p.cmd.Wait()
	}
	p.cmd = nil
}

func (p *workerPool) stop() {
	if p.cmd != nil {
		p.inC.Close()
		done := make(chan struct{})
		go func() { p.cmd.Wait(); close(done) }()
		select {
		case <-done:
		case <-time.After(2 * time.Second):
			p.cmd.Process.Kill()
		}
		p.cmd = nil
	}
}

func (p *workerPool) run(c Case, raw []byte) (Result, string) {
	if p.cmd == nil && !p.start() {
		return runCase(c)
	}
	p.in.Write(raw)
	p.in.WriteByte('\n')
	if p.in.Flush() != nil {
		p.kill()
		p.kills++
		return crashedResult(c, "X the worker process died before the case"), ""
	}
	type ans struct {
		ok   bool
		line []byte
	}
	ch := make(chan ans, 1)
	out := p.out
	go func() {
		if out.Scan() {
			ch <- ans{true, append([]byte(nil), out.Bytes()...)}
		} else {
			ch <- ans{false, nil}
		}
	}()
	// the worker's own watchdog allows evalTimeout per evaluation; a case makes a handful of them
	limit := 12*evalTimeout + 20*time.Second
	select {
	case a := <-ch:
		if !a.ok {
			p.kill()
			p.kills++
			return crashedResult(c, "P "+wS("the process evaluating this case died (fatal error, out of memory or stack overflow)")), ""
		}
		var wa workerAnswer
		if err := json.Unmarshal(a.line, &wa); err != nil {
			p.kill()
			p.kills++
			return crashedResult(c, "X bad worker answer"), ""
		}
		if wa.Hung {
			hangs++
			p.kill() // it exits by itself; make sure
		}
		return wa.R, wa.Line
	case <-time.After(limit):
		p.kill()
		p.kills++
		hangs++
		return crashedResult(c, "H"), ""
	}
}

func crashedResult(c Case, wire string) Result {
	r := Result{ID: c.ID, Direct: map[string]string{}}
	switch c.Kind {
	case "parse", "ext":
		r.Impl = wire
	default:
		r.Compile = "ok"
		r.Impl = wire
	}
	return r
}

// ---- oracle ----
var reCache = map[string]*regexp.Regexp{}
var reMu sync.Mutex

func answer(q string) (string, bool) {
	parts := strings.Split(q, ":")
	switch parts[0] {
	case "RE":
		if len(parts) != 3 {
			return "", false
		}
		src, e1 := hex.DecodeString(parts[1])
		subj, e2 := hex.DecodeString(parts[2])
		if e1 != nil || e2 != nil {
			return "", false
		}
		reMu.Lock()
		re := reCache[string(src)]
		if re == nil {
			var err error
			re, err = regexp.Compile(string(src))
			if err != nil {
				reMu.Unlock()
				return "", false
			}
			reCache[string(src)] = re
		}
		reMu.Unlock()
		ms := re.FindAllStringSubmatchIndex(string(subj), -1)
		var sb strings.Builder
		for i, m := range ms {
			if i > 0 {
				sb.WriteByte(';')
			}
			for j, x := range m {
				if j > 0 {
					sb.WriteByte(',')
				}
				sb.WriteString(strconv.Itoa(x))
			}
		}
		return sb.String(), true
	case "POW":
		if len(parts) != 3 {
			return "", false
		}
		a, e1 := strconv.ParseUint(parts[1], 16, 64)
		b, e2 := strconv.ParseUint(parts[2], 16, 64)
		if e1 != nil || e2 != nil {
			return "", false
		}
		return fmt.Sprintf("%016x", math.Float64bits(math.Pow(math.Float64frombits(a), math.Float64frombits(b)))), true
	case "REC":
		src, err := hex.DecodeString(parts[1])
		if err != nil {
			return "", false
		}
		if _, err := regexp.Compile(string(src)); err != nil {
			code := "unknown error"
			if e, ok := err.(*syntax.Error); ok {
				code = string(e.Code)
			}
			return hex.EncodeToString([]byte(code)), true
		}
		return "", true
	case "QT":
		src, err := hex.DecodeString(parts[1])
		if err != nil {
			return "", false
		}
		return hex.EncodeToString([]byte(fmt.Sprintf("%q", string(src)))), true
	case "UP", "LOW":
		s, err := hex.DecodeString(parts[1])
		if err != nil {
			return "", false
		}
		if parts[0] == "UP" {
			return hex.EncodeToString([]byte(strings.ToUpper(string(s)))), true
		}
		return hex.EncodeToString([]byte(strings.ToLower(string(s)))), true
	}
	return "", false
}

// runModel pipes lines through the extracted model, in parallel shards, answering oracle
// queries until every case has a final answer.
var finalLines = map[string]string{}

func runModel(modelBin string, entry string, lines map[string]string, shards int) (map[string]string, map[string]int) {
	final := map[string]string{}
	rounds := map[string]int{}
	pending := map[string]string{}
	for k, v := range lines {
		pending[k] = v
	}
	for round := 0; round < 60 && len(pending) > 0; round++ {
		ids := make([]string, 0, len(pending))
		for id := range pending {
			ids = append(ids, id)
		}
		n := shards
		if n > len(ids) {
			n = len(ids)
		}
		if n < 1 {
			n = 1
		}
		outs := make([][]byte, n)
		var wg sync.WaitGroup
		for s := 0; s < n; s++ {
			wg.Add(1)
			go func(s int) {
				defer wg.Done()
				var in bytes.Buffer
				for i := s; i < len(ids); i += n {
					in.WriteString(pending[ids[i]])
					in.WriteByte('\n')
				}
				cmd := exec.Command(modelBin, entry)
				cmd.Stdin = &in
				var out bytes.Buffer
				cmd.Stdout = &out
				cmd.Stderr = os.Stderr
				cmd.Run()
				outs[s] = out.Bytes()
			}(s)
		}
		wg.Wait()
		next := map[string]string{}
		seen := map[string]bool{}
		for _, ob := range outs {
			sc := bufio.NewScanner(bytes.NewReader(ob))
			sc.Buffer(make([]byte, 1<<20), 1<<28)
			for sc.Scan() {
				l := sc.Text()
				i := strings.IndexByte(l, '|')
				if i < 0 {
					continue
				}
				id, res := l[:i], l[i+1:]
				seen[id] = true
				if strings.HasPrefix(res, "Q ") {
					q := strings.TrimSpace(res[2:])
					a, ok := answer(q)
					if !ok {
						final[id] = "X oracle-cannot-answer " + q
						continue
					}
					next[id] = pending[id] + " " + q + "=" + a
					rounds[id]++
				} else {
					final[id] = res
					finalLines[id] = pending[id]
				}
			}
		}
		for _, id := range ids {
			if !seen[id] {
				final[id] = "X model-crashed"
			}
		}
		pending = next
	}
	for id := range pending {
		final[id] = "X oracle-rounds-exceeded"
	}
	return final, rounds
}

func main() {
	in := flag.String("in", "", "cases file (JSON lines)")
	out := flag.String("out", "", "results file (JSON lines)")
	model := flag.String("model", "", "path of the extracted model binary (empty: implementation only)")
	shards := flag.Int("shards", runtime.NumCPU(), "parallel model processes")
	tmo := flag.Int("timeout_ms", 5000, "per-evaluation watchdog")
	tables := flag.String("tables", "", "regenerate coq/Gen/*.v into this directory and exit")
	onehist := flag.String("onehistory", "", "run one registry history in this process and exit")
	worker := flag.Bool("worker", false, "internal: run cases from stdin, one answer line per case (used by the parent to isolate the implementation)")
	noiso := flag.Bool("noisolation", false, "run the implementation in this process (no worker)")
	flag.Parse()
	if *onehist != "" {
		runOneHistory(*onehist)
		return
	}
	if *tables != "" {
		if err := writeTables(*tables); err != nil {
			fmt.Fprintln(os.Stderr, err)
			os.Exit(1)
		}
		return
	}
	evalTimeout = time.Duration(*tmo) * time.Millisecond
	if *worker {
		runWorker()
		return
	}

	f, err := os.Open(*in)
	if err != nil {
		fmt.Fprintln(os.Stderr, err)
		os.Exit(2)
	}
	sc := bufio.NewScanner(f)
	sc.Buffer(make([]byte, 1<<20), 1<<28)
	var results []*Result
	lines := map[string]string{}
	plines := map[string]string{}
	srclines := map[string]string{} // evaluation cases: the source text, for the model's parser
	for sc.Scan() {
		if len(bytes.TrimSpace(sc.Bytes())) == 0 {
			continue
		}
		var c Case
		if err := json.Unmarshal(sc.Bytes(), &c); err != nil {
			fmt.Fprintln(os.Stderr, "bad case line:", err)
			os.Exit(2)
		}
		var r Result
		var line string
		if *noiso || c.Kind == "reghistory" {
			r, line = runCase(c)
		} else {
			r, line = isolated.run(c, sc.Bytes())
		}
		switch c.Kind {
		case "parse", "ext", "reghistory":
			if line != "" {
				plines[c.ID] = line
			}
		case "history":
		default:
			if line != "" {
				lines[c.ID] = line
			}
			if r.Compile == "ok" || strings.HasPrefix(r.Compile, "E ") {
				srclines[c.ID] = c.ID + "|P|" + hex.EncodeToString([]byte(modelSource(c))) + "|"
			}
		}
		rr := r
		results = append(results, &rr)
		if hangs > 16 || isolated.kills > 16 {
			fmt.Fprintln(os.Stderr, "too many hung evaluations; stopping early")
			break
		}
	}
	isolated.stop()
	if *model != "" {
		// end to end: the model parses the source text itself and evaluates its own tree
		sfinal, _ := runModel(*model, "parse", srclines, *shards)
		for id, pm := range sfinal {
			l, ok := lines[id]
			if !ok || !strings.HasPrefix(pm, "A ") {
				continue
			}
			parts := strings.SplitN(l, "|", 4)
			if len(parts) == 4 {
				lines[id] = parts[0] + "|" + parts[1] + "|" + pm[2:] + "|" + parts[3]
			}
		}
		final, rounds := runModel(*model, "eval", lines, *shards)
		pfinal, _ := runModel(*model, "parse", plines, *shards)
		for _, r := range results {
			if pm, ok := sfinal[r.ID]; ok {
				r.ModelParse = pm
			}
		}
		n := 0
		for _, r := range results {
			if m, ok := final[r.ID]; ok {
				r.Model = m
				r.Rounds = rounds[r.ID]
			} else if m, ok := pfinal[r.ID]; ok {
				r.Model = m
			}
			if n%37 == 0 || n < 3 {
				r.Line = finalLines[r.ID]
			}
			n++
		}
	}
	w := bufio.NewWriter(os.Stdout)
	if *out != "" {
		of, err := os.Create(*out)
		if err != nil {
			fmt.Fprintln(os.Stderr, err)
			os.Exit(2)
		}
		defer of.Close()
		w = bufio.NewWriter(of)
	}
	enc := json.NewEncoder(w)
	for _, r := range results {
		enc.Encode(r)
	}
	w.Flush()
}
