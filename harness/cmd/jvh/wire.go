package main

// wire.go — encoders from the implementation's Go values / AST into the textual wire format
// that Model/Wire.v and Model/AstWire.v read. Hand-written glue (trusted, not verified).

import (
	"encoding/hex"
	"fmt"
	"math"
	"reflect"
	"sort"
	"strconv"
	"strings"

	"github.com/blues/jsonata-go/jparse"
	"github.com/blues/jsonata-go/jtypes"
)

func wS(s string) string { return "S" + hex.EncodeToString([]byte(s)) }
func wB(b bool) string {
	if b {
		return "T"
	}
	return "F"
}
func wD(f float64) string { return fmt.Sprintf("D%016x", math.Float64bits(f)) }

// valueWire encodes a result of Expr.Eval. Anything that is not a JSON-level value on the Go
// side is encoded as X<hex type name> ("internal"). intSeen reports Go integer kinds.
type wireInfo struct {
	intSeen  bool
	internal string
	nonFin   bool
}

func valueWire(v interface{}, info *wireInfo) string {
	var sb strings.Builder
	encodeValue(&sb, reflect.ValueOf(v), info, 0)
	return strings.TrimSpace(sb.String())
}

var typeCallable = reflect.TypeOf((*jtypes.Callable)(nil)).Elem()

func encodeValue(sb *strings.Builder, v reflect.Value, info *wireInfo, depth int) {
	if depth > 200 {
		info.internal = "too-deep"
		sb.WriteString("X" + hex.EncodeToString([]byte("too-deep")) + " ")
		return
	}
	if !v.IsValid() {
		sb.WriteString("N ")
		return
	}
	if v.Type().Implements(typeCallable) {
		if (v.Kind() == reflect.Ptr || v.Kind() == reflect.Interface) && v.IsNil() {
			sb.WriteString("N ")
			return
		}
		sb.WriteString("L ")
		return
	}
	// a function value held by value (array functions dereference their members): still a
	// function value, and it marshals as "" through the embedded callableMarshaler
	if v.Kind() == reflect.Struct && reflect.PtrTo(v.Type()).Implements(typeCallable) {
		sb.WriteString("L ")
		return
	}
	switch v.Kind() {
	case reflect.Interface, reflect.Ptr:
		if v.IsNil() {
			sb.WriteString("N ")
			return
		}
		encodeValue(sb, v.Elem(), info, depth+1)
	case reflect.Bool:
		sb.WriteString(wB(v.Bool()) + " ")
	case reflect.Float32, reflect.Float64:
		f := v.Float()
		if math.IsNaN(f) || math.IsInf(f, 0) {
			info.nonFin = true
		}
		sb.WriteString(wD(f) + " ")
	case reflect.Int, reflect.Int8, reflect.Int16, reflect.Int32, reflect.Int64:
		info.intSeen = true
		sb.WriteString(wD(float64(v.Int())) + " ")
	case reflect.Uint, reflect.Uint8, reflect.Uint16, reflect.Uint32, reflect.Uint64:
		info.intSeen = true
		sb.WriteString(wD(float64(v.Uint())) + " ")
	case reflect.String:
		sb.WriteString(wS(v.String()) + " ")
	case reflect.Slice, reflect.Array:
		n := v.Len()
		sb.WriteString("A" + strconv.Itoa(n) + " ")
		for i := 0; i < n; i++ {
			encodeValue(sb, v.Index(i), info, depth+1)
		}
	case reflect.Map:
		if v.Type().Key().Kind() != reflect.String {
			info.internal = v.Type().String()
			sb.WriteString("X" + hex.EncodeToString([]byte(v.Type().String())) + " ")
			return
		}
		keys := make([]string, 0, v.Len())
		for _, k := range v.MapKeys() {
			keys = append(keys, k.String())
		}
		sort.Strings(keys)
		sb.WriteString("O" + strconv.Itoa(len(keys)) + " ")
		for _, k := range keys {
			sb.WriteString(wS(k) + " ")
			encodeValue(sb, v.MapIndex(reflect.ValueOf(k).Convert(v.Type().Key())), info, depth+1)
		}
	default:
		info.internal = v.Type().String()
		sb.WriteString("X" + hex.EncodeToString([]byte(v.Type().String())) + " ")
	}
}

// ---- AST ----

func astWire(n jparse.Node) string {
	var t []string
	astTokens(n, &t)
	return strings.Join(t, " ")
}

func nodeList(ns []jparse.Node, t *[]string) {
	*t = append(*t, "L"+strconv.Itoa(len(ns)))
	for _, x := range ns {
		astTokens(x, t)
	}
}

func pairList(ps [][2]jparse.Node, t *[]string) {
	*t = append(*t, "L"+strconv.Itoa(len(ps)))
	for _, p := range ps {
		astTokens(p[0], t)
		astTokens(p[1], t)
	}
}

func optNode(n jparse.Node, t *[]string) {
	if n == nil || (reflect.ValueOf(n).Kind() == reflect.Ptr && reflect.ValueOf(n).IsNil()) {
		*t = append(*t, "?0")
		return
	}
	*t = append(*t, "?1")
	astTokens(n, t)
}

func paramTokens(p jparse.Param, t *[]string) {
	*t = append(*t, "P", strconv.FormatUint(uint64(p.Type), 10), strconv.Itoa(int(p.Option)))
	if p.SubParams == nil {
		*t = append(*t, "?0")
	} else {
		*t = append(*t, "?1", "L"+strconv.Itoa(len(p.SubParams)))
		for _, s := range p.SubParams {
			paramTokens(s, t)
		}
	}
}

func lambdaTokens(tag string, l *jparse.LambdaNode, t *[]string) {
	*t = append(*t, tag, "L"+strconv.Itoa(len(l.ParamNames)))
	for _, s := range l.ParamNames {
		*t = append(*t, wS(s))
	}
	astTokens(l.Body, t)
	*t = append(*t, wB(l.Shorthand()))
}

func astTokens(n jparse.Node, t *[]string) {
	switch n := n.(type) {
	case *jparse.StringNode:
		*t = append(*t, "Str", wS(n.Value))
	case *jparse.NumberNode:
		*t = append(*t, "Num", wD(n.Value))
	case *jparse.BooleanNode:
		*t = append(*t, "Bool", wB(n.Value))
	case *jparse.NullNode:
		*t = append(*t, "Null")
	case *jparse.RegexNode:
		s := ""
		if n.Value != nil {
			s = n.Value.String()
		}
		*t = append(*t, "Regex", wS(s))
	case *jparse.VariableNode:
		*t = append(*t, "Var", wS(n.Name))
	case *jparse.NameNode:
		*t = append(*t, "Name", wS(n.Value), wB(n.Escaped()))
	case *jparse.PathNode:
		*t = append(*t, "Path")
		nodeList(n.Steps, t)
		*t = append(*t, wB(n.KeepArrays))
	case *jparse.NegationNode:
		*t = append(*t, "Neg")
		astTokens(n.RHS, t)
	case *jparse.RangeNode:
		*t = append(*t, "Range")
		astTokens(n.LHS, t)
		astTokens(n.RHS, t)
	case *jparse.ArrayNode:
		*t = append(*t, "Array")
		nodeList(n.Items, t)
	case *jparse.ObjectNode:
		*t = append(*t, "Object")
		pairList(n.Pairs, t)
	case *jparse.BlockNode:
		*t = append(*t, "Block")
		nodeList(n.Exprs, t)
	case *jparse.WildcardNode:
		*t = append(*t, "Wild")
	case *jparse.DescendentNode:
		*t = append(*t, "Desc")
	case *jparse.ObjectTransformationNode:
		*t = append(*t, "Transform")
		astTokens(n.Pattern, t)
		astTokens(n.Updates, t)
		optNode(n.Deletes, t)
	case *jparse.LambdaNode:
		lambdaTokens("Lambda", n, t)
	case *jparse.TypedLambdaNode:
		lambdaTokens("TLambda", n.LambdaNode, t)
		*t = append(*t, "L"+strconv.Itoa(len(n.In)))
		for _, p := range n.In {
			paramTokens(p, t)
		}
	case *jparse.PartialNode:
		*t = append(*t, "Partial")
		astTokens(n.Func, t)
		nodeList(n.Args, t)
	case *jparse.PlaceholderNode:
		*t = append(*t, "Placeholder")
	case *jparse.FunctionCallNode:
		*t = append(*t, "Call")
		astTokens(n.Func, t)
		nodeList(n.Args, t)
	case *jparse.PredicateNode:
		*t = append(*t, "Pred")
		astTokens(n.Expr, t)
		nodeList(n.Filters, t)
	case *jparse.GroupNode:
		*t = append(*t, "Group")
		astTokens(n.Expr, t)
		pairList(n.ObjectNode.Pairs, t)
	case *jparse.ConditionalNode:
		*t = append(*t, "Cond")
		astTokens(n.If, t)
		astTokens(n.Then, t)
		optNode(n.Else, t)
	case *jparse.AssignmentNode:
		*t = append(*t, "Assign", wS(n.Name))
		astTokens(n.Value, t)
	case *jparse.NumericOperatorNode:
		*t = append(*t, "NumOp", n.Type.String())
		astTokens(n.LHS, t)
		astTokens(n.RHS, t)
	case *jparse.ComparisonOperatorNode:
		*t = append(*t, "CmpOp", n.Type.String())
		astTokens(n.LHS, t)
		astTokens(n.RHS, t)
	case *jparse.BooleanOperatorNode:
		*t = append(*t, "BoolOp", n.Type.String())
		astTokens(n.LHS, t)
		astTokens(n.RHS, t)
	case *jparse.StringConcatenationNode:
		*t = append(*t, "Concat")
		astTokens(n.LHS, t)
		astTokens(n.RHS, t)
	case *jparse.SortNode:
		*t = append(*t, "Sort")
		astTokens(n.Expr, t)
		*t = append(*t, "L"+strconv.Itoa(len(n.Terms)))
		for _, term := range n.Terms {
			d := 0
			switch term.Dir {
			case jparse.SortAscending:
				d = 1
			case jparse.SortDescending:
				d = 2
			}
			*t = append(*t, strconv.Itoa(d))
			astTokens(term.Expr, t)
		}
	case *jparse.FunctionApplicationNode:
		*t = append(*t, "Apply")
		astTokens(n.LHS, t)
		astTokens(n.RHS, t)
	default:
		*t = append(*t, "Unknown"+hex.EncodeToString([]byte(fmt.Sprintf("%T", n))))
	}
}
