package main

// jvrace — C06: concurrent evaluations under the race detector (build with -race).
// Reads a JSON spec {programs:[{expr, inputs:[...]}], goroutines, iterations, mode}, computes the
// expected outcome of every (program, input) sequentially, then runs goroutines that loop over
// the programs with goroutine-specific inputs and compares every outcome with the expected one.
// Modes: shared (one Expr per program shared by all goroutines), own (each goroutine compiles its
// own), mixed (own + goroutines that Compile and call package-level RegisterExts/RegisterVars),
// sharedinput (shared Expr AND one decoded document per input text shared by all goroutines and
// all programs: evaluation must treat the caller's document as read-only).
// Data races are reported by the runtime on stderr (GORACE=halt_on_error=0); the caller counts them.

import (
	"encoding/json"
	"fmt"
	"os"
	"sync"
	"sync/atomic"

	jsonata "github.com/blues/jsonata-go"
)

type Program struct {
	Expr   string            `json:"expr"`
	Inputs []json.RawMessage `json:"inputs"`
}
type Spec struct {
	Programs   []Program `json:"programs"`
	Goroutines int       `json:"goroutines"`
	Iterations int       `json:"iterations"`
	Mode       string    `json:"mode"`
}
type Mismatch struct {
	Expr  string `json:"expr"`
	Input string `json:"input"`
	Want  string `json:"want"`
	Got   string `json:"got"`
	G     int    `json:"goroutine"`
}

func outcome(e *jsonata.Expr, in interface{}) (s string) {
	defer func() {
		if p := recover(); p != nil {
			s = fmt.Sprint("PANIC ", p)
		}
	}()
	v, err := e.Eval(in)
	if err != nil {
		if _, ok := err.(*jsonata.EvalError); ok {
			return fmt.Sprintf("E %T %v", err, err.(*jsonata.EvalError).Type)
		}
		return fmt.Sprintf("E %T", err)
	}
	b, err := json.Marshal(v)
	if err != nil {
		return "MARSHAL " + err.Error()
	}
	return string(b)
}

func main() {
	var spec Spec
	if err := json.NewDecoder(os.Stdin).Decode(&spec); err != nil {
		fmt.Fprintln(os.Stderr, "bad spec:", err)
		os.Exit(2)
	}
	type job struct {
		expr  string
		e     *jsonata.Expr
		ins   []interface{}
		raws  []string
		wants []string
	}
	var jobs []*job
	for _, p := range spec.Programs {
		e, err := jsonata.Compile(p.Expr)
		if err != nil {
			continue
		}
		j := &job{expr: p.Expr, e: e}
		for _, raw := range p.Inputs {
			var v interface{}
			json.Unmarshal(raw, &v)
			j.ins = append(j.ins, v)
			j.raws = append(j.raws, string(raw))
			fresh, _ := jsonata.Compile(p.Expr)
			j.wants = append(j.wants, outcome(fresh, v))
		}
		if len(j.ins) > 0 {
			jobs = append(jobs, j)
		}
	}
	// one decoded document per distinct input text, for the sharedinput mode
	sharedDocs := map[string]interface{}{}
	for _, j := range jobs {
		for _, raw := range j.raws {
			if _, ok := sharedDocs[raw]; !ok {
				var v interface{}
				json.Unmarshal([]byte(raw), &v)
				sharedDocs[raw] = v
			}
		}
	}
	var mu sync.Mutex
	var mismatches []Mismatch
	var evals int64
	var wg sync.WaitGroup
	stop := int32(0)
	if spec.Mode == "mixed" {
		// goroutines that keep compiling and registering at package level
		for k := 0; k < 2; k++ {
			wg.Add(1)
			go func(k int) {
				defer wg.Done()
				for i := 0; atomic.LoadInt32(&stop) == 0 && i < spec.Iterations*4; i++ {
					jsonata.RegisterExts(map[string]jsonata.Extension{fmt.Sprintf("zz%d", k): {Func: func() int { return 1 }}})
					jsonata.RegisterVars(map[string]interface{}{fmt.Sprintf("vv%d", k): i})
					jsonata.Compile("$sum([1,2,3]) & $string(a)")
				}
			}(k)
		}
	}
	var ewg sync.WaitGroup
	for g := 0; g < spec.Goroutines; g++ {
		ewg.Add(1)
		go func(g int) {
			defer ewg.Done()
			for it := 0; it < spec.Iterations; it++ {
				for _, j := range jobs {
					e := j.e
					if spec.Mode != "shared" && spec.Mode != "sharedinput" {
						e, _ = jsonata.Compile(j.expr)
					}
					k := (g + it) % len(j.ins)
					var in interface{}
					if spec.Mode == "sharedinput" {
						in = sharedDocs[j.raws[k]]
					} else {
						// deep copy of the input: each goroutine owns its document
						json.Unmarshal([]byte(j.raws[k]), &in)
					}
					got := outcome(e, in)
					atomic.AddInt64(&evals, 1)
					if got != j.wants[k] {
						mu.Lock()
						if len(mismatches) < 20 {
							mismatches = append(mismatches, Mismatch{j.expr, j.raws[k], j.wants[k], got, g})
						}
						mu.Unlock()
					}
				}
			}
		}(g)
	}
	ewg.Wait()
	atomic.StoreInt32(&stop, 1)
	wg.Wait()
	json.NewEncoder(os.Stdout).Encode(map[string]interface{}{"evaluations": evals, "programs": len(jobs), "mismatches": mismatches})
}
