(* Base/Utf8.v — unicode/utf8 as the Go standard library defines it:
   DecodeRuneInString (RuneError,1 on invalid input; (RuneError,0) on empty), EncodeRune,
   RuneCountInString, ValidString.  Stdlib only, no axioms. *)
From JV Require Export Base.Bytes.
Open Scope Z_scope.

Definition rune := Z.
Definition RuneError : rune := 65533.
Definition MaxRune : rune := 1114111.

Definition is_cont (b : Z) : bool := (128 <=? b) && (b <=? 191).

(* second-byte acceptance range for a lead byte, and the encoded size; None = invalid lead *)
Definition lead_info (b0 : Z) : option (nat * Z * Z) :=
  if b0 <? 128 then None
  else if b0 <? 194 then None
  else if b0 <=? 223 then Some (2%nat, 128, 191)
  else if b0 =? 224 then Some (3%nat, 160, 191)
  else if b0 <=? 236 then Some (3%nat, 128, 191)
  else if b0 =? 237 then Some (3%nat, 128, 159)
  else if b0 <=? 239 then Some (3%nat, 128, 191)
  else if b0 =? 240 then Some (4%nat, 144, 191)
  else if b0 <=? 243 then Some (4%nat, 128, 191)
  else if b0 =? 244 then Some (4%nat, 128, 143)
  else None.

(* utf8.DecodeRuneInString *)
Definition decode_rune (s : string) : rune * nat :=
  match s with
  | EmptyString => (RuneError, 0%nat)
  | String c0 r0 =>
      let b0 := byte_of c0 in
      if b0 <? 128 then (b0, 1%nat)
      else match lead_info b0 with
           | None => (RuneError, 1%nat)
           | Some (sz, lo, hi) =>
               match r0 with
               | EmptyString => (RuneError, 1%nat)
               | String c1 r1 =>
                   let b1 := byte_of c1 in
                   if negb ((lo <=? b1) && (b1 <=? hi)) then (RuneError, 1%nat)
                   else if (sz =? 2)%nat then ((b0 mod 32) * 64 + (b1 mod 64), 2%nat)
                   else match r1 with
                        | EmptyString => (RuneError, 1%nat)
                        | String c2 r2 =>
                            let b2 := byte_of c2 in
                            if negb (is_cont b2) then (RuneError, 1%nat)
                            else if (sz =? 3)%nat then
                                   ((b0 mod 16) * 4096 + (b1 mod 64) * 64 + (b2 mod 64), 3%nat)
                            else match r2 with
                                 | EmptyString => (RuneError, 1%nat)
                                 | String c3 _ =>
                                     let b3 := byte_of c3 in
                                     if negb (is_cont b3) then (RuneError, 1%nat)
                                     else ((b0 mod 8) * 262144 + (b1 mod 64) * 4096
                                           + (b2 mod 64) * 64 + (b3 mod 64), 4%nat)
                                 end
                        end
               end
           end
  end.

Definition is_surrogate (r : rune) : bool := (55296 <=? r) && (r <=? 57343).
(* utf8.ValidRune *)
Definition valid_rune (r : rune) : bool :=
  ((0 <=? r) && (r <? 55296)) || ((57343 <? r) && (r <=? MaxRune)).

(* utf8.EncodeRune / string(rune): invalid runes encode U+FFFD *)
Definition encode_rune (r : rune) : string :=
  let r := if valid_rune r then r else RuneError in
  if r <? 128 then string_of_bytes [r]
  else if r <? 2048 then string_of_bytes [192 + r / 64; 128 + r mod 64]
  else if r <? 65536 then string_of_bytes [224 + r / 4096; 128 + (r / 64) mod 64; 128 + r mod 64]
  else string_of_bytes [240 + r / 262144; 128 + (r / 4096) mod 64; 128 + (r / 64) mod 64; 128 + r mod 64].

(* utf8.RuneLen *)
Definition rune_len (r : rune) : Z :=
  if r <? 0 then -1
  else if r <? 128 then 1
  else if r <? 2048 then 2
  else if is_surrogate r then -1
  else if r <? 65536 then 3
  else if r <=? MaxRune then 4
  else -1.

(* `for _, r := range s` : the rune sequence of a Go string (invalid bytes -> RuneError each).
   Fuel = byte length, always sufficient because every step consumes at least one byte. *)
Fixpoint runes_fuel (fuel : nat) (s : string) : list rune :=
  match fuel with
  | O => []
  | S f =>
      match s with
      | EmptyString => []
      | _ => let '(r, w) := decode_rune s in r :: runes_fuel f (sdrop w s)
      end
  end.
Definition runes (s : string) : list rune := runes_fuel (slen s) s.

(* rune sequence with byte offsets, as `for pos, c := range s` *)
Fixpoint runes_pos_fuel (fuel : nat) (s : string) (off : nat) : list (nat * rune) :=
  match fuel with
  | O => []
  | S f =>
      match s with
      | EmptyString => []
      | _ => let '(r, w) := decode_rune s in (off, r) :: runes_pos_fuel f (sdrop w s) (off + w)
      end
  end.
Definition runes_pos (s : string) : list (nat * rune) := runes_pos_fuel (slen s) s 0.

Definition rune_count (s : string) : nat := List.length (runes s).

Definition string_of_runes (l : list rune) : string := sconcat (map encode_rune l).

(* utf8.ValidString *)
Fixpoint valid_utf8_fuel (fuel : nat) (s : string) : bool :=
  match fuel with
  | O => match s with EmptyString => true | _ => false end
  | S f =>
      match s with
      | EmptyString => true
      | String c0 _ =>
          let '(r, w) := decode_rune s in
          if (r =? RuneError) && (w =? 1)%nat then false
          else valid_utf8_fuel f (sdrop w s)
      end
  end.
Definition valid_utf8 (s : string) : bool := valid_utf8_fuel (slen s) s.

(* decode_rune never returns width 0 on a non-empty string and never more than the length *)
Lemma decode_rune_width s : s <> EmptyString ->
  (1 <= snd (decode_rune s) <= slen s)%nat.
Proof.
  destruct s as [|c0 r0]; [congruence|intros _].
  unfold decode_rune.
  destruct (byte_of c0 <? 128); [simpl; lia|].
  destruct (lead_info (byte_of c0)) as [[[sz lo] hi]|]; [|simpl; lia].
  destruct r0 as [|c1 r1]; [simpl; lia|].
  destruct (negb _); [simpl; lia|].
  destruct (sz =? 2)%nat; [simpl; lia|].
  destruct r1 as [|c2 r2]; [simpl; lia|].
  destruct (negb _); [simpl; lia|].
  destruct (sz =? 3)%nat; [simpl; lia|].
  destruct r2 as [|c3 r3]; [simpl; lia|].
  destruct (negb _); simpl; lia.
Qed.
