(* Base/Decimal.v — the parts of Go's strconv / fmt / encoding/json number handling that
   jsonata-go relies on (go1.23.5), re-implemented on exact integer arithmetic.

     parse_float          strconv.ParseFloat(s, 64), decimal syntax only
     shortest_digits      the (digits, dp) pair of strconv's shortest formatting (Ryu)
     format_float_g/e/f   strconv.FormatFloat(x, 'g'|'e'|'f', -1, 64)   (fmt %g = 'g', -1)
     format_float_fixed   strconv.FormatFloat(x, 'f', prec, 64), prec >= 0
     format_json_number   encoding/json floatEncoder (what $string(number) prints)
     format_int / atoi    strconv.FormatInt / strconv.Atoi

   Stdlib + JV.Base only, no axioms; everything computes under vm_compute and extracts.
   Validated against the real functions by /verif/harness/vectors/decimal/main.go
   (109,886 vectors).  Proved in Proofs/DecimalProofs.v: parse_float's numeric core is the
   correctly rounded (nearest-even) binary64 of the exact decimal; parse_float (format x) = x
   for the g / e / f / JSON formats on every valid finite non-zero x; atoi (format_int z 10) = z.

   Cost under vm_compute: about 1-2 ms per call for ordinary magnitudes, up to ~10 ms near
   1e±308; format_float_fixed on huge values (1e300) needs ~0.1 s (one long division per
   decimal digit).

   Documented deviations from Go:
   * parse_float returns PFSyntax for the spellings "inf", "infinity", "nan" (any case, any
     sign), for hexadecimal floats ("0x1p-2") and for digit-separating underscores (Go 1.23
     accepts "1_0" = 10 and "1_0e1_0").  jsonata-go never passes those: the lexer only
     produces plain decimal literals and $number() pre-filters with the regexp
     ^-?(([0-9]+))(\.[0-9]+)?([Ee][-+]?[0-9]+)?$ .
   * parse_float is mathematically exact for every exponent; Go saturates the *written*
     exponent at about 10^4..10^5 ("if e < 10000 { e = e*10 + digit }"), which can only be
     observed with more than 10000 digits in the literal.
   * atoi ignores int64 range errors (returns the mathematical value).
   * format_json_number on NaN/Inf returns the %g spelling (encoding/json reports an
     UnsupportedValueError instead; callers must test is_finite first). *)
From Coq Require Import ZArith Bool List Ascii String.
From JV.Base Require Import Bytes Utf8 F64.
Open Scope Z_scope.

(* ------------------------------------------------------------------------------------ *)
(* lexical helpers                                                                      *)
(* ------------------------------------------------------------------------------------ *)

Definition is_digit (c : ascii) : bool :=
  let b := byte_of c in (48 <=? b) && (b <=? 57).
Definition digit_val (c : ascii) : Z := byte_of c - 48.
Definition digit_char (d : Z) : ascii := ascii_of_Z (if d <? 10 then 48 + d else 87 + d).

(* reads a maximal run of decimal digits; [acc] accumulates the value, [n] counts digits *)
Fixpoint read_digits (s : string) (acc n : Z) : Z * Z * string :=
  match s with
  | String c r =>
      if is_digit c then read_digits r (10 * acc + digit_val c) (n + 1) else (acc, n, s)
  | EmptyString => (acc, n, s)
  end.

Definition read_sign (s : string) : bool * string :=
  match s with
  | String c r =>
      if Ascii.eqb c "+" then (false, r)
      else if Ascii.eqb c "-" then (true, r)
      else (false, s)
  | EmptyString => (false, s)
  end.

Definition zeros (n : Z) : string := srepeat "0" (Z.to_nat n).

(* ------------------------------------------------------------------------------------ *)
(* 1. strconv.ParseFloat(s, 64)                                                         *)
(* ------------------------------------------------------------------------------------ *)

Inductive pf_result := PFOk (x : f64) | PFRange (x : f64) | PFSyntax.

(* Go: overflow gives (±Inf, ErrRange); everything else (including underflow to 0 and
   denormals) gives err = nil *)
Definition wrap_pf (r : f64) : pf_result :=
  match r with S754_infinity _ => PFRange r | _ => PFOk r end.

(* Euclidean division a / b (a, b > 0) that costs (number of quotient bits) * size b rather
   than size a * size b: the recursion of [Z.pos_div_eucl] cut off [t] bits below the top,
   where the remaining high part is already smaller than b.  Always equal to Z.div_eucl. *)
Fixpoint div_top (t : nat) (a : positive) (b : Z) : Z * Z :=
  match t with
  | O => if Zpos a <? b then (0, Zpos a) else Z.pos_div_eucl a b
  | S t' =>
      match a with
      | xH => if 2 <=? b then (0, 1) else (1, 0)
      | xO a' =>
          let '(q, r) := div_top t' a' b in
          let r' := 2 * r in
          if r' <? b then (2 * q, r') else (2 * q + 1, r' - b)
      | xI a' =>
          let '(q, r) := div_top t' a' b in
          let r' := 2 * r + 1 in
          if r' <? b then (2 * q, r') else (2 * q + 1, r' - b)
      end
  end.

Definition fast_div_eucl (a b : Z) : Z * Z :=
  match a, b with
  | Zpos pa, Zpos _ => div_top (Z.to_nat (Z.log2 a - Z.log2 b + 1)) pa b
  | _, _ => Z.div_eucl a b
  end.

(* 5^n by square-and-multiply (Z.pow is linear in n) *)
Fixpoint pow5_pos (p : positive) : Z :=
  match p with
  | xH => 5
  | xO p' => let r := pow5_pos p' in r * r
  | xI p' => let r := pow5_pos p' in 5 * (r * r)
  end.
Definition pow5 (n : Z) : Z := match n with Zpos p => pow5_pos p | _ => 1 end.
Definition pow10 (n : Z) : Z := Z.shiftl (pow5 n) (Z.max n 0).

(* the binary64 nearest (ties to even) to  (-1)^neg * M * 10^k,  M >= 0 *)
Definition dec_to_f64 (neg : bool) (M k : Z) : pf_result :=
  if M <=? 0 then PFOk (S754_zero neg)
  else if 0 <=? k then
    if 310 <? k then PFRange (S754_infinity neg)            (* M >= 1: value >= 10^311 *)
    else
      let V := M * pow10 k in
      wrap_pf (binary_normalize prec emax (if neg then - V else V) 0 neg)
  else
    let kk := - k in
    let lm := Z.log2 M in
    (* value < 2^(lm+1) / 8^kk <= 2^-1080 : far below half the least denormal *)
    if lm + 1081 <? 3 * kk then PFOk (S754_zero neg)
    else
      (* M / 10^kk = (M * 2^sh / 5^kk) * 2^-(sh+kk) ; sh extra bits so that the quotient
         has at least 56 significant bits *)
      let D := pow5 kk in
      let sh := Z.max 0 (Z.log2 D - lm + 56) in
      let '(q, r) := fast_div_eucl (Z.shiftl M sh) D in
      let loc := if r =? 0 then loc_Exact else loc_Inexact (Z.compare (2 * r) D) in
      wrap_pf (binary_round_aux prec emax neg q (- (sh + kk)) loc).

(* [sign] digits [. digits] [(e|E) [sign] digits] ; at least one mantissa digit *)
Definition parse_float (s : string) : pf_result :=
  let '(neg, s1) := read_sign s in
  let '(m1, n1, s2) := read_digits s1 0 0 in
  let '(m2, n2, s3) :=
    match s2 with
    | String c r => if Ascii.eqb c "." then read_digits r m1 0 else (m1, 0, s2)
    | EmptyString => (m1, 0, s2)
    end in
  if n1 + n2 =? 0 then PFSyntax
  else
    match s3 with
    | EmptyString => dec_to_f64 neg m2 (- n2)
    | String c r =>
        if Ascii.eqb c "e" || Ascii.eqb c "E" then
          let '(eneg, s4) := read_sign r in
          let '(ev, en, s5) := read_digits s4 0 0 in
          if en =? 0 then PFSyntax
          else
            match s5 with
            | EmptyString => dec_to_f64 neg m2 ((if eneg then - ev else ev) - n2)
            | String _ _ => PFSyntax
            end
        else PFSyntax
    end.

(* ------------------------------------------------------------------------------------ *)
(* 2. shortest digits (strconv.ryuFtoaShortest, on exact integers)                       *)
(* ------------------------------------------------------------------------------------ *)

(* ryuDigits32's trimming loop on unbounded integers:
     l = Ceil(lower / 10^k), c = Floor(central / 10^k) (bumped to l when it falls below),
     u = Floor(upper / 10^k);  stops as soon as no multiple of 10^(k+1) is left in [l, u].
   Returns (c, u, c0, cNextDigit, trimmed). *)
Fixpoint ryu_trim (fuel : nat) (l c u : Z) (c0 : bool) (cnext trimmed : Z)
  : Z * Z * bool * Z * Z :=
  match fuel with
  | O => (c, u, c0, cnext, trimmed)
  | S f =>
      let l' := (l + 9) / 10 in
      let c' := c / 10 in
      let cd := c mod 10 in
      let u' := u / 10 in
      if u' <? l' then (c, u, c0, cnext, trimmed)
      else
        let bump := (l' =? c' + 1) && (c' <? u') in
        ryu_trim f l' (if bump then c' + 1 else c') u'
                 (c0 && (cnext =? 0)) (if bump then 0 else cd) (trimmed + 1)
  end.

(* removes trailing decimal zeros of c > 0, counting them *)
Fixpoint strip10 (fuel : nat) (c cnt : Z) : Z * Z :=
  match fuel with
  | O => (c, cnt)
  | S f => if (c mod 10 =? 0) && (0 <? c) then strip10 f (c / 10) (cnt + 1) else (c, cnt)
  end.

(* The scaled interval of the float m * 2^e (m > 0): returns (Xl, Xc, Xu, B, q) with
     (lower, central, upper) * 10^q = (Xl, Xc, Xu) / B
   where central = m * 2^e and lower/upper are the midpoints towards the neighbouring
   floats (computeBounds), and 10^q is just larger than the inverse of the unit 2^e2 in
   which the three are integers (q = mulByLog2Log10(-e2) + 1). *)
Definition ryu_scale (m : positive) (e : Z) : Z * Z * Z * Z * Z :=
  let mz := Zpos m in
  (* the lower neighbour is closer at the border of an exponent:
     lower, central, upper = 2m-1, 2m, 2m+1 in units of 2^(e-1),
     or 4m-1, 4m, 4m+2 in units of 2^(e-2) *)
  let border := (mz =? 2 ^ 52) && (-1074 <? e) in
  let e2 := if border then e - 2 else e - 1 in
  let q := Z.shiftr ((- e2) * 78913) 18 + 1 in
  let PA := pow5 q in                     (* 1 when q <= 0 *)
  let PB := pow5 (- q) in                 (* 1 when q >= 0 *)
  let sa := Z.max (e2 + q) 0 in
  let sb := Z.max (- (e2 + q)) 0 in
  let T := mz * PA in
  let Xc := Z.shiftl T (if border then sa + 2 else sa + 1) in
  let Xl := Xc - Z.shiftl PA sa in
  let Xu := Xc + Z.shiftl PA (if border then sa + 1 else sa) in
  let B := Z.shiftl PB sb in
  (Xl, Xc, Xu, B, q).

(* ryuDigits: given the admissible integers [l, u] and the floor c of the central value at
   the finest scale (c0: central is exactly c; cup: central is closer to c+1), trim as many
   digits as possible and round the central value at that scale, staying inside [l, u].
   Returns (C, trimmed): the chosen decimal is C * 10^trimmed at the finest scale. *)
Definition ryu_select (fuel : nat) (l c u : Z) (c0 cup : bool) : Z * Z :=
  let '(c, u', c0', cnext, trimmed) := ryu_trim fuel l c u c0 0 0 in
  let cup' := if 0 <? trimmed
              then (5 <? cnext) || ((cnext =? 5) && (negb c0' || Z.odd c))
              else cup in
  (if (c <? u') && cup' then c + 1 else c, trimmed).

(* |x| = m * 2^e  |->  (C, K) with shortest C (no trailing zero) and |x| ~ C * 10^K.
   [fuel] bounds the number of trimmed digits (at most 20 are ever trimmed). *)
Definition shortest_core_fuel (fuel : nat) (m : positive) (e : Z) : Z * Z :=
  let '(Xl, Xc, Xu, B, q) := ryu_scale m e in
  let '(ql, rl) := fast_div_eucl Xl B in
  let '(qc, rc) := fast_div_eucl Xc B in
  let '(qu, ru) := fast_div_eucl Xu B in
  (* the end points are admissible only if the mantissa is even (ties round to even) *)
  let incl := Z.even (Zpos m) in
  let l := if incl && (rl =? 0) then ql else ql + 1 in
  let u := if (ru =? 0) && negb incl then qu - 1 else qu in
  let c0 := rc =? 0 in
  let cup := match 2 * rc ?= B with Gt => true | Eq => Z.odd qc | Lt => false end in
  let '(cf, trimmed) := ryu_select fuel l qc u c0 cup in
  let '(cs, z) := strip10 fuel cf 0 in
  (cs, z + trimmed - q).

Definition shortest_core : positive -> Z -> Z * Z := shortest_core_fuel 40.

Fixpoint int_digits (fuel : nat) (z base : Z) (acc : string) : string :=
  match fuel with
  | O => acc
  | S f =>
      let acc' := String (digit_char (z mod base)) acc in
      if z <? base then acc' else int_digits f (z / base) base acc'
  end.

(* decimal digits of a positive integer, most significant first *)
Definition digits_of_Z (z : Z) : string :=
  if z <=? 0 then EmptyString else int_digits (S (Z.to_nat (Z.log2 z))) z 10 EmptyString.

(* (digits, dp) with |x| ~ 0.d1d2...dn * 10^dp ; ("", 0) for zeros and non-finite values *)
Definition shortest_digits (x : f64) : string * Z :=
  match x with
  | S754_finite _ m e =>
      let '(c, k) := shortest_core m e in
      let ds := digits_of_Z c in
      (ds, Z.of_nat (slen ds) + k)
  | _ => (EmptyString, 0)
  end.

(* the search of shortest_digits found a candidate that parse_float's rounding reads back;
   always true on valid binary64 values (Proofs/DecimalProofs.v, shortest_digits_ok_valid) *)
Definition shortest_digits_ok (x : f64) : bool :=
  match x with
  | S754_finite s m e =>
      let '(c, k) := shortest_core m e in
      match dec_to_f64 s c k with
      | PFOk (S754_finite s' m' e') => Bool.eqb s s' && (Zpos m =? Zpos m') && (e =? e')
      | _ => false
      end
  | _ => false
  end.

(* ------------------------------------------------------------------------------------ *)
(* 3. strconv.FormatFloat                                                               *)
(* ------------------------------------------------------------------------------------ *)

(* strconv.FormatInt(z, base), 2 <= base <= 36 (section 5; defined here because the
   exponent of %e is printed with it) *)
Definition format_int (z base : Z) : string :=
  if z <? 0 then String "-" (int_digits (S (Z.to_nat (Z.log2 (- z)))) (- z) base EmptyString)
  else int_digits (S (Z.to_nat (Z.log2 z))) z base EmptyString.

Definition exp_digits (a : Z) : string :=
  if a <? 10 then String "0" (format_int a 10) else format_int a 10.

(* %e: -d.ddddde±dd *)
Definition fmtE (neg : bool) (ds : string) (dp prec : Z) : string :=
  let nd := Z.of_nat (slen ds) in
  (if neg then "-" else "") ++
  (match ds with String c _ => String c "" | EmptyString => "0" end) ++
  (if 0 <? prec then
     let body := stake (Z.to_nat prec) (sdrop 1 ds) in
     "." ++ body ++ zeros (prec - Z.of_nat (slen body))
   else "") ++
  (let exp := if nd =? 0 then 0 else dp - 1 in
   "e" ++ (if exp <? 0 then "-" else "+") ++ exp_digits (Z.abs exp)).

(* %f: -ddddddd.ddddd *)
Definition fmtF (neg : bool) (ds : string) (dp prec : Z) : string :=
  let nd := Z.of_nat (slen ds) in
  (if neg then "-" else "") ++
  (if 0 <? dp then
     let m := Z.min nd dp in stake (Z.to_nat m) ds ++ zeros (dp - m)
   else "0") ++
  (if 0 <? prec then
     let z1 := Z.min prec (Z.max 0 (- dp)) in
     let body := stake (Z.to_nat (prec - z1)) (sdrop (Z.to_nat (Z.max dp 0)) ds) in
     "." ++ zeros z1 ++ body ++ zeros (prec - z1 - Z.of_nat (slen body))
   else "").

Definition fmt_special (x : f64) : option string :=
  match x with
  | S754_nan => Some "NaN"
  | S754_infinity s => Some (if s then "-Inf" else "+Inf")
  | _ => None
  end.

(* FormatFloat(x, 'e', -1, 64) *)
Definition format_float_e (x : f64) : string :=
  match fmt_special x with
  | Some s => s
  | None =>
      let '(ds, dp) := shortest_digits x in
      fmtE (sign_bit x) ds dp (Z.max (Z.of_nat (slen ds) - 1) 0)
  end.

(* FormatFloat(x, 'f', -1, 64) *)
Definition format_float_f (x : f64) : string :=
  match fmt_special x with
  | Some s => s
  | None =>
      let '(ds, dp) := shortest_digits x in
      fmtF (sign_bit x) ds dp (Z.max (Z.of_nat (slen ds) - dp) 0)
  end.

(* FormatFloat(x, 'g', -1, 64) = fmt.Sprintf("%g", x): formatDigits with shortest = true,
   prec = digs.nd, eprec = 6 *)
Definition format_float_g (x : f64) : string :=
  match fmt_special x with
  | Some s => s
  | None =>
      let '(ds, dp) := shortest_digits x in
      let nd := Z.of_nat (slen ds) in
      let eprec := 6 in
      let exp := dp - 1 in
      if (exp <? -4) || (eprec <=? exp) then fmtE (sign_bit x) ds dp (nd - 1)
      else fmtF (sign_bit x) ds dp (Z.max (nd - dp) 0)
  end.

(* FormatFloat(x, 'f', p, 64), p >= 0: the exact binary value rounded half-even to p
   decimals (decimal.Round on the exact expansion) *)
Definition format_float_fixed (x : f64) (p : Z) : string :=
  match x with
  | S754_nan | S754_infinity _ => match fmt_special x with Some s => s | None => "" end
  | S754_zero s => fmtF s "" 0 p
  | S754_finite s m e =>
      let p := Z.max p 0 in
      let N :=
        match e with
        | Zneg pe =>
            let D := 2 ^ Zpos pe in
            let '(q, r) := Z.div_eucl (Zpos m * 10 ^ p) D in
            match 2 * r ?= D with
            | Gt => q + 1
            | Eq => if Z.odd q then q + 1 else q
            | Lt => q
            end
        | _ => Zpos m * 2 ^ e * 10 ^ p
        end in
      if N =? 0 then fmtF s "" 0 p
      else let ds := digits_of_Z N in fmtF s ds (Z.of_nat (slen ds) - p) p
  end.

(* ------------------------------------------------------------------------------------ *)
(* 4. encoding/json floatEncoder                                                         *)
(* ------------------------------------------------------------------------------------ *)

Definition f64_1e21 : f64 := Eval vm_compute in f_of_Z (10 ^ 21).
Definition f64_1em6 : f64 :=
  Eval vm_compute in match parse_float "1e-6" with PFOk x => x | _ => S754_nan end.

(* clean up e-09 to e-9 *)
Fixpoint json_cleanup (s : string) : string :=
  match s with
  | String a r =>
      match r with
      | String b (String c (String d EmptyString)) =>
          if Ascii.eqb a "e" && Ascii.eqb b "-" && Ascii.eqb c "0"
          then String a (String b (String d EmptyString))
          else String a (json_cleanup r)
      | _ => String a (json_cleanup r)
      end
  | EmptyString => EmptyString
  end.

Definition format_json_number (x : f64) : string :=
  match fmt_special x with
  | Some s => s
  | None =>
      let a := fabs x in
      if negb (is_zero a) && (fltb a f64_1em6 || fleb f64_1e21 a)
      then json_cleanup (format_float_e x)
      else format_float_f x
  end.

(* ------------------------------------------------------------------------------------ *)
(* 5. strconv.FormatInt / strconv.Atoi                                                   *)
(* ------------------------------------------------------------------------------------ *)

Definition atoi (s : string) : option Z :=
  let '(neg, r) := read_sign s in
  let '(v, n, rest) := read_digits r 0 0 in
  if n =? 0 then None
  else match rest with
       | EmptyString => Some (if neg then - v else v)
       | String _ _ => None
       end.
