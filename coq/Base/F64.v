(* Base/F64.v — IEEE-754 binary64 as Go's float64, on Coq's own [SpecFloat] (the
   proof-free specification that Flocq's BinarySingleNaN proves correct against the
   reals: [B2SF (Bplus x y) = SFadd (B2SF x) (B2SF y)] and so on).  Stdlib only; every
   definition computes with [vm_compute] and extracts without proof terms. *)
From Coq Require Export ZArith Bool.
From Coq Require Export Floats.SpecFloat.
Open Scope Z_scope.

Definition f64 := spec_float.
Definition prec : Z := 53.
Definition emax : Z := 1024.

Definition fadd : f64 -> f64 -> f64 := SFadd prec emax.
Definition fsub : f64 -> f64 -> f64 := SFsub prec emax.
Definition fmul : f64 -> f64 -> f64 := SFmul prec emax.
Definition fdiv : f64 -> f64 -> f64 := SFdiv prec emax.
Definition fsqrt : f64 -> f64 := SFsqrt prec emax.
Definition fopp : f64 -> f64 := SFopp.
Definition fabs : f64 -> f64 := SFabs.
Definition fcompare : f64 -> f64 -> option comparison := SFcompare.
Definition feqb : f64 -> f64 -> bool := SFeqb.    (* Go ==  : false on NaN, -0 == 0 *)
Definition fltb : f64 -> f64 -> bool := SFltb.    (* Go <   *)
Definition fleb : f64 -> f64 -> bool := SFleb.    (* Go <=  *)

Definition is_nan (x : f64) : bool := match x with S754_nan => true | _ => false end.
Definition is_inf (x : f64) : bool := match x with S754_infinity _ => true | _ => false end.
Definition is_finite (x : f64) : bool :=
  match x with S754_zero _ | S754_finite _ _ _ => true | _ => false end.
Definition is_zero (x : f64) : bool := match x with S754_zero _ => true | _ => false end.
Definition sign_bit (x : f64) : bool :=
  match x with S754_zero s | S754_infinity s | S754_finite s _ _ => s | S754_nan => false end.

Definition fzero : f64 := S754_zero false.
Definition fnzero : f64 := S754_zero true.
(* m * 2^e, correctly rounded (round to nearest even), sign of zero given *)
Definition f_of_Zexp (m e : Z) (szero : bool) : f64 := binary_normalize prec emax m e szero.
Definition f_of_Z (z : Z) : f64 := f_of_Zexp z 0 false.
Definition fone : f64 := f_of_Z 1.

Definition valid_f64 (x : f64) : bool := valid_binary prec emax x.

(* ---- bit patterns (wire format; math.Float64bits / Float64frombits) ---- *)
Definition f_of_bits (z : Z) : f64 :=
  let z := z mod 2 ^ 64 in
  let s := 2 ^ 63 <=? z in
  let ex := (z / 2 ^ 52) mod 2048 in
  let mx := z mod 2 ^ 52 in
  if ex =? 0 then
    match mx with
    | Zpos p => S754_finite s p (-1074)
    | _ => S754_zero s
    end
  else if ex =? 2047 then
    if mx =? 0 then S754_infinity s else S754_nan
  else
    match mx + 2 ^ 52 with
    | Zpos p => S754_finite s p (ex - 1075)
    | _ => S754_nan
    end.

Definition bits_of_f (x : f64) : Z :=
  match x with
  | S754_zero s => if s then 2 ^ 63 else 0
  | S754_infinity s => (if s then 2 ^ 63 else 0) + 2047 * 2 ^ 52
  | S754_nan => 2047 * 2 ^ 52 + 2 ^ 51 (* Go's canonical quiet NaN 0x7FF8000000000001 differs; NaN never crosses the wire as a value *)
  | S754_finite s m e =>
      (if s then 2 ^ 63 else 0) +
      (if Zpos m <? 2 ^ 52 then Zpos m            (* subnormal: e = -1074 *)
       else (e + 1075) * 2 ^ 52 + (Zpos m - 2 ^ 52))
  end.

(* ---- integer parts ---- *)
(* the integer  trunc(|x|)  and whether a fractional part was dropped, for finite x *)
Definition abs_int_frac (m : positive) (e : Z) : Z * bool :=
  match e with
  | Zneg p => let d := 2 ^ Zpos p in (Zpos m / d, negb (Zpos m mod d =? 0))
  | _ => (Zpos m * 2 ^ e, false)
  end.

(* math.Trunc *)
Definition ftrunc (x : f64) : f64 :=
  match x with
  | S754_finite s m e =>
      if 0 <=? e then x else
      let '(q, _) := abs_int_frac m e in f_of_Zexp (if s then - q else q) 0 s
  | _ => x
  end.
(* math.Floor *)
Definition ffloor (x : f64) : f64 :=
  match x with
  | S754_finite s m e =>
      if 0 <=? e then x else
      let '(q, fr) := abs_int_frac m e in
      if s then f_of_Zexp (- (if fr then q + 1 else q)) 0 true else f_of_Zexp q 0 false
  | _ => x
  end.
(* math.Ceil *)
Definition fceil (x : f64) : f64 :=
  match x with
  | S754_finite s m e =>
      if 0 <=? e then x else
      let '(q, fr) := abs_int_frac m e in
      if s then f_of_Zexp (- q) 0 true else f_of_Zexp (if fr then q + 1 else q) 0 false
  | _ => x
  end.

(* exact integer value of a finite float that is an integer; trunc toward zero otherwise *)
Definition Z_trunc (x : f64) : option Z :=
  match x with
  | S754_zero _ => Some 0
  | S754_finite s m e => let '(q, _) := abs_int_frac m e in Some (if s then - q else q)
  | _ => None
  end.

(* Go's int(x) / int64(x) conversion on amd64 (CVTTSD2SQ): out-of-range, NaN and Inf give
   the "integer indefinite" value -2^63 *)
Definition go_int (x : f64) : Z :=
  match Z_trunc x with
  | Some z => if (- 2 ^ 63 <=? z) && (z <? 2 ^ 63) then z else - 2 ^ 63
  | None => - 2 ^ 63
  end.

(* x == math.Trunc(x)  (eval.go isInteger) *)
Definition f_is_integer (x : f64) : bool := feqb x (ftrunc x).

(* math.Mod: exact truncated remainder with the dividend's sign *)
Definition fmod (x y : f64) : f64 :=
  match x, y with
  | S754_nan, _ | _, S754_nan => S754_nan
  | S754_infinity _, _ => S754_nan
  | _, S754_zero _ => S754_nan
  | _, S754_infinity _ => x
  | S754_zero _, _ => x
  | S754_finite sx mx ex, S754_finite _ my ey =>
      let e := Z.min ex ey in
      let X := Zpos mx * 2 ^ (ex - e) in
      let Y := Zpos my * 2 ^ (ey - e) in
      let R := X mod Y in
      f_of_Zexp (if sx then - R else R) e sx
  end.

(* float64(int) for the int values the evaluator produces (indices, counts) *)
Definition f_of_nat (n : nat) : f64 := f_of_Z (Z.of_nat n).

(* 2^53 : integers below are exact *)
Definition two53 : Z := 2 ^ 53.
