(* Base/Bytes.v — Go strings are byte sequences: Coq [string] (8-bit [ascii]) used as-is.
   Byte-level helpers shared by every model file.  Stdlib only, no axioms. *)
From Coq Require Export List ZArith Bool Ascii String Lia.
Export ListNotations.
Open Scope string_scope.

Definition byte_of (c : ascii) : Z := Z.of_N (N_of_ascii c).
Definition ascii_of_Z (z : Z) : ascii := ascii_of_N (Z.to_N (z mod 256)).

Fixpoint list_of_string (s : string) : list ascii :=
  match s with EmptyString => [] | String c r => c :: list_of_string r end.
Fixpoint string_of_list (l : list ascii) : string :=
  match l with [] => EmptyString | c :: r => String c (string_of_list r) end.

Definition bytes_of (s : string) : list Z := map byte_of (list_of_string s).
Definition string_of_bytes (l : list Z) : string := string_of_list (map ascii_of_Z l).

Definition slen (s : string) : nat := String.length s.

(* s[n:] ; the whole tail is returned for n beyond the end only as "" *)
Fixpoint sdrop (n : nat) (s : string) : string :=
  match n, s with
  | O, _ => s
  | S n', String _ r => sdrop n' r
  | S _, EmptyString => EmptyString
  end.
(* s[:n] *)
Fixpoint stake (n : nat) (s : string) : string :=
  match n, s with
  | O, _ => EmptyString
  | S n', String c r => String c (stake n' r)
  | S _, EmptyString => EmptyString
  end.
(* s[a:b] for a <= b <= len s (checked by callers that model Go's bounds panics) *)
Definition sslice (a b : nat) (s : string) : string := stake (b - a) (sdrop a s).

Fixpoint srev_acc (s acc : string) : string :=
  match s with EmptyString => acc | String c r => srev_acc r (String c acc) end.
Definition srev (s : string) : string := srev_acc s EmptyString.

Fixpoint sconcat (l : list string) : string :=
  match l with [] => EmptyString | s :: r => s ++ sconcat r end.

Fixpoint sjoin (sep : string) (l : list string) : string :=
  match l with
  | [] => EmptyString
  | [s] => s
  | s :: r => s ++ sep ++ sjoin sep r
  end.

Definition ascii_eqb (a b : ascii) : bool := Ascii.eqb a b.

Fixpoint seqb (a b : string) : bool :=
  match a, b with
  | EmptyString, EmptyString => true
  | String x a', String y b' => Ascii.eqb x y && seqb a' b'
  | _, _ => false
  end.

Lemma seqb_eq a b : seqb a b = true <-> a = b.
Proof.
  revert b; induction a as [|x a IH]; intros [|y b]; simpl; split; intro H;
    try reflexivity; try discriminate.
  - apply andb_true_iff in H as [H1 H2]. apply Ascii.eqb_eq in H1. apply IH in H2. now subst.
  - inversion H; subst. apply andb_true_iff; split; [apply Ascii.eqb_refl | now apply IH].
Qed.

Lemma seqb_refl a : seqb a a = true.
Proof. now apply seqb_eq. Qed.

(* Go's string < : bytewise lexicographic *)
Fixpoint sltb (a b : string) : bool :=
  match a, b with
  | _, EmptyString => false
  | EmptyString, String _ _ => true
  | String x a', String y b' =>
      if (byte_of x <? byte_of y)%Z then true
      else if (byte_of y <? byte_of x)%Z then false
      else sltb a' b'
  end.

Fixpoint sprefix (p s : string) : bool :=
  match p, s with
  | EmptyString, _ => true
  | String x p', String y s' => Ascii.eqb x y && sprefix p' s'
  | String _ _, EmptyString => false
  end.

(* strings.Index: byte offset of the first occurrence of [sub] in [s] *)
Fixpoint sindex_from (sub s : string) (off : nat) : option nat :=
  if sprefix sub s then Some off
  else match s with
       | EmptyString => None
       | String _ r => sindex_from sub r (S off)
       end.
Definition sindex (sub s : string) : option nat := sindex_from sub s 0.

Definition scontains (sub s : string) : bool :=
  match sindex sub s with Some _ => true | None => false end.

Fixpoint srepeat (s : string) (n : nat) : string :=
  match n with O => EmptyString | S n' => s ++ srepeat s n' end.

(* ---- hexadecimal (wire format) ---- *)
Definition hex_digit (n : Z) : ascii :=
  ascii_of_Z (if (n <? 10)%Z then 48 + n else 87 + n).
Definition hex_val (c : ascii) : option Z :=
  let b := byte_of c in
  if ((48 <=? b) && (b <=? 57))%Z then Some (b - 48)%Z
  else if ((97 <=? b) && (b <=? 102))%Z then Some (b - 87)%Z
  else if ((65 <=? b) && (b <=? 70))%Z then Some (b - 55)%Z
  else None.

Fixpoint hex_of_string (s : string) : string :=
  match s with
  | EmptyString => EmptyString
  | String c r => let b := byte_of c in
                  String (hex_digit (b / 16)) (String (hex_digit (b mod 16)) (hex_of_string r))
  end.

Fixpoint string_of_hex (s : string) : option string :=
  match s with
  | EmptyString => Some EmptyString
  | String a (String b r) =>
      match hex_val a, hex_val b, string_of_hex r with
      | Some x, Some y, Some t => Some (String (ascii_of_Z (16 * x + y)) t)
      | _, _, _ => None
      end
  | _ => None
  end.

Fixpoint Z_of_hex_acc (s : string) (acc : Z) : option Z :=
  match s with
  | EmptyString => Some acc
  | String a r => match hex_val a with
                  | Some x => Z_of_hex_acc r (16 * acc + x)
                  | None => None
                  end
  end.
Definition Z_of_hex (s : string) : option Z := Z_of_hex_acc s 0.

Fixpoint hex_of_Z_digits (n : nat) (z : Z) (acc : string) : string :=
  match n with
  | O => acc
  | S n' => hex_of_Z_digits n' (z / 16) (String (hex_digit (z mod 16)) acc)
  end.
Definition hex16_of_Z (z : Z) : string := hex_of_Z_digits 16 z EmptyString.

(* decimal printing of integers (used for wire counts, error positions, ...) *)
Fixpoint dec_digits (fuel : nat) (z : Z) (acc : string) : string :=
  match fuel with
  | O => acc
  | S f => let acc' := String (ascii_of_Z (48 + z mod 10)) acc in
           if (z <? 10)%Z then acc' else dec_digits f (z / 10) acc'
  end.
Definition string_of_Z (z : Z) : string :=
  if (z <? 0)%Z then String "-" (dec_digits (S (Z.to_nat (Z.log2 (- z)))) (- z) EmptyString)
  else dec_digits (S (Z.to_nat (Z.log2 z))) z EmptyString.
Definition string_of_nat (n : nat) : string := string_of_Z (Z.of_nat n).

Fixpoint Z_of_dec_acc (s : string) (acc : Z) : option Z :=
  match s with
  | EmptyString => Some acc
  | String a r => let b := byte_of a in
                  if ((48 <=? b) && (b <=? 57))%Z then Z_of_dec_acc r (10 * acc + (b - 48)) else None
  end.
Definition Z_of_dec (s : string) : option Z :=
  match s with
  | EmptyString => None
  | String "-" r => match r with EmptyString => None | _ => option_map Z.opp (Z_of_dec_acc r 0) end
  | _ => Z_of_dec_acc s 0
  end.

(* split on a single separator byte (wire tokens) *)
Fixpoint ssplit_char_acc (sep : ascii) (s cur : string) : list string :=
  match s with
  | EmptyString => [srev cur]
  | String c r => if Ascii.eqb c sep then srev cur :: ssplit_char_acc sep r EmptyString
                  else ssplit_char_acc sep r (String c cur)
  end.
Definition ssplit_char (sep : ascii) (s : string) : list string := ssplit_char_acc sep s EmptyString.

(* ---- elementary facts used everywhere ---- *)
Lemma slen_app a b : slen (a ++ b) = slen a + slen b.
Proof. induction a; simpl; auto. Qed.

Lemma sapp_nil_r a : a ++ "" = a.
Proof. induction a; simpl; congruence. Qed.

Lemma sapp_assoc a b c : (a ++ b) ++ c = a ++ (b ++ c).
Proof. induction a; simpl; congruence. Qed.

Lemma stake_sdrop n s : stake n s ++ sdrop n s = s.
Proof. revert s; induction n; intros [|c s]; simpl; auto. now rewrite IHn. Qed.

Lemma slen_stake n s : n <= slen s -> slen (stake n s) = n.
Proof. revert s; induction n; intros [|c s]; simpl; intros; auto; try lia. rewrite IHn; lia. Qed.

Lemma slen_sdrop n s : slen (sdrop n s) = slen s - n.
Proof. revert s; induction n; intros [|c s]; simpl; auto. Qed.
