(* Base/Res.v — outcome of a jlib function: a value, a Go `error` (tag = informal
   identification of which fmt.Errorf it was; never compared with message texts), the
   jtypes.ErrUndefined sentinel ("no value"), a Go run-time panic, or out of fuel. *)
From Coq Require Export String.
Inductive lres (A : Type) : Type :=
| LOk (a : A)
| LErr (tag : string)
| LUndef
| LPanic (why : string)
| LFuel.
Arguments LOk {A} a.
Arguments LErr {A} tag.
Arguments LUndef {A}.
Arguments LPanic {A} why.
Arguments LFuel {A}.

Definition lbind {A B} (x : lres A) (f : A -> lres B) : lres B :=
  match x with
  | LOk a => f a
  | LErr t => LErr t
  | LUndef => LUndef
  | LPanic w => LPanic w
  | LFuel => LFuel
  end.
Definition lmap {A B} (f : A -> B) (x : lres A) : lres B := lbind x (fun a => LOk (f a)).
