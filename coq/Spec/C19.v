(* Spec/C19.v — declarative vocabulary for property C19 (the date functions).

   Nothing here mentions the Go code or the model: it is the ordinary definition of the
   proleptic Gregorian calendar, the ISO-8601 week, the 12-hour clock and the +HHMM zone
   syntax, against which Proofs/LibDateProofs.v states what the model (= the code) does.
   Stdlib only, no axioms. *)
From Coq Require Import ZArith List String Ascii Bool.
Import ListNotations.
Open Scope Z_scope.

(** * The proleptic Gregorian calendar *)

Definition leap_year (y : Z) : bool :=
  ((y mod 4 =? 0) && negb (y mod 100 =? 0)) || (y mod 400 =? 0).

Definition month_length (y m : Z) : Z :=
  match m with
  | 1 => 31 | 2 => if leap_year y then 29 else 28 | 3 => 31 | 4 => 30 | 5 => 31 | 6 => 30
  | 7 => 31 | 8 => 31 | 9 => 30 | 10 => 31 | 11 => 30 | 12 => 31
  | _ => 0
  end.

Definition valid_date (y m d : Z) : Prop := 1 <= m <= 12 /\ 1 <= d <= month_length y m.

(* the day after a calendar date *)
Definition next_day (c : Z * Z * Z) : Z * Z * Z :=
  let '(y, m, d) := c in
  if d <? month_length y m then (y, m, d + 1)
  else if m <? 12 then (y, m + 1, 1)
  else (y + 1, 1, 1).

(* A function from day numbers to dates IS the calendar counted from 1970-01-01 iff day 0 is
   1970-01-01 and consecutive day numbers are consecutive dates.  (These two clauses determine
   the function on all of Z: see [calendar_unique] in the proof file.) *)
Definition is_calendar (f : Z -> Z * Z * Z) : Prop :=
  f 0 = (1970, 1, 1) /\ forall z, f (z + 1) = next_day (f z).

(** * Day of the week: 0 = Sunday ... 6 = Saturday; 1970-01-01 was a Thursday *)
Definition is_weekday (w : Z -> Z) : Prop :=
  w 0 = 4 /\ forall z, w (z + 1) = (w z + 1) mod 7.

(** * Day of the year: 1 on 1 January; d + lengths of the preceding months *)
Fixpoint months_before (y : Z) (k : nat) : Z :=
  match k with
  | O => 0
  | S k' => months_before y k' + month_length y (Z.of_nat k)
  end.
Definition day_of_year (y m d : Z) : Z := months_before y (Z.to_nat (m - 1)) + d.

(** * ISO 8601 week date.
   Weeks start on Monday.  Week 1 of week-year Y is the week that contains 4 January of Y
   (equivalently: the first Thursday of Y).  Day z belongs to week-year Y iff it lies from the
   Monday of week 1 of Y up to (excluding) the Monday of week 1 of Y+1, and its week number is
   one plus the number of whole weeks since the former.
   [dn y m d] = day number of a date, [wd z] = weekday (0 = Sunday) of a day number. *)
Definition monday_of (wd : Z -> Z) (z : Z) : Z := z - (wd z + 6) mod 7.
Definition iso_week1_start (dn : Z -> Z -> Z -> Z) (wd : Z -> Z) (y : Z) : Z :=
  monday_of wd (dn y 1 4).
Definition is_iso_week (dn : Z -> Z -> Z -> Z) (wd : Z -> Z) (z wy wk : Z) : Prop :=
  iso_week1_start dn wd wy <= z < iso_week1_start dn wd (wy + 1) /\
  wk = (z - iso_week1_start dn wd wy) / 7 + 1.

(** * Clock fields of an instant at a fixed offset *)
(* ms = milliseconds since the epoch, off = zone offset in seconds; floor division throughout *)
Definition local_seconds (ms off : Z) : Z := ms / 1000 + off.
Definition local_day (ms off : Z) : Z := local_seconds ms off / 86400.
Definition hour_of (ms off : Z) : Z := (local_seconds ms off mod 86400) / 3600.
Definition minute_of (ms off : Z) : Z := (local_seconds ms off mod 3600) / 60.
Definition second_of (ms off : Z) : Z := local_seconds ms off mod 60.
Definition millisecond_of (ms : Z) : Z := ms mod 1000.

(* the 12-hour clock the property demands: 12, 1 .. 11, 12, 1 .. 11 *)
Definition hour12_demanded (h : Z) : Z := if h mod 12 =? 0 then 12 else h mod 12.

(** * Time-zone argument: a sign and exactly four decimal digits HHMM, HH <= 23, MM <= 59 *)
Definition is_digit (c : ascii) : bool :=
  let n := Z.of_N (N_of_ascii c) in (48 <=? n) && (n <=? 57).
Definition digit_val (c : ascii) : Z := Z.of_N (N_of_ascii c) - 48.
(* tz_denotes s off: s is +HHMM / -HHMM and off the offset in seconds *)
Definition tz_denotes (s : string) (off : Z) : Prop :=
  exists sg h1 h2 m1 m2,
    s = String sg (String h1 (String h2 (String m1 (String m2 EmptyString)))) /\
    (sg = "+"%char \/ sg = "-"%char) /\
    is_digit h1 = true /\ is_digit h2 = true /\ is_digit m1 = true /\ is_digit m2 = true /\
    10 * digit_val h1 + digit_val h2 <= 23 /\ 10 * digit_val m1 + digit_val m2 <= 59 /\
    off = (if Ascii.eqb sg "-" then -1 else 1) *
          (60 * (60 * (10 * digit_val h1 + digit_val h2) + (10 * digit_val m1 + digit_val m2))).

(** * The round-trip domain of the property: instants of the years 1000 .. 9999 *)
Definition ms_year_1000 : Z := -30610224000000.   (* 1000-01-01T00:00:00.000Z *)
Definition ms_year_10000 : Z := 253402300800000.  (* 10000-01-01T00:00:00.000Z *)
Definition in_roundtrip_domain (ms : Z) : Prop := ms_year_1000 <= ms < ms_year_10000.
