(* Spec/C12.v — declarative specification of lexical scoping, function signatures, partial
   application (property C12).  Definitions only; the theorems relating the executable model
   (Model/Value.v frames, Model/Eval.v lambda_args / partial_args / bind_params / eval / call) to
   these definitions are in Proofs/C12Proofs.v. *)
From JV Require Import Model.Value Model.Eval.
Local Open Scope nat_scope.
Local Open Scope list_scope.

(** ---- scoping: what a frame sees ---- *)

(** [visible w env x] : the binding of variable [x] seen from frame [env] in world [w]
    ([None] = unbound in every enclosing frame, [Some None] = bound to "no value") *)
Definition visible (w : world) (env : nat) (x : string) : option ovalue :=
  lookup_fuel (S (List.length (frames w))) (frames w) env x.

(** parents are older frames: the scope chain is well founded *)
Definition wf_frames (fs : list frame) : Prop :=
  forall i fr p, nth_error fs i = Some fr -> fparent fr = Some p -> p < i.
Definition wf_world (w : world) : Prop := wf_frames (frames w).

(** the frames visited by a lookup starting at [env] (the scope chain) *)
Fixpoint chain (fuel : nat) (fs : list frame) (env : nat) : list nat :=
  match fuel with
  | O => []
  | S f => match nth_error fs env with
           | None => []
           | Some fr => env :: match fparent fr with Some p => chain f fs p | None => [] end
           end
  end.

(** parameter binding: missing arguments are "no value", surplus arguments are ignored *)
Fixpoint param_vals (names : list string) (vals : list ovalue) : list (string * ovalue) :=
  match names with
  | [] => []
  | x :: r => match vals with
              | v :: vr => (x, v) :: param_vals r vr
              | [] => (x, None) :: param_vals r []
              end
  end.
Definition set_all (bs : list (string * ovalue)) (syms : list (string * ovalue)) :=
  fold_left (fun s b => assoc_set (fst b) (snd b) s) bs syms.

(** ---- signatures ---- *)

(** does the type mask of a parameter contain the bit [bit]? *)
Definition has_bit (p : param) (bit : N) : bool := negb (N.eqb (N.land (param_typ p) bit) 0).
Definition param_sub (p : param) : option (list param) := let '(Param _ _ s) := p in s.

(** [has_type p v] : value [v] is accepted by the type of parameter [p].
    x accepts everything; j = any JSON value (string, number, boolean, array, object — not
    null, not a function); n s b o f by kind; a accepts arrays, a<t> arrays all of whose members
    have type t; a union accepts what one of its letters accepts. *)
Fixpoint has_type (p : param) (v : value) {struct p} : bool :=
  let '(Param typ _ sub) := p in
  let has := fun (bit : N) => negb (N.eqb (N.land typ bit) 0) in
  if has PT_any then true else
  let j := has PT_json in
  match v with
  | VStr _ => j || has PT_string
  | VNum _ => j || has PT_number
  | VBool _ => j || has PT_bool
  | VFun _ => has PT_func
  | VArr l =>
      if j then true
      else if has PT_array then
             match sub with
             | None | Some [] => true
             | Some (sp :: _) => forallb (has_type sp) l
             end
           else false
  | VObj _ => j || has PT_object
  | VNull => false
  end.

(** nesting depth of array subtypes (the fuel the executable check needs) *)
Fixpoint param_depth (p : param) : nat :=
  let '(Param _ _ sub) := p in
  match sub with
  | Some (sp :: _) => S (param_depth sp)
  | _ => 0
  end.

(** `-` : when fewer arguments than parameters are supplied and the first parameter is
    contextable, the context item becomes the first argument *)
Definition first_contextable (params : list param) : bool :=
  match params with p :: _ => is_contextable p | [] => false end.
Definition subst_ctx (params : list param) (ctx : ovalue) (argv : list ovalue) : list ovalue :=
  if (List.length argv <? List.length params) && first_contextable params then ctx :: argv else argv.

(** `?` : trailing optional parameters without an argument receive "no value"; padding stops
    at the first non-optional parameter without an argument *)
Inductive padded : list param -> list ovalue -> list ovalue -> Prop :=
| padded_surplus l : padded [] l l
| padded_arg p ps a r r' : padded ps r r' -> padded (p :: ps) (a :: r) (a :: r')
| padded_opt p ps r' : is_optional p = true -> padded ps [] r' -> padded (p :: ps) [] (None :: r')
| padded_stop p ps : is_optional p = false -> padded (p :: ps) [] [].

(** `+` : the last parameter may be variadic *)
Definition last_variadic (params : list param) : bool :=
  match rev params with p :: _ => is_variadic p | [] => false end.

(** the number of (padded) arguments fits: every parameter has one, and there are no surplus
    arguments unless the last parameter is variadic *)
Definition count_fits (params : list param) (n : nat) : Prop :=
  List.length params <= n /\ (n <= List.length params \/ last_variadic params = true).

(** the parameter governing argument position [i] (0-based): surplus positions belong to the
    last parameter *)
Definition dflt_param : param := Param 0 OptNone None.
Definition arg_param (params : list param) (i : nat) : param := nth i params (last params dflt_param).

(** a value passed for a parameter of type exactly `a` is wrapped in an array if it is not one *)
Definition coerce (p : param) (a : value) : value :=
  if N.eqb (param_typ p) PT_array then VArr (arrayify (Some a)) else a.

(** [typed_from params i l l'] : every defined argument of [l] (positions i, i+1, ...) has the
    type of its parameter, [l'] being the arguments after array coercion; absent arguments are
    not checked *)
Inductive typed_from (params : list param) : nat -> list ovalue -> list ovalue -> Prop :=
| typed_nil i : typed_from params i [] []
| typed_absent i r r' : typed_from params (S i) r r' -> typed_from params i (None :: r) (None :: r')
| typed_arg i a r r' :
    has_type (arg_param params i) (coerce (arg_param params i) a) = true ->
    typed_from params (S i) r r' ->
    typed_from params i (Some a :: r) (Some (coerce (arg_param params i) a) :: r').

(** position [j] (0-based) holds the first defined argument that is ill typed *)
Definition ill_typed_at (params : list param) (l : list ovalue) (j : nat) : Prop :=
  (exists a, nth_error l j = Some (Some a) /\
             has_type (arg_param params j) (coerce (arg_param params j) a) = false) /\
  forall j' a', j' < j -> nth_error l j' = Some (Some a') ->
                has_type (arg_param params j') (coerce (arg_param params j') a') = true.

(** `+` : the arguments from the variadic parameter on are collected into one array *)
Definition vdenull (o : ovalue) : value := match o with Some x => x | None => VNull end.
Definition collect (params : list param) (l : list ovalue) : list ovalue :=
  if last_variadic params then
    firstn (List.length params - 1) l ++ [Some (VArr (map vdenull (skipn (List.length params - 1) l)))]
  else l.

(** [fits params ctx argv out] : the arguments [argv], supplied at a call whose function was
    defined with context item [ctx], fit the signature [params]; the body then sees [out] *)
Definition fits (params : list param) (ctx : ovalue) (argv out : list ovalue) : Prop :=
  exists args checked,
    padded params (subst_ctx params ctx argv) args /\
    count_fits params (List.length args) /\
    typed_from params 0 args checked /\
    out = collect params checked.

(** the two ways of not fitting *)
Definition count_misfit (params : list param) (ctx : ovalue) (argv : list ovalue) : Prop :=
  exists args, padded params (subst_ctx params ctx argv) args /\ ~ count_fits params (List.length args).
Definition type_misfit (params : list param) (ctx : ovalue) (argv : list ovalue) (i : nat) : Prop :=
  exists args j, padded params (subst_ctx params ctx argv) args /\ count_fits params (List.length args) /\
                 ill_typed_at params args j /\ i = S j.

(** ---- partial application ---- *)

(** [fill ev pargs argv] : the argument list of f(..?..) called with [argv]: placeholders
    are filled left to right (missing = "no value", surplus ignored), fixed arguments are
    evaluated by the definition-site evaluator [ev] *)
Fixpoint fill (ev : node -> ovalue) (pargs : list node) (argv : list ovalue) : list ovalue :=
  match pargs with
  | [] => []
  | a :: r =>
      if is_placeholder a then
        match argv with
        | v :: vr => v :: fill ev r vr
        | [] => None :: fill ev r []
        end
      else ev a :: fill ev r argv
  end.
