(* Spec/C11.v — declarative specification for property C11 (JSON texts are expressions that
   denote themselves).  Definitions only; the theorems are in Proofs/C11Proofs.v.

   Part 1: JSON string bodies (RFC 8259 section 7) as sequences of units, with their spelling
           [render] and the string they denote [denote].
   Part 2: JSON literals at the AST level: the nodes a JSON text parses to ([jliteral], with
           unique object keys [jkeys_unique]) and the value such a node denotes ([jvalue]).
   Part 3: [jtext]: the texts of JSON values (RFC 8259 section 2 ff.), parameterised by the
           denotation of number tokens. *)
From JV Require Import Base.Bytes Base.Utf8 Base.F64 Model.Ast Model.Value.
From Coq Require Import List ZArith Bool.
Import ListNotations.
Local Open Scope string_scope.
Local Open Scope list_scope.
Local Open Scope Z_scope.

(* ================================================================ Part 1: string bodies *)

(* one unit of a JSON string body *)
Inductive junit :=
| URaw (r : rune)              (* a character written as itself (its UTF-8 encoding) *)
| UEsc (c : ascii)             (* backslash + one of: quote, backslash, slash, b f n r t *)
| UHex (h : string)            (* backslash u XXXX : a BMP code point that is not a surrogate *)
| UPair (h1 h2 : string).      (* backslash u D8xx-DBxx backslash u DCxx-DFxx : an astral code point *)

(* four hexadecimal digits, either case; their value *)
Definition hex4 (h : string) (v : Z) : Prop := slen h = 4%nat /\ Z_of_hex h = Some v.

Definition is_high_surrogate (v : Z) : bool := (55296 <=? v) && (v <? 56320).   (* D800..DBFF *)
Definition is_low_surrogate (v : Z) : bool := (56320 <=? v) && (v <? 57344).    (* DC00..DFFF *)

(* the character denoted by the two-character escapes *)
Definition esc_char (c : ascii) : option Z :=
  let b := byte_of c in
  if b =? 34 then Some 34          (* quote *)
  else if b =? 92 then Some 92     (* backslash *)
  else if b =? 47 then Some 47     (* slash *)
  else if b =? 98 then Some 8      (* b: backspace *)
  else if b =? 102 then Some 12    (* f: form feed *)
  else if b =? 110 then Some 10    (* n: line feed *)
  else if b =? 114 then Some 13    (* r: carriage return *)
  else if b =? 116 then Some 9     (* t: tab *)
  else None.

(* the code point of a surrogate pair *)
Definition pair_code (v1 v2 : Z) : Z := 65536 + (v1 - 55296) * 1024 + (v2 - 56320).

(* the code point a unit denotes, when the unit is well formed *)
Definition unit_code (u : junit) (r : Z) : Prop :=
  match u with
  | URaw x => x = r /\ valid_rune x = true /\ 32 <= x /\ x <> 34 /\ x <> 92
  | UEsc c => esc_char c = Some r
  | UHex h => hex4 h r /\ is_high_surrogate r = false /\ is_low_surrogate r = false
  | UPair h1 h2 => exists v1 v2, hex4 h1 v1 /\ hex4 h2 v2 /\ is_high_surrogate v1 = true /\
                                 is_low_surrogate v2 = true /\ r = pair_code v1 v2
  end.

Definition backslash : string := String (ascii_of_Z 92) EmptyString.

(* the spelling of a unit inside the quotes *)
Definition render_unit (u : junit) : string :=
  match u with
  | URaw r => encode_rune r
  | UEsc c => backslash ++ String c EmptyString
  | UHex h => backslash ++ "u" ++ h
  | UPair h1 h2 => backslash ++ "u" ++ h1 ++ backslash ++ "u" ++ h2
  end.
Definition render (us : list junit) : string := sconcat (map render_unit us).

(* [jstring_body us cs]: the units us are well formed and denote the code points cs *)
Inductive jstring_body : list junit -> list Z -> Prop :=
| jb_nil : jstring_body [] []
| jb_cons u r us cs : unit_code u r -> jstring_body us cs -> jstring_body (u :: us) (r :: cs).

(* the string (UTF-8 bytes) denoted by a sequence of code points *)
Definition denote (cs : list Z) : string := string_of_runes cs.

(* ================================================================ Part 1b: number syntax *)

(* RFC 8259 section 6, without the leading minus (in JSONata the minus is a separate token, the
   unary negation):  int frac? exp?   with  int = 0 | [1-9][0-9]*,  frac = . [0-9]+,
   exp = [eE] [+-]? [0-9]+ *)
Definition is_digit_char (c : ascii) : bool := (48 <=? byte_of c) && (byte_of c <=? 57).
Fixpoint all_digits (s : string) : bool :=
  match s with EmptyString => true | String c r => is_digit_char c && all_digits r end.
Definition digits1 (s : string) : bool :=
  match s with EmptyString => false | _ => all_digits s end.
Definition jint (s : string) : bool :=
  match s with
  | EmptyString => false
  | String c r => if byte_of c =? 48 then (match r with EmptyString => true | _ => false end)
                  else (49 <=? byte_of c) && (byte_of c <=? 57) && all_digits r
  end.
Definition jfrac (s : string) : bool :=
  match s with
  | EmptyString => true
  | String c d => (byte_of c =? 46) && digits1 d
  end.
Definition jexp (s : string) : bool :=
  match s with
  | EmptyString => true
  | String c r =>
      ((byte_of c =? 101) || (byte_of c =? 69)) &&
      match r with
      | String sg d => if (byte_of sg =? 43) || (byte_of sg =? 45) then digits1 d else digits1 r
      | EmptyString => false
      end
  end.
(* the texts of (unsigned) JSON numbers *)
Inductive jnumber_text : string -> Prop :=
| jn_parts i f e : jint i = true -> jfrac f = true -> jexp e = true -> jnumber_text (i ++ f ++ e).

(* ================================================================ Part 2: literals at the AST *)

(* the nodes of JSON texts: scalars, arrays of literals, objects with string keys *)
Fixpoint jliteral (n : node) : bool :=
  match n with
  | NString _ | NNumber _ | NBoolean _ | NNull => true
  | NArray items => forallb jliteral items
  | NObject pairs =>
      forallb (fun kv : node * node =>
                 let '(k, v) := kv in
                 match k with NString _ => jliteral v | _ => false end) pairs
  | _ => false
  end.

Definition key_of (k : node) : string := match k with NString s => s | _ => "" end.

Fixpoint distinct (l : list string) : bool :=
  match l with [] => true | x :: r => negb (existsb (seqb x) r) && distinct r end.

(* object keys are unique, in every object of the literal *)
Fixpoint jkeys_unique (n : node) : bool :=
  match n with
  | NArray items => forallb jkeys_unique items
  | NObject pairs =>
      distinct (map (fun kv : node * node => key_of (fst kv)) pairs)
      && forallb (fun kv : node * node => let '(_, v) := kv in jkeys_unique v) pairs
  | _ => true
  end.

(* the value a literal denotes: arrays keep their items one by one (an inner array stays ONE
   item, a one-element array stays an array), objects map each key to its value *)
Fixpoint jvalue (n : node) : value :=
  match n with
  | NString s => VStr s
  | NNumber x => VNum x
  | NBoolean b => VBool b
  | NNull => VNull
  | NArray items => VArr (map jvalue items)
  | NObject pairs =>
      VObj (obj_of_list (map (fun kv : node * node => let '(k, v) := kv in (key_of k, jvalue v)) pairs))
  | _ => VNull
  end.

(* evaluation depth needed by the model evaluator (one unit per array level, two per object
   level: eval -> eval_object -> eval) *)
Fixpoint jfuel (n : node) : nat :=
  match n with
  | NArray items => S (fold_right (fun it m => Nat.max (jfuel it) m) O items)
  | NObject pairs =>
      S (S (fold_right (fun kv m => Nat.max (let '(_, v) := kv in jfuel v) m) O pairs))
  | _ => 1%nat
  end.

(* ================================================================ Part 3: JSON texts *)

Section JText.

(* the double denoted by a number token (RFC 8259 section 6: - int frac exp); a parameter here:
   the model obtains it from strconv.ParseFloat, whose model Base/Decimal.parse_float is
   validated separately *)
Variable jnumber : string -> f64 -> Prop.

Definition jws_char (c : ascii) : bool :=
  let b := byte_of c in (b =? 32) || (b =? 9) || (b =? 10) || (b =? 13).
Fixpoint jws (s : string) : bool :=
  match s with EmptyString => true | String c r => jws_char c && jws r end.

Definition dquote : string := String (ascii_of_Z 34) EmptyString.

Inductive jtext : value -> string -> Prop :=
| jt_null : jtext VNull "null"
| jt_true : jtext (VBool true) "true"
| jt_false : jtext (VBool false) "false"
| jt_number s x : jnumber s x -> jtext (VNum x) s
| jt_string us cs : jstring_body us cs -> jtext (VStr (denote cs)) (dquote ++ render us ++ dquote)
| jt_array vs ts body : jelems vs ts body -> jtext (VArr vs) ("[" ++ body ++ "]")
| jt_object kvs body : jmembers kvs body ->
    distinct (map fst kvs) = true ->
    jtext (VObj (obj_of_list kvs)) ("{" ++ body ++ "}")
| jt_ws v t w1 w2 : jtext v t -> jws w1 = true -> jws w2 = true -> jtext v (w1 ++ t ++ w2)
(* comma-separated element texts *)
with jelems : list value -> list string -> string -> Prop :=
| je_nil w : jws w = true -> jelems [] [] w
| je_one v t : jtext v t -> jelems [v] [t] t
| je_cons v t vs ts body : jtext v t -> jelems vs ts body -> vs <> [] ->
    jelems (v :: vs) (t :: ts) (t ++ "," ++ body)
(* comma-separated  key : value  members *)
with jmembers : list (string * value) -> string -> Prop :=
| jm_nil w : jws w = true -> jmembers [] w
| jm_one k tk v t : jtext (VStr k) tk -> jtext v t -> jmembers [(k, v)] (tk ++ ":" ++ t)
| jm_cons k tk v t kvs body : jtext (VStr k) tk -> jtext v t -> jmembers kvs body -> kvs <> [] ->
    jmembers ((k, v) :: kvs) (tk ++ ":" ++ t ++ "," ++ body).

End JText.
