(* Spec/C17.v — declarative specification for property C17 (regex literals and the regex
   functions agree with the regular-expression engine).  Definitions only; the theorems
   relating the executable model (Model/Eval.v match_chain / call_match_func / extract_matches /
   the "match", "contains", "split", "replace" branches of call_builtin, Model/LibString.v
   expand_replace_string) to these definitions are in Proofs/C17Proofs.v.

   The engine is an oracle: [ms : list (list (Z * Z))] is the answer of Go's
   regexp.FindAllStringSubmatchIndex(src, subject, -1): one list per match, element 0 the
   (start, end) byte offsets of the whole match, then one pair per capture group, (-1, -1) for a
   group that did not take part in the match. *)
From Coq Require Import List ZArith Bool String.
From JV Require Import Base.Bytes Base.F64 Model.Value Model.Builtins Model.LibCore Model.Eval.
From JV Require Import Model.LibString.
Import ListNotations.
Local Open Scope Z_scope.
Local Open Scope list_scope.

(** ** what the engine guarantees about its answer *)

(** a capture group of a match spanning [a, b): absent, or a span inside the match *)
Definition wf_group (a b : Z) (g : Z * Z) : Prop :=
  g = (-1, -1) \/ (a <= fst g /\ fst g <= snd g /\ snd g <= b).

(** matches from position [pos] on, in a subject of [len] bytes; [lo] is a strict lower bound
    of the next match's END.  Go's FindAll returns "successive non-overlapping matches"
    (start >= previous end) and ignores "empty matches abutting a preceding match", so the end
    offsets increase strictly from one match to the next (a non-empty match ends after its
    start >= previous end; an empty one lies strictly after the previous end). *)
Fixpoint wf_matches_from (len pos lo : Z) (ms : list (list (Z * Z))) : Prop :=
  match ms with
  | [] => True
  | m :: rest =>
      match m with
      | [] => False
      | (a, b) :: gs =>
          pos <= a /\ a <= b /\ b <= len /\ lo < b /\ Forall (wf_group a b) gs /\
          wf_matches_from len b b rest
      end
  end.

Definition wf_matches (s : string) (ms : list (list (Z * Z))) : Prop :=
  wf_matches_from (Z.of_nat (slen s)) 0 (-1) ms.

(** ** the data of a match *)
(** text of a capture group: "" when it did not participate *)
Definition group_text (s : string) (g : Z * Z) : string :=
  if fst g <? 0 then EmptyString else byte_slice s (fst g) (snd g).

Definition span_of (m : list (Z * Z)) : Z * Z := match m with sp :: _ => sp | [] => (0, 0) end.
Definition groups_of (m : list (Z * Z)) : list (Z * Z) := match m with _ :: gs => gs | [] => [] end.

(** the record jlib.callMatchFunc reads out of the match object of oracle match [m] *)
Definition mrec_of (s : string) (m : list (Z * Z)) : mrec :=
  mkM (byte_slice s (fst (span_of m)) (snd (span_of m))) (fst (span_of m)) (snd (span_of m))
      (map (group_text s) (groups_of m)).

(** extractMatches' limit: a limit in [0, length) keeps that many, anything else keeps all *)
Definition take_limit {A} (limit : Z) (l : list A) : list A :=
  if (0 <=? limit) && (limit <? Z.of_nat (List.length l)) then firstn (Z.to_nat limit) l else l.

(** the optional integer limit argument of $match / $split / $replace as converted by the
    signature machinery *)
Definition limit_of (o : carg) : option Z :=
  match o with AOpt (Some (AInt z)) => Some z | _ => None end.
Definition limit_or (o : carg) (dflt : Z) : Z :=
  match limit_of o with Some z => z | None => dflt end.

(** the object $match returns for a match (and that a replacement function receives) *)
Definition match_result (m : mrec) : value :=
  VObj (obj_of_list [("match", VStr (m_value m)); ("index", VNum (f_of_Z (m_start m)));
                     ("groups", VArr (map VStr (m_groups m)))]).

(** the match object produced by applying a regex literal / calling [next] *)
Definition chain_value (nm : string) (s : string) (ms : list (list (Z * Z))) : ovalue :=
  match ms with
  | [] => None
  | m :: rest =>
      Some (match_object (m_value (mrec_of s m)) (m_start (mrec_of s m)) (m_end (mrec_of s m))
                         (m_groups (mrec_of s m)) (match_chain "next" s rest))
  end.

(** ** $split: the texts between consecutive matches *)
Fixpoint between (s : string) (pos : Z) (spans : list (Z * Z)) : list string :=
  match spans with
  | [] => [byte_slice s pos (Z.of_nat (slen s))]
  | (a, b) :: rest => byte_slice s pos a :: between s b rest
  end.

(** ** $replace: forward definition  s[pos..a1) r1 s[b1..a2) r2 ... s[bk..) *)
Fixpoint replace_fwd (s : string) (pos : Z) (l : list ((Z * Z) * string)) : string :=
  match l with
  | [] => byte_slice s pos (Z.of_nat (slen s))
  | ((a, b), r) :: rest => (byte_slice s pos a ++ r ++ replace_fwd s b rest)%string
  end.

(** ** integers that survive the trip through float64 (start/end travel as JSON numbers in the
    match object).  Holds for every n < 2^53 (Proofs/C17Proofs.v int_exact_small). *)
Definition int_exact (n : Z) : Prop := forall z, 0 <= z <= n -> go_int (f_of_Z z) = z.

(** $split's limit: a limit below the number of parts keeps that many parts *)
Definition split_limit {A} (lim : option Z) (parts : list A) : list A :=
  match lim with
  | Some z => if z <? Z.of_nat (List.length parts) then firstn (Z.to_nat z) parts else parts
  | None => parts
  end.

(** ** the replacement template: which group does a digit run after a dollar sign name?
    [ds] is the run of digit runes after the dollar sign; its first [k] digits, read as a decimal
    number N (in Go's 64-bit int, LibString.num_prefix), name group N (1-based) of [gs] when
    0 <= N - 1 < length gs *)
Definition group_index (k : nat) (ds : list Z) : Z :=
  wrap_int (num_prefix (firstn k ds) - 1).
Definition names_group (gs : list string) (ds : list Z) (k : nat) : Prop :=
  0 <= group_index k ds < Z.of_nat (List.length gs).

(** the LONGEST prefix (k digits, k from [n] downwards) that names a group, and that group's text *)
Fixpoint longest_group (n : nat) (ds : list Z) (gs : list string) : option (string * nat) :=
  match n with
  | O => None
  | S n' =>
      if (0 <=? group_index n ds) && (group_index n ds <? Z.of_nat (List.length gs))
      then Some (nth (Z.to_nat (group_index n ds)) gs EmptyString, n)
      else longest_group n' ds gs
  end.

(** decimal value of a digit run (no wrap-around) *)
Definition dec_value (ds : list Z) : Z := fold_left (fun acc r => acc * 10 + (r - 48)) ds 0.
