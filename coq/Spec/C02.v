(* Spec/C02.v — declarative specification of predicates e[p] (property C02), at list-library
   level.  Definitions only; the theorems relating the executable model (Model/Eval.v
   filter_loop / predicate_loop, Model/Ops.v filter_copies) to these definitions are in
   Proofs/C02Proofs.v.

   A predicate is evaluated once per item; [rs] below is the list of the per-item results
   ([None] = no value), in item order. *)
From JV Require Import Model.Value.
Local Open Scope list_scope.

(** the position designated by a number: floor, as a Go int *)
Definition floor_pos (x : f64) : Z := go_int (ffloor x).

(** a negative position counts back from the end of a list of [len] items *)
Definition wrap (len : nat) (p : Z) : Z := if (p <? 0)%Z then (p + Z.of_nat len)%Z else p.

(** the list index designated by position [p] in a list of [len] items, if any *)
Definition pos_of (len : nat) (p : Z) : option nat :=
  let q := wrap len p in
  if (q <? 0)%Z then None else Some (Z.to_nat q).

(** e[p] for an integer position: the item at that position, or nothing *)
Definition select_at {A} (items : list A) (p : Z) : list A :=
  match pos_of (List.length items) p with
  | Some k => match nth_error items k with Some y => [y] | None => [] end
  | None => []
  end.

(** the positions listed by a predicate result that is a number or an array consisting only of
    numbers; [None] = the result is not positional (it is then cast to a boolean) *)
Definition num_of_value (v : value) : option f64 := match v with VNum x => Some x | _ => None end.
Fixpoint all_nums (l : list value) : option (list f64) :=
  match l with
  | [] => Some []
  | v :: r => match num_of_value v, all_nums r with
              | Some x, Some xs => Some (x :: xs)
              | _, _ => None
              end
  end.
Definition positions (r : ovalue) : option (list Z) :=
  match r with
  | Some (VNum x) => Some [floor_pos x]
  | Some (VArr l) => option_map (map floor_pos) (all_nums l)
  | _ => None
  end.

(** how many times the item at index [i] (of [len]) is kept, given its predicate result *)
Definition copies (len i : nat) (r : ovalue) : nat :=
  match positions r with
  | Some ps => count_occ Z.eq_dec (map (wrap len) ps) (Z.of_nat i)
  | None => if otruthy r then 1 else 0
  end.

(** the kept list: items in order, each repeated [copies] times ([i] = index of the first item) *)
Fixpoint filter_sem_from (len i : nat) (items : list value) (rs : list ovalue) : list value :=
  match items, rs with
  | x :: xs, r :: rs' => repeat x (copies len i r) ++ filter_sem_from len (S i) xs rs'
  | _, _ => []
  end.
Definition filter_sem (items : list value) (rs : list ovalue) : list value :=
  filter_sem_from (List.length items) 0 items rs.

(** boolean selection: the items whose result is true under JSONata boolean casting *)
Definition bool_sem (items : list value) (rs : list ovalue) : list value :=
  map fst (filter (fun xr => otruthy (snd xr)) (combine items rs)).

(** order-preserving sub-list *)
Inductive sublist {A} : list A -> list A -> Prop :=
| sub_nil : sublist [] []
| sub_skip x l1 l2 : sublist l1 l2 -> sublist l1 (x :: l2)
| sub_take x l1 l2 : sublist l1 l2 -> sublist (x :: l1) (x :: l2).

(** stacked predicates e[p1][p2]...: each filter (given by its effect on lists) applies to the
    survivors of the previous one; nothing kept = no value; a single survivor is the item itself *)
Fixpoint pred_sem (Fs : list (list value -> list value)) (cur : list value) : ovalue :=
  match Fs with
  | [] => Some (normalize_array cur)
  | F :: rest => match F cur with
                 | [] => None
                 | kept => pred_sem rest kept
                 end
  end.

(** the same without the early exit: the survivors of all filters, normalised *)
Definition normalize (l : list value) : ovalue :=
  match l with
  | [] => None
  | [x] => Some x
  | _ => Some (VArr l)
  end.
Definition pred_fold (Fs : list (list value -> list value)) (cur : list value) : ovalue :=
  normalize (fold_left (fun c F => F c) Fs cur).
