(* Spec/C04.v — declarative specification for property C04 (the parse is fixed by precedence,
   associativity and parentheses).  Definitions only; every theorem is in Proofs/C04Proofs.v.

   Part 1: the precedence rows as the property states them (a list of ten rows of token types,
           tightest first) and the function that RE-DERIVES rows from a table of binding powers
           (used to compare with the table generated from the running Go code).
   Part 2: the grouping specification, independent of binding-power numbers and of the Pratt
           loop: chains of opaque operands and operators, trees over chains, their yield, and
           the well-grouped predicate [wf_prec] with the (L)/(R) side conditions.
           [wf_unique] (C04Proofs) shows that [wf_prec] + yield determine the tree. *)
From JV Require Import Model.Lexer.
From Coq Require Import List ZArith Bool.
Import ListNotations.
Local Open Scope nat_scope.
Local Open Scope list_scope.

(* ================================================================ Part 1: the ten rows *)

(* "postfix ( ) and [ ] and then . bind tightest, then { } grouping, then * / %, then + - &,
   then the comparison operators together with in, the order-by ^( ) and the chain ~>, then and,
   then or, then ? :, with := loosest".  Inside a row the order is that of the token-type
   numbering (it carries no meaning). *)
Definition prec_rows : list (list tokentype) :=
  [ [typeBracketOpen; typeParenOpen];
    [typeDot];
    [typeBraceOpen];
    [typeMult; typeDiv; typeMod];
    [typePlus; typeMinus; typeConcat];
    [typeEqual; typeNotEqual; typeLess; typeLessEqual; typeGreater; typeGreaterEqual;
     typeApply; typeSort; typeIn];
    [typeAnd];
    [typeOr];
    [typeCondition];
    [typeAssign] ].

(* all token types, in the order of the Go iota (typeEOF = 0 ... typeIn = 41) *)
Definition token_types : list tokentype :=
  [typeEOF; typeError; typeString; typeNumber; typeBoolean; typeNull; typeName; typeNameEsc;
   typeVariable; typeRegex; typeBracketOpen; typeBracketClose; typeBraceOpen; typeBraceClose;
   typeParenOpen; typeParenClose; typeDot; typeComma; typeColon; typeSemicolon; typeCondition;
   typePlus; typeMinus; typeMult; typeDiv; typeMod; typePipe; typeEqual; typeNotEqual; typeLess;
   typeLessEqual; typeGreater; typeGreaterEqual; typeApply; typeSort; typeConcat; typeRange;
   typeAssign; typeDescendent; typeAnd; typeOr; typeIn].

(* row index (0 = tightest) of a token type in a list of rows *)
Fixpoint row_in (rows : list (list tokentype)) (t : tokentype) : option nat :=
  match rows with
  | [] => None
  | r :: rest => if existsb (tt_eqb t) r then Some O
                 else match row_in rest t with Some n => Some (S n) | None => None end
  end.
Definition row_of (t : tokentype) : option nat := row_in prec_rows t.

(* insertion of a binding power into a strictly decreasing list (duplicates dropped) *)
Fixpoint insert_desc (x : Z) (l : list Z) : list Z :=
  match l with
  | [] => [x]
  | y :: r => if (y <? x)%Z then x :: l else if (y =? x)%Z then l else y :: insert_desc x r
  end.
(* the distinct positive binding powers of a table, decreasing *)
Definition bp_levels (bps : list Z) : list Z :=
  fold_right (fun x acc => if (0 <? x)%Z then insert_desc x acc else acc) [] bps.
(* the token types whose binding power in the table (indexed by token-type number) is [x] *)
Definition types_with_bp (bps : list Z) (x : Z) : list tokentype :=
  filter (fun t => (nth (tt_num t) bps 0 =? x)%Z) token_types.
(* the rows a binding-power table induces: token types grouped by binding power, tightest
   (highest power) first *)
Definition rows_of_bps (bps : list Z) : list (list tokentype) :=
  map (types_with_bp bps) (bp_levels bps).

(* ================================================================ Part 2: grouping *)

Section Chains.

(* opaque operands (names, variables, literals, calls, parenthesised or bracketed units) *)
Variable atom : Type.
(* operators; an operator carries whatever is bracketed inside it (the arguments of a call
   [( )], a predicate [[ ]], the pairs of [{ }], the terms of [^( )], the middle of [? :]):
   those parts are units and do not take part in the grouping of the chain *)
Variable op : Type.

(* The two sides of an operator, as ranks (larger = tighter).
   [lside o]: how tightly [o] binds to what precedes it.
   [rside o]: [None] for a postfix operator (nothing follows inside the operator:
              [f(..)], [a[..]], [a{..}], [a^(..)]);
              [Some r] when a right operand follows, which extends over every following
              operator [q] with [lside q > r].  A left-grouping binary operator has
              [rside o = Some (lside o)]; the right-grouping [:=] has
              [rside o = Some (lside o - 1)]; the else-branch of [? :] has [Some 0]
              (it extends as far as possible). *)
Variable lside : op -> nat.
Variable rside : op -> option nat.

Inductive sym := SAtom (a : atom) | SOp (o : op).

Inductive tree :=
| Leaf (a : atom)
| Bin (o : op) (l r : tree)      (* o has a right operand *)
| Post (o : op) (l : tree).      (* o is postfix *)

Fixpoint yield (t : tree) : list sym :=
  match t with
  | Leaf a => [SAtom a]
  | Bin o l r => yield l ++ SOp o :: yield r
  | Post o l => yield l ++ [SOp o]
  end.

(* every operator p on the right spine of t keeps what follows it unless that binds more
   tightly than n:  rside p >= n.  A postfix operator closes the spine. *)
Fixpoint rspine_ge (n : nat) (t : tree) : Prop :=
  match t with
  | Leaf _ => True
  | Post _ _ => True
  | Bin p _ r => (match rside p with Some k => n <= k | None => False end) /\ rspine_ge n r
  end.

(* every operator q on the left spine of t binds to its left more tightly than n *)
Fixpoint lspine_gt (n : nat) (t : tree) : Prop :=
  match t with
  | Leaf _ => True
  | Bin q l _ => n < lside q /\ lspine_gt n l
  | Post q l => n < lside q /\ lspine_gt n l
  end.

(* the well-grouped trees: at every node with operator o,
   (L) every operator on the right spine of the left operand has rside >= lside o, and
   (R) every operator on the left spine of the right operand has lside > rside o;
   the shape of the node agrees with the kind of the operator *)
Fixpoint wf_prec (t : tree) : Prop :=
  match t with
  | Leaf _ => True
  | Bin o l r =>
      wf_prec l /\ wf_prec r /\ rspine_ge (lside o) l /\
      match rside o with Some k => lspine_gt k r | None => False end
  | Post o l => wf_prec l /\ rspine_ge (lside o) l /\ rside o = None
  end.

(* what may follow a complete operand parsed at level r: nothing, or an operator that does not
   bind more tightly than r *)
Definition stops (r : nat) (rest : list sym) : Prop :=
  match rest with SOp o :: _ => lside o <= r | _ => True end.

(* ---- the abstract Pratt loop (same recursion structure as jparse.parseExpression):
   an operand, then for as long as the next operator binds more tightly than r, apply it *)
Fixpoint pexpr (fuel : nat) (r : nat) (s : list sym) {struct fuel} : option (tree * list sym) :=
  match fuel with
  | O => None
  | S f =>
      match s with
      | SAtom a :: s' => ploop f r (Leaf a) s'
      | _ => None
      end
  end
with ploop (fuel : nat) (r : nat) (lhs : tree) (s : list sym) {struct fuel}
  : option (tree * list sym) :=
  match fuel with
  | O => None
  | S f =>
      match s with
      | SOp o :: s' =>
          if Nat.ltb r (lside o) then
            match rside o with
            | None => ploop f r (Post o lhs) s'
            | Some ro =>
                match pexpr f ro s' with
                | Some (rhs, s'') => ploop f r (Bin o lhs rhs) s''
                | None => None
                end
            end
          else Some (lhs, s)
      | _ => Some (lhs, s)
      end
  end.

(* the textbook reading for chains of left-grouping operators: the root is the LAST operator of
   minimal rank.  [climb_root t] is that statement for one node; [climb] for the whole tree. *)
Fixpoint ops_of (t : tree) : list op :=
  match t with
  | Leaf _ => []
  | Bin o l r => ops_of l ++ o :: ops_of r
  | Post o l => ops_of l ++ [o]
  end.
Definition climb_root (t : tree) : Prop :=
  match t with
  | Leaf _ => True
  | Bin o l r => Forall (fun p => lside o <= lside p) (ops_of l)
                 /\ Forall (fun q => lside o < lside q) (ops_of r)
  | Post o l => Forall (fun p => lside o <= lside p) (ops_of l)
  end.
Fixpoint climb (t : tree) : Prop :=
  match t with
  | Leaf _ => True
  | Bin o l r => climb_root t /\ climb l /\ climb r
  | Post o l => climb_root t /\ climb l
  end.

End Chains.

Arguments SAtom {atom op} a.
Arguments SOp {atom op} o.
Arguments Leaf {atom op} a.
Arguments Bin {atom op} o l r.
Arguments Post {atom op} o l.
