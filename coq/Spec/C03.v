(* Spec/C03.v — declarative specification of the JSONata operators (property C03): the
   operator x operand-kind x operand-kind table.  Definitions only; the theorems relating the
   executable model (Model/Eval.v: numeric_result, negation_result, comparison_result,
   boolean_result, range_result, and the NConcat/NConditional cases of eval) to this table are
   in Proofs/C03Proofs.v.

   Reading the table: [op_cell o (kind_of l) (kind_of r)] tells, from the KINDS of the two
   evaluated operands alone, what the operator yields:
     CUndefined  "no value"
     CFalse      the boolean false
     CError e    the evaluation error of kind e  (never a value)
     CValue      a value computed from the operand values; its shape per operator is
                 [value_shape] below, and the value itself is pinned down by the value-level
                 theorems of C03Proofs (C03_arith_value, C03_eq_struct, C03_range, ...).
   For the unary negation the (absent) left operand is ignored. *)
From JV Require Import Model.Value.
Local Open Scope list_scope.

Inductive kind :=
| KNumber | KString | KBoolean | KNull | KArray | KObject | KFunction | KMissing.

Definition kind_of (v : ovalue) : kind :=
  match v with
  | None => KMissing
  | Some VNull => KNull
  | Some (VBool _) => KBoolean
  | Some (VNum _) => KNumber
  | Some (VStr _) => KString
  | Some (VArr _) => KArray
  | Some (VObj _) => KObject
  | Some (VFun _) => KFunction
  end.

Inductive op :=
| ONum (o : numop)        (* + - * / % *)
| ONeg                    (* unary - *)
| OCmp (o : cmpop)        (* = != < <= > >= in *)
| OBool (o : boolop)      (* and or *)
| OConcat                 (* & *)
| ORange.                 (* [a..b] *)

Inductive cell :=
| CValue
| CUndefined
| CFalse
| CError (e : evalerr).

Definition is_ordering (o : cmpop) : bool :=
  match o with CmpLt | CmpLe | CmpGt | CmpGe => true | _ => false end.

(* the operand kinds an operator accepts (besides "missing") *)
Definition numberish (k : kind) : bool := match k with KNumber | KMissing => true | _ => false end.
Definition comparable (k : kind) : bool :=
  match k with KNumber | KString | KMissing => true | _ => false end.
Definition missing (k : kind) : bool := match k with KMissing => true | _ => false end.

(** The table. The left operand is checked before the right one. *)
Definition op_cell (o : op) (l r : kind) : cell :=
  match o with
  | ONum _ =>
      if negb (numberish l) then CError ErrNonNumberLHS
      else if negb (numberish r) then CError ErrNonNumberRHS
      else if missing l || missing r then CUndefined
      else CValue
  | ONeg =>
      if negb (numberish r) then CError ErrNonNumberRHS
      else if missing r then CUndefined
      else CValue
  | OCmp c =>
      if is_ordering c then
        if negb (comparable l) then CError ErrNonComparableLHS
        else if negb (comparable r) then CError ErrNonComparableRHS
        else if missing l || missing r then CFalse
        else match l, r with
             | KNumber, KNumber | KString, KString => CValue
             | _, _ => CError ErrTypeMismatch          (* number against string *)
             end
      else (* = != in : any kinds *)
        if missing l || missing r then CFalse else CValue
  | OBool _ => CValue          (* boolean cast of both operands; missing casts to false *)
  | OConcat => CValue          (* string forms; missing is the empty string *)
  | ORange =>
      (* a bound must be an integer-valued number: any other kind is the NonInteger error of
         its side; with a number present the outcome depends on its value (see [range_cell]) *)
      if negb (numberish l) then CError ErrNonIntegerLHS
      else match l, r with
           | KMissing, KMissing => CUndefined
           | KMissing, KNumber => CValue
           | KMissing, _ => CError ErrNonIntegerRHS
           | _, _ => CValue
           end
  end.

(** Finer table for the range operator: what matters about a bound is whether it is an
    integer-valued number, missing, or anything else (a non-integer number counts as
    "anything else", like a value of the wrong type). *)
Inductive rkind := RInt | RMissing | ROther.

Definition rkind_of (v : ovalue) : rkind :=
  match v with
  | None => RMissing
  | Some (VNum x) => if f_is_integer x then RInt else ROther
  | Some _ => ROther
  end.

Definition range_cell (l r : rkind) : cell :=
  match l, r with
  | ROther, _ => CError ErrNonIntegerLHS
  | _, ROther => CError ErrNonIntegerRHS
  | RMissing, _ | _, RMissing => CUndefined
  | RInt, RInt => CValue
  end.

(** Outcomes of an operator on evaluated operands: a value, "no value", or an error. *)
Definition outcome := (ovalue + err)%type.

Definition is_num_value (v : value) : bool := match v with VNum _ => true | _ => false end.

(** What a [CValue] cell may contain, per operator. *)
Definition value_shape (o : op) (r : outcome) : Prop :=
  match o with
  | ONum _ =>
      (* a FINITE number, or the error for an infinite / NaN result *)
      (exists x, is_finite x = true /\ r = inl (Some (VNum x)))
      \/ r = inr (EEval ErrNumberInf) \/ r = inr (EEval ErrNumberNaN)
  | ONeg => exists x, r = inl (Some (VNum x))
  | OCmp _ | OBool _ => exists b, r = inl (Some (VBool b))
  | OConcat =>
      (* a string; the only failure is the stringification error of a non-finite number *)
      (exists s, r = inl (Some (VStr s))) \/ (exists t, r = inr (ELib t))
  | ORange =>
      (* an array of numbers, nothing (b < a, or a missing bound), or one of the range errors *)
      (exists l, forallb is_num_value l = true /\ r = inl (Some (VArr l)))
      \/ r = inl None
      \/ r = inr (EEval ErrNonIntegerLHS) \/ r = inr (EEval ErrNonIntegerRHS)
      \/ r = inr (EEval ErrMaxRangeItems)
  end.

(** The range operator's [CValue] cell at (RInt, RInt): no NonInteger error any more. *)
Definition range_value_shape (r : outcome) : Prop :=
  (exists l, forallb is_num_value l = true /\ r = inl (Some (VArr l)))
  \/ r = inl None
  \/ r = inr (EEval ErrMaxRangeItems).

Definition in_cell (o : op) (c : cell) (r : outcome) : Prop :=
  match c with
  | CValue => value_shape o r
  | CUndefined => r = inl None
  | CFalse => r = inl (Some (VBool false))
  | CError e => r = inr (EEval e)
  end.

Definition in_range_cell (c : cell) (r : outcome) : Prop :=
  match c with
  | CValue => range_value_shape r
  | _ => in_cell ORange c r
  end.

(** An outcome "is a value" / "is an error": the third sentence of the property says the
    error cells are never values. *)
Definition is_value (r : outcome) : Prop := exists v, r = inl (Some v).
Definition is_error (r : outcome) : Prop := exists e, r = inr e.

(** The string form of an operand of & (jlib.String; missing = empty string): strings are
    taken as they are, functions are the empty string, numbers are rendered by [fmt], every
    other value by its JSON text [json]. *)
Definition string_form (fmt : f64 -> string) (json : value -> option string) (v : ovalue) : string :=
  match v with
  | None => ""
  | Some (VStr s) => s
  | Some (VFun _) => ""
  | Some (VNum x) => fmt x
  | Some x => match json x with Some s => s | None => "" end
  end.

(** Values on which = is plain (Leibniz) equality: no numbers, no functions. *)
Fixpoint plain (v : value) : bool :=
  let fix pl (l : list value) : bool :=
    match l with [] => true | x :: r => plain x && pl r end in
  let fix pm (m : list (string * value)) : bool :=
    match m with [] => true | (_, x) :: r => plain x && pm r end in
  match v with
  | VNum _ | VFun _ => false
  | VArr l => pl l
  | VObj m => pm m
  | _ => true
  end.

(** Values on which = is an equivalence: no NaN, no functions. *)
Fixpoint eq_domain (v : value) : bool :=
  let fix pl (l : list value) : bool :=
    match l with [] => true | x :: r => eq_domain x && pl r end in
  let fix pm (m : list (string * value)) : bool :=
    match m with [] => true | (_, x) :: r => eq_domain x && pm r end in
  match v with
  | VNum x => negb (is_nan x)
  | VFun _ => false
  | VArr l => pl l
  | VObj m => pm m
  | _ => true
  end.
