(* Spec/C14.v — declarative specification of object construction / grouping and of the object
   model shared by the object functions (property C14).  Definitions only; the theorems
   relating the executable model (Model/Value.v, Model/Eval.v, Model/LibCore.v) to these
   definitions are in Proofs/C14Proofs.v. *)
From Coq Require Import Sorted.
From JV Require Import Model.Value Model.Eval.
Local Open Scope nat_scope.
Local Open Scope list_scope.

(** ---- the object model ---- *)
Definition slt (a b : string) : Prop := sltb a b = true.

(** an object is well formed when its member names are strictly increasing (bytewise), hence
    pairwise distinct *)
Definition wf_obj (m : list (string * value)) : Prop := StronglySorted slt (map fst m).

(** no member is the JSON null *)
Definition is_null (v : value) : bool := match v with VNull => true | _ => false end.
Definition null_free (m : list (string * value)) : Prop :=
  forall k v, In (k, v) m -> is_null v = false.

(** [later_wins l k] : the value of the LAST pair of [l] whose name is [k] *)
Definition later_wins {A} (l : list (string * A)) (k : string) : option A := assoc_get k (rev l).

(** ---- grouping ---- *)
Section Grouping.
  (** the (pure) evaluator: value of node [k] on context item [it] *)
  Variable ev : node -> ovalue -> ovalue.
  (** the items of the sequence being grouped *)
  Variable items : list ovalue.

  (** does a key result denote the key string [s]? *)
  Definition is_key (o : ovalue) (s : string) : bool :=
    match o with Some (VStr s') => seqb s' s | _ => false end.
  Definition is_str (o : ovalue) : bool := match o with Some (VStr _) => true | _ => false end.

  (** the key strings a list of key results contributes, in order *)
  Definition key_strs (l : list ovalue) : list string :=
    flat_map (fun o => match o with Some (VStr s) => [s] | _ => [] end) l.

  Definition is_literal (k : node) : bool := match k with NString _ => true | _ => false end.

  (** the key strings produced by the key expression [k]: itself for a literal key, otherwise its
      values on the items *)
  Definition pair_keys (k : node) : list string :=
    match k with
    | NString s => [s]
    | _ => key_strs (map (ev k) items)
    end.
  Definition produces (k : node) (s : string) : Prop := In s (pair_keys k).

  (** the item indexes of the group [s] of key expression [k], increasing; a literal key has the
      empty index list, which stands for "the whole context" *)
  Definition pair_idxs (k : node) (s : string) : list nat :=
    match k with
    | NString _ => []
    | _ => filter (fun j => is_key (ev k (nth j items None)) s) (seq 0 (List.length items))
    end.

  (** the items of the group [s] of key expression [k], in order *)
  Definition group_of (k : node) (s : string) : list ovalue :=
    match k with
    | NString _ => items
    | _ => filter (fun it => is_key (ev k it) s) items
    end.

  (** the context a value expression is evaluated on: the array of the group's items (a missing
      item is a nil member) *)
  Definition denull (o : ovalue) : value := match o with Some x => x | None => VNull end.
  Definition group_arg (l : list ovalue) : ovalue := Some (VArr (map denull l)).

  (** all key strings of the pairs, in evaluation order *)
  Definition all_keys (ps : list (node * node)) : list string :=
    flat_map (fun p => pair_keys (fst p)) ps.

  (** error situations *)
  Definition illegal_key (ps : list (node * node)) : Prop :=
    exists k v it, In (k, v) ps /\ is_literal k = false /\ In it items /\ is_str (ev k it) = false.
  Definition duplicate_key (ps : list (node * node)) : Prop :=
    exists p1 p2 k1 v1 k2 v2 s,
      p1 <> p2 /\ nth_error ps p1 = Some (k1, v1) /\ nth_error ps p2 = Some (k2, v2) /\
      produces k1 s /\ produces k2 s.

  (** [groups_spec ps g] : [g] is the grouping table of the pairs [ps] *)
  Definition groups_spec (ps : list (node * node)) (g : groups_t) : Prop :=
    map fst g = nodup_str (all_keys ps) /\
    forall s p idxs,
      assoc_get s g = Some (p, idxs) <->
      exists k v, nth_error ps p = Some (k, v) /\ produces k s /\ idxs = pair_idxs k s.

  (** [object_spec ps m] : [m] is the object built from the pairs [ps] *)
  Definition object_spec (ps : list (node * node)) (m : list (string * value)) : Prop :=
    forall s x,
      assoc_get s m = Some x <->
      exists p k vn, nth_error ps p = Some (k, vn) /\ produces k s /\
                     ev vn (group_arg (group_of k s)) = Some x.
End Grouping.

(** the items an object constructor / grouping works on *)
Definition ctx_items (data : ovalue) : list ovalue :=
  match data with
  | Some (VArr l) => map Some l
  | _ => [data]
  end.

(** a sub-evaluator that always succeeds with [ev k it] and leaves the world alone *)
Definition pure_evn (evn : node -> ovalue -> M ovalue) (ev : node -> ovalue -> ovalue) : Prop :=
  forall k it w, evn k it w = Ok (ev k it) w.

(** a callback that always succeeds with [cb args] and leaves the world alone *)
Definition pure_apply (apply : callable -> list ovalue -> M ovalue)
           (cb : callable -> list ovalue -> ovalue) : Prop :=
  forall c args w, apply c args w = Ok (cb c args) w.
