(* Spec/C13.v — declarative specification for property C13 (order-by and $sort).
   Definitions only; the theorems relating the executable model (Model/Eval.v sort_info /
   sort_less / sorted_items, Model/LibCore.v merge_sort_fuel / stable_sort / lib_sort) to these
   definitions are in Proofs/SortFacts.v and Proofs/C13Proofs.v.

   Orders are boolean "less" functions [lt : A -> A -> bool].  Because the evaluator's
   comparison is only well behaved on the key tuples that buildSortInfo lets through (and on
   numbers other than NaN), "strict weak order" is relative to a domain predicate [P]. *)
From Coq Require Import List Bool Sorting.Permutation Sorting.Sorted.
From JV Require Import Model.Value.
Import ListNotations.
Local Open Scope nat_scope.
Local Open Scope list_scope.

Section Order.
  Context {A : Type}.
  Variable lt : A -> A -> bool.

  (** a and b are incomparable: neither is below the other *)
  Definition equiv (a b : A) : bool := negb (lt a b) && negb (lt b a).

  (** strict weak order on the elements satisfying [P]: irreflexive, transitive, and
      incomparability is transitive *)
  Record swo_on (P : A -> Prop) : Prop := {
    swo_irrefl : forall a, P a -> lt a a = false;
    swo_trans : forall a b c, P a -> P b -> P c -> lt a b = true -> lt b c = true -> lt a c = true;
    swo_equiv_trans : forall a b c, P a -> P b -> P c ->
                                    equiv a b = true -> equiv b c = true -> equiv a c = true
  }.
  Definition strict_weak_order : Prop := swo_on (fun _ => True).

  (** no later element is strictly below an earlier one *)
  Definition sorted_by (l : list A) : Prop := StronglySorted (fun a b => lt b a = false) l.

  (** stability: for every input element c, the elements equivalent to c appear in [r] exactly
      as they appear in [l] (same elements, same relative order) *)
  Definition stable_wrt (l r : list A) : Prop :=
    forall c, In c l -> filter (equiv c) r = filter (equiv c) l.

  (** r is a stable sorted rearrangement of l *)
  Definition stable_sorted_perm (l r : list A) : Prop :=
    Permutation r l /\ sorted_by r /\ stable_wrt l r.
End Order.

(** generic order constructions used to describe the key order *)
Definition flip_lt {A} (lt : A -> A -> bool) : A -> A -> bool := fun a b => lt b a.
(** absent ([None]) after everything present *)
Definition opt_last {A} (lt : A -> A -> bool) (x y : option A) : bool :=
  match x, y with
  | Some p, Some q => lt p q
  | Some _, None => true
  | None, _ => false
  end.
(** order on pairs/records by a projection *)
Definition on_key {A B} (key : A -> B) (lt : B -> B -> bool) : A -> A -> bool :=
  fun a b => lt (key a) (key b).

(** ---- the key order of  seq^(k1, ..., kn) ---- *)
(** numbers numerically, strings bytewise (= by code point for valid UTF-8); values of
    different kinds are never compared by a successful sort *)
Definition key_lt (p q : value) : bool :=
  match p, q with
  | VNum a, VNum b => fltb a b
  | VStr a, VStr b => sltb a b
  | _, _ => false
  end.
Definition dir_lt (d : sortdir) : value -> value -> bool :=
  match d with
  | SortDescending => flip_lt key_lt
  | _ => key_lt
  end.
(** one sort term: direction applied to present keys, absent keys last in every direction *)
Definition term_lt (d : sortdir) : ovalue -> ovalue -> bool := opt_last (dir_lt d).
(** lexicographic order of key tuples: the first term on which the tuples are not equivalent
    decides *)
Fixpoint lex_lt (ds : list sortdir) (ka kb : list ovalue) : bool :=
  match ds, ka, kb with
  | d :: ds', x :: ka', y :: kb' =>
      term_lt d x y || (negb (term_lt d y x) && lex_lt ds' ka' kb')
  | _, _, _ => false
  end.

(** ---- what buildSortInfo guarantees about the key tuples ---- *)
(** kind of a sort term: 1 = its present keys are numbers, 2 = strings (0 = never present) *)
Definition key_typed (k : nat) (v : ovalue) : Prop :=
  match v with
  | None => True
  | Some (VNum _) => k = 1
  | Some (VStr _) => k = 2
  | Some _ => False
  end.
Definition tuple_typed (kinds : list nat) (ks : list ovalue) : Prop := Forall2 key_typed kinds ks.
(** every item carries one key per term and every column is all-numbers-or-absent or
    all-strings-or-absent *)
Definition consistent {T} (terms : list T) (info : list (value * list ovalue)) : Prop :=
  exists kinds, List.length kinds = List.length terms /\
                Forall (fun p => tuple_typed kinds (snd p)) info.
(** no key is NaN (the evaluator never produces NaN as a value: ErrNumberNaN) *)
Definition key_not_nan (v : ovalue) : Prop :=
  match v with Some (VNum x) => is_nan x = false | _ => True end.
Definition keys_not_nan (info : list (value * list ovalue)) : Prop :=
  Forall (fun p => Forall key_not_nan (snd p)) info.

(** a key that can be sorted on / a column that mixes numbers and strings *)
Definition sortable_key (v : ovalue) : Prop :=
  match v with None | Some (VNum _) | Some (VStr _) => True | Some _ => False end.
Definition is_num_key (v : ovalue) : Prop := match v with Some (VNum _) => True | _ => False end.
Definition is_str_key (v : ovalue) : Prop := match v with Some (VStr _) => True | _ => False end.

(** ---- Go's merge / mergeSort as relations (jlib/array.go), for a total comparator
    [sw x y] = "x goes after y" ---- *)
Section MergeSpec.
  Context {A : Type}.
  Variable sw : A -> A -> bool.
  Inductive merged : list A -> list A -> list A -> Prop :=
  | merged_nil_r l : merged l [] l
  | merged_nil_l r : merged [] r r
  | merged_right x l y r t :
      sw x y = true -> merged (x :: l) r t -> merged (x :: l) (y :: r) (y :: t)
  | merged_left x l y r t :
      sw x y = false -> merged l (y :: r) t -> merged (x :: l) (y :: r) (x :: t).
  Inductive merge_sorted : list A -> list A -> Prop :=
  | ms_small l : List.length l < 2 -> merge_sorted l l
  | ms_split l a b t :
      2 <= List.length l ->
      merge_sorted (firstn (Nat.div (List.length l) 2) l) a ->
      merge_sorted (skipn (Nat.div (List.length l) 2) l) b ->
      merged a b t -> merge_sorted l t.
End MergeSpec.
