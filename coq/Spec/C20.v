(* Spec/C20.v — declarative vocabulary for property C20 (extensions: argument passing, typed
   failures, registry visibility) and for the process-level statements of C05 / C06.

   Definitions only.  The types ([gtype], [gparam], [carg], [value], [op], [binding], ...) are
   those of Model/Builtins.v and Model/Process.v; none of the model's FUNCTIONS is used here
   (no [conv_simple], [conv_arg], [pad_optionals], [conv_args], [prepare_call], [valid_shape],
   [valid_name], [reg_set], [reg_update], [proc_step]; only the constructors, the record
   projections, [is_opt] and [go_int] = Go's float64 -> int conversion).  The theorems relating
   the model to these definitions are in Proofs/C20Proofs.v and Proofs/ProcessProofs.v. *)
From JV Require Import Model.Process.
Local Open Scope nat_scope.
Local Open Scope list_scope.

(** * 1. Argument count *)

(* number of leading optional parameters *)
Fixpoint opt_run (ps : list gparam) : nat :=
  match ps with
  | p :: r => if is_opt p then S (opt_run r) else 0
  | [] => 0
  end.

(* the argument list after padding: the given arguments followed by one "missing" for each
   parameter beyond them that is optional, stopping at the first non-optional one *)
Definition pad_spec (params : list gparam) (argv : list ovalue) : list ovalue :=
  argv ++ repeat None (opt_run (skipn (List.length argv) params)).

(* the count fits: exactly the parameter count, or - for a variadic function, whose last
   parameter collects zero or more arguments - at least the parameter count minus one *)
Definition count_fits (variadic : bool) (nparams nargs : nat) : Prop :=
  if variadic then nparams - 1 <= nargs else nargs = nparams.

(** * 2. The conversion matrix (callable.go processGoCallableArg, documented in
      jsonata.go RegisterExts / jtypes) *)

(* a defined JSONata value against a plain Go parameter type *)
Inductive converts : gtype -> value -> carg -> Prop :=
| cv_iface v   : converts GIface v (AVal (Some v))          (* anything -> interface{} *)
| cv_value v   : converts GValue v (AVal (Some v))          (* anything -> reflect.Value *)
| cv_string s  : converts GString (VStr s) (AStr s)         (* string -> string, and nothing else *)
| cv_bytes s   : converts GBytes (VStr s) AOther            (* string -> []byte *)
| cv_float x   : converts GFloat (VNum x) (AFloat x)        (* number -> any numeric kind *)
| cv_int x     : converts GInt (VNum x) (AInt (go_int x))
| cv_int64 x   : converts GInt64 (VNum x) (AInt (go_int x))
| cv_uint8 x   : converts GUint8 (VNum x) AOther
| cv_bool b    : converts GBool (VBool b) (ABool b)
| cv_fun c     : converts GCallable (VFun c) (AFun c)
| cv_slice l   : converts GSliceIface (VArr l) AOther
| cv_map m     : converts GMapIface (VObj m) AOther.

(* an argument (possibly missing) against a parameter descriptor *)
Inductive arg_converts : gparam -> ovalue -> carg -> Prop :=
| ac_missing_opt t : arg_converts (GOpt t) None (AOpt None)             (* Optional*: left unset *)
| ac_missing_iface : arg_converts (GP GIface) None (AVal None)          (* nil *)
| ac_missing_value : arg_converts (GP GValue) None (AVal None)          (* zero reflect.Value *)
| ac_plain t v c : converts t v c -> arg_converts (GP t) (Some v) c
| ac_opt t v c : converts t v c -> arg_converts (GOpt t) (Some v) (AOpt (Some c))
| ac_variant before t after v c :                                       (* first valid type wins *)
    (forall t', In t' before -> forall c', ~ converts t' v c') ->
    converts t v c ->
    arg_converts (GVariant (before ++ t :: after)) (Some v) c.

(** * 3. Argument types: which parameter an argument position is checked against *)

Definition last_param (params : list gparam) : option gparam :=
  nth_error params (List.length params - 1).

(* position j (0-based): the j-th parameter, or the last one for the surplus arguments of a
   variadic call *)
Definition param_for (params : list gparam) (j : nat) : option gparam :=
  match nth_error params j with
  | Some p => Some p
  | None => last_param params
  end.

Definition arg_ok (params : list gparam) (j : nat) (a : ovalue) : Prop :=
  exists p c, param_for params j = Some p /\ arg_converts p a c.

(* every argument converts, [cs] are the converted arguments in order *)
Definition converts_all (params : list gparam) (argv : list ovalue) (cs : list carg) : Prop :=
  List.length cs = List.length argv /\
  forall j a, nth_error argv j = Some a ->
    exists p c, param_for params j = Some p /\ arg_converts p a c /\ nth_error cs j = Some c.

(* j is the 0-based position of the first argument that does not convert *)
Definition first_bad (params : list gparam) (argv : list ovalue) (j : nat) : Prop :=
  (exists a, nth_error argv j = Some a /\ ~ arg_ok params j a) /\
  (forall j' a, j' < j -> nth_error argv j' = Some a -> arg_ok params j' a).

(** * 4. Registration-time validation *)

Definition shape_ok (s : ext_shape) : Prop :=
  (* one result, or two with the second an error *)
  (es_nout s = 1 \/ (es_nout s = 2 /\ es_second_is_error s = true)) /\
  (* no non-optional parameter after an optional one *)
  (forall i j p q, i < j -> nth_error (es_params s) i = Some p -> nth_error (es_params s) j = Some q ->
                   is_opt p = true -> is_opt q = true) /\
  (* the variadic parameter is not optional *)
  (es_variadic s = true -> forall p, last_param (es_params s) = Some p -> is_opt p = false) /\
  (* a variant has at least two valid types *)
  (forall ts, In (GVariant ts) (es_params s) -> 2 <= List.length ts).

(* validName, ASCII part: [A-Za-z0-9_]+ *)
Definition word_char (c : ascii) : Prop :=
  let b := byte_of c in
  (97 <= b <= 122 \/ 65 <= b <= 90 \/ 48 <= b <= 57 \/ b = 95)%Z.
Definition name_ok (s : string) : Prop :=
  s <> EmptyString /\ Forall word_char (list_of_string s).

(** * 5. Registry visibility over histories *)

(* the binding of [name] in a sequence of registrations: the LAST one wins *)
Fixpoint last_binding (name : string) (vals : list (string * binding)) : option binding :=
  match vals with
  | [] => None
  | (n, b) :: r =>
      match last_binding name r with
      | Some x => Some x
      | None => if seqb n name then Some b else None
      end
  end.

(* the values a step registers at package level / on expression e (rejected registrations
   register nothing) *)
Definition global_vals (o : op) : list (string * binding) :=
  match o with OpRegisterGlobal vals true => vals | _ => [] end.
Definition own_vals (e : nat) (o : op) : list (string * binding) :=
  match o with
  | OpRegisterExpr e' vals true => if Nat.eqb e' e then vals else []
  | _ => []
  end.
Definition globals (ops : list op) : list (string * binding) := List.concat (map global_vals ops).
Definition owns (e : nat) (ops : list op) : list (string * binding) := List.concat (map (own_vals e) ops).

Definition is_compile (o : op) : bool := match o with OpCompile _ => true | _ => false end.
Definition is_resolve (o : op) : bool := match o with OpResolve _ _ => true | _ => false end.
Definition ncompiles (ops : list op) : nat := List.length (filter is_compile ops).

(* [created_at ops e k src]: in a history that starts in the initial process state, step k is
   the Compile that creates expression number e (the (e+1)-th Compile), of source [src] *)
Definition created_at (ops : list op) (e k src : nat) : Prop :=
  nth_error ops k = Some (OpCompile src) /\ ncompiles (firstn k ops) = e.

(* what a lookup of $name in an evaluation of expression e resolves to, given the package-level
   registrations G visible to e and e's own registrations *)
Definition visible (is_builtin : string -> bool) (G own : list (string * binding)) (name : string)
  : resolution :=
  match last_binding name own with
  | Some b => RRegistered b
  | None =>
      match last_binding name G with
      | Some b => RRegistered b
      | None => if seqb name "millis" || seqb name "now" then RTime
                else if is_builtin name then RBuiltin else RUnbound
      end
  end.

(** * 6. Executions of several threads (C06) *)

(* a step of an execution: which thread, which operation *)
Definition tstep := (nat * op)%type.

(* [interleaving ts l]: l is an execution of the threads ts (thread i runs the operations
   [nth i ts []] in program order): repeatedly some thread performs its next operation *)
Inductive interleaving : list (list op) -> list tstep -> Prop :=
| il_done ts : Forall (fun t => t = []) ts -> interleaving ts []
| il_step ts i o rest ts' l :
    nth_error ts i = Some (o :: rest) ->
    ts' = firstn i ts ++ rest :: skipn (S i) ts ->
    interleaving ts' l ->
    interleaving ts ((i, o) :: l).

(* the operations of thread i in an execution, in order *)
Definition thread_proj (i : nat) (l : list tstep) : list op :=
  map snd (filter (fun s => Nat.eqb (fst s) i) l).

(* the step is a successful registration on expression e *)
Definition registers_on (e : nat) (o : op) : Prop :=
  exists vals, o = OpRegisterExpr e vals true.
