(* Spec/C01.v — declarative specification of path evaluation (property C01), at list-library
   level.  Definitions only; the theorems relating the executable model (Model/Ops.v name_lookup,
   wildcard_items, descendants, collapse; Model/Eval.v path_step, path_loop, path_start) to these
   definitions are in Proofs/C01Proofs.v. *)
From JV Require Import Model.Value.
Local Open Scope list_scope.

(** the items a value contributes: the members of an array, the value itself otherwise *)
Definition items (v : value) : list value := match v with VArr l => l | _ => [v] end.
Definition is_arr (v : value) : bool := match v with VArr _ => true | _ => false end.

(** ** Field selection *)
(** [lookup k v]: the member named [k] of an object; for an array the concatenation, in order, of
    the lookups over its members (recursively: arrays nested to any depth flatten); nothing for
    other values.  The result is a *sequence* when [v] is an array and a *plain value* (the
    member, or absent) otherwise — see [lookup_value]. *)
Fixpoint lookup (k : string) (v : value) : list value :=
  match v with
  | VObj m => match assoc_get k m with Some y => [y] | None => [] end
  | VArr l => flat_map (lookup k) l
  | _ => []
  end.

(** sequence normalisation: no item = no value; one item = the item itself, unless the
    keep-array marker is set; otherwise the array of the items *)
Definition collapse' (keep : bool) (its : list value) : ovalue :=
  match List.length its with
  | O => None
  | S O => if keep then Some (VArr its) else hd_error its
  | _ => Some (VArr its)
  end.

(** the value of the expression [k] on context [v] *)
Definition lookup_value (k : string) (v : value) : ovalue :=
  if is_arr v then collapse' false (lookup k v) else hd_error (lookup k v).

(** ** Wildcard: all member values, array values flattened (to any depth) *)
Fixpoint flat (v : value) : list value :=
  match v with
  | VArr l => flat_map flat l
  | _ => [v]
  end.
Definition members (v : value) : list value :=
  match v with
  | VArr l => l
  | VObj m => map snd m
  | _ => []
  end.
Definition wild (v : value) : list value := flat_map flat (members v).

(** ** Descendants: the context and everything below it, pre-order (document order), an array
    being represented by its members *)
Fixpoint desc (v : value) : list value :=
  match v with
  | VArr l => flat_map desc l
  | VObj m => v :: flat_map (fun kv => desc (snd kv)) m
  | _ => [v]
  end.

(** reachability: [v] itself, and everything reachable from a member of [v] *)
Inductive reach : value -> value -> Prop :=
| reach_refl v : reach v v
| reach_member v c u : In c (members v) -> reach c u -> reach v u.

(** ** Paths *)
(** [sem st c] is the value of step [st] on context item [c] ([None] = no value).
    What one step contributes for one context item: nothing when absent; the members of an
    array value; the value as a unit otherwise, or when the step is an array constructor. *)
Definition is_cons (st : node) : bool := match st with NArray _ => true | _ => false end.

Definition contribution (cons : bool) (r : ovalue) : list value :=
  match r with
  | None => []
  | Some v => if cons then [v] else items v
  end.

Definition step_results (sem : node -> ovalue -> ovalue) (st : node) (c : ovalue) : list value :=
  contribution (is_cons st) (sem st c).

(** the running item list after the steps [steps], starting from [init] *)
Definition path_items (sem : node -> ovalue -> ovalue) (steps : list node) (init : list ovalue)
  : list ovalue :=
  fold_left (fun its st => map Some (flat_map (step_results sem st) its)) steps init.

(** where a path starts: anchored at the whole input when the head is a variable ($, $$, $v,
    possibly with predicates); otherwise at the members of an array input / the input itself *)
Definition anchored (steps : list node) : bool :=
  match steps with
  | NVariable _ :: _ => true
  | NPredicate (NVariable _) _ :: _ => true
  | _ => false
  end.
Definition init_items (steps : list node) (input : ovalue) : list ovalue :=
  if anchored steps then [input]
  else match input with
       | Some (VArr l) => map Some l
       | _ => [input]
       end.

Definition defined (l : list ovalue) : list value :=
  flat_map (fun o => match o with Some x => [x] | None => [] end) l.

(** the value produced by the last step from the (present) results of its evaluations: the
    documented shortcut — exactly one result and it is an array: that array as it stands (no
    value if it is empty) — and otherwise the normalised sequence of the contributions *)
Definition last_value (keep cons : bool) (results : list value) : ovalue :=
  match results with
  | [VArr []] => None
  | [VArr l] => Some (VArr l)
  | _ => collapse' keep (flat_map (fun v => contribution cons (Some v)) results)
  end.

(** the value of the path [ss] (non-empty) evaluated from the context items [ctx] *)
Fixpoint path_sem (sem : node -> ovalue -> ovalue) (keep : bool) (ss : list node) (ctx : list ovalue)
  : ovalue :=
  match ss with
  | [] => None
  | [st] => last_value keep (is_cons st) (defined (map (sem st) ctx))
  | st :: rest => path_sem sem keep rest (map Some (flat_map (step_results sem st) ctx))
  end.

(** a head step that is an array constructor is evaluated once, on the array of all context
    items (an absent input counting as null), and its members become the running items *)
Definition head_cons_sem (sem : node -> ovalue -> ovalue) (keep : bool) (st : node) (rest : list node)
           (ctx : list ovalue) : ovalue :=
  let whole := Some (VArr (map (fun o => match o with Some x => x | None => VNull end) ctx)) in
  match sem st whole with
  | None => None
  | Some v =>
      match items v with
      | [] => None
      | its => match rest with
               | [] => Some (VArr its)
               | _ => path_sem sem keep rest (map Some its)
               end
      end
  end.

(** the semantic function of the steps whose value does not depend on the evaluator state:
    field names, * and ** and $ *)
Definition simple_step (st : node) : bool :=
  match st with
  | NName _ _ | NWildcard | NDescendent => true
  | NVariable name => seqb name ""
  | _ => false
  end.
Definition simple_sem (st : node) (c : ovalue) : ovalue :=
  match st, c with
  | NVariable _, _ => c
  | NName k _, Some v => lookup_value k v
  | NWildcard, Some v => collapse' false (wild v)
  | NDescendent, Some v => collapse' false (desc v)
  | _, _ => None
  end.
