(* Spec/C07.v — declarative vocabulary for property C07 (inputs are never modified; transform
   returns a modified copy).  Definitions only; theorems in Proofs/C07Proofs.v.

   In the model a transform `| pattern | update, delete |` works on a copy of its argument
   (Model/Eval.v, CTransform case of [call]): functions are replaced by "" ([defunc], the clone
   goes through JSON), every object of the copy is tagged with a distinct number under a
   reserved key ([tag_ids]), the pattern is evaluated on the tagged copy, the selected objects are
   located again by their tag ([find_by_id]) and rewritten in place ([update_by_id]), and the
   tags are removed from the result ([strip_ids]). *)
From Coq Require Import List ZArith Bool String.
From JV Require Import Base.Bytes Base.F64 Model.Value Model.Builtins Model.LibCore Model.Eval.
Import ListNotations.
Local Open Scope nat_scope.
Local Open Scope list_scope.

(** the value does not use the reserved key anywhere (true of every JSON document a caller can
    write down: the key starts with the byte 0x01) *)
Fixpoint no_reservedb (v : value) : bool :=
  let fix nl (l : list value) : bool :=
    match l with [] => true | x :: r => no_reservedb x && nl r end in
  let fix nm (m : list (string * value)) : bool :=
    match m with
    | [] => true
    | (k, x) :: r => negb (seqb k reserved_id_key) && no_reservedb x && nm r
    end in
  match v with
  | VArr l => nl l
  | VObj m => nm m
  | _ => true
  end.
Definition no_reserved (v : value) : Prop := no_reservedb v = true.

(** the value contains no function (so cloning through JSON is the identity on it) *)
Fixpoint no_funcsb (v : value) : bool :=
  let fix nl (l : list value) : bool :=
    match l with [] => true | x :: r => no_funcsb x && nl r end in
  let fix nm (m : list (string * value)) : bool :=
    match m with [] => true | (_, x) :: r => no_funcsb x && nm r end in
  match v with
  | VArr l => nl l
  | VObj m => nm m
  | VFun _ => false
  | _ => true
  end.
Definition no_funcs (v : value) : Prop := no_funcsb v = true.

(** the tags carried by the objects of a value, in pre-order *)
Fixpoint obj_ids (v : value) : list f64 :=
  let fix il (l : list value) : list f64 :=
    match l with [] => [] | x :: r => obj_ids x ++ il r end in
  let fix im (m : list (string * value)) : list f64 :=
    match m with [] => [] | (_, x) :: r => obj_ids x ++ im r end in
  match v with
  | VArr l => il l
  | VObj m => match obj_id m with Some x => [x] | None => [] end ++ im m
  | _ => []
  end.

(** how many objects of [v] carry tag [id] (tags are compared as Go compares float64) *)
Definition count_id (id : f64) (v : value) : nat :=
  List.length (filter (fun x => feqb x id) (obj_ids v)).

(** [v'] is [v] with exactly one object changed: the object carrying [id], whose member list
    became [f] of itself; every other node is identical *)
Inductive changed_one (id : f64) (f : list (string * value) -> list (string * value))
  : value -> value -> Prop :=
| co_here m x :
    obj_id m = Some x -> feqb x id = true -> changed_one id f (VObj m) (VObj (f m))
| co_arr l1 x x' l2 :
    changed_one id f x x' -> changed_one id f (VArr (l1 ++ x :: l2)) (VArr (l1 ++ x' :: l2))
| co_obj m1 k x x' m2 :
    changed_one id f x x' ->
    (match obj_id (m1 ++ (k, x) :: m2) with Some y => feqb y id = false | None => True end) ->
    changed_one id f (VObj (m1 ++ (k, x) :: m2)) (VObj (m1 ++ (k, x') :: m2)).

Definition is_object (v : value) : bool := match v with VObj _ => true | _ => false end.
