(* Spec/C16.v — declarative specification of the JSONata string functions over lists of Unicode
   code points (property C16).  Definitions only; the theorems relating the executable model
   (Model/LibString.v, written on bytes) to these definitions are in Proofs/LibStringProofs.v.

   [cps s] is the code-point sequence of a string; for valid UTF-8 it determines s
   (Utf8Proofs.encode_runes_inverse). *)
From JV Require Import Base.Bytes Base.Utf8.
Local Open Scope Z_scope.
Local Open Scope list_scope.

Definition cps (s : string) : list rune := runes s.

(** $length *)
Definition cp_length (l : list rune) : Z := Z.of_nat (List.length l).

(** $substring(s, start[, len]): a negative start counts from the end (and is clamped at the
    beginning), a missing len means "to the end", len <= 0 gives the empty string *)
Definition cp_substring (l : list rune) (start : Z) (len : option Z) : list rune :=
  let st := if start <? 0 then Z.max 0 (start + cp_length l) else start in
  let rest := skipn (Z.to_nat st) l in
  match len with
  | None => rest
  | Some k => firstn (Z.to_nat k) rest
  end.

(** $pad(s, width[, chars]): pad to |width| code points with the pad string cycled, on the right
    for width >= 0, on the left for width < 0; an absent or empty pad string means one space *)
Definition cp_cycle (p : list rune) (n : nat) : list rune := firstn n (List.concat (repeat p n)).
Definition cp_pad_chars (o : option (list rune)) : list rune :=
  match o with
  | Some (x :: t) => x :: t
  | _ => [32]
  end.
Definition cp_pad (l : list rune) (width : Z) (chars : option (list rune)) : list rune :=
  let n := Z.to_nat (Z.abs width - cp_length l) in
  let padding := cp_cycle (cp_pad_chars chars) n in
  if width <? 0 then padding ++ l else l ++ padding.

(** first occurrence of a (possibly empty) needle: Some (before, after) *)
Fixpoint cp_prefix (c l : list rune) : bool :=
  match c, l with
  | [], _ => true
  | x :: c', y :: l' => (x =? y) && cp_prefix c' l'
  | _ :: _, [] => false
  end.
Fixpoint cp_find (c l : list rune) : option (list rune * list rune) :=
  if cp_prefix c l then Some ([], skipn (List.length c) l)
  else match l with
       | [] => None
       | x :: t => match cp_find c t with
                   | Some (b, a) => Some (x :: b, a)
                   | None => None
                   end
       end.

(** $contains / $substringBefore / $substringAfter with a string pattern *)
Definition cp_contains (l c : list rune) : bool :=
  match cp_find c l with Some _ => true | None => false end.
Definition cp_before (l c : list rune) : list rune :=
  match cp_find c l with Some (b, _) => b | None => l end.
Definition cp_after (l c : list rune) : list rune :=
  match cp_find c l with Some (_, a) => a | None => l end.

(** $split with a string separator: exhaustive split at successive first occurrences; one piece
    per code point for the empty separator; the optional limit truncates the list of pieces *)
Inductive cp_split_all (c : list rune) : list rune -> list (list rune) -> Prop :=
| cp_split_last l : cp_find c l = None -> cp_split_all c l [l]
| cp_split_cons l b a ps :
    cp_find c l = Some (b, a) -> cp_split_all c a ps -> cp_split_all c l (b :: ps).
Definition cp_explode (l : list rune) : list (list rune) := map (fun r => [r]) l.
Definition cp_truncate {A} (limit : option Z) (ps : list A) : list A :=
  match limit with
  | Some k => firstn (Z.to_nat k) ps
  | None => ps
  end.
Definition cp_split (l c : list rune) (limit : option Z) (parts : list (list rune)) : Prop :=
  exists every : list (list rune),
    (c = [] -> every = cp_explode l) /\ (c <> [] -> cp_split_all c l every) /\
    parts = cp_truncate limit every.

(** $join *)
Fixpoint cp_join (parts : list (list rune)) (sep : list rune) : list rune :=
  match parts with
  | [] => []
  | [p] => p
  | p :: rest => p ++ sep ++ cp_join rest sep
  end.

(** $replace with a non-empty string pattern: left to right, non-overlapping, at most [n]
    replacements (n < 0: unbounded) *)
Inductive cp_replace (c r : list rune) : Z -> list rune -> list rune -> Prop :=
| cp_replace_stop l : cp_replace c r 0 l l
| cp_replace_none n l : n <> 0 -> cp_find c l = None -> cp_replace c r n l l
| cp_replace_step n l b a out :
    n <> 0 -> cp_find c l = Some (b, a) -> cp_replace c r (n - 1) a out ->
    cp_replace c r n l (b ++ r ++ out).

(** $trim: runs of [\t\n\f\r ] collapse to one space, then Unicode White_Space is stripped from
    both ends *)
Definition cp_re_space (r : rune) : bool :=
  (r =? 9) || (r =? 10) || (r =? 12) || (r =? 13) || (r =? 32).
Fixpoint cp_collapse (l : list rune) (inrun : bool) : list rune :=
  match l with
  | [] => []
  | r :: t => if cp_re_space r
              then (if inrun then cp_collapse t true else 32 :: cp_collapse t true)
              else r :: cp_collapse t false
  end.
Definition cp_white_space (r : rune) : bool :=
  ((9 <=? r) && (r <=? 13)) || (r =? 32) || (r =? 133) || (r =? 160) || (r =? 5760)
  || ((8192 <=? r) && (r <=? 8202)) || (r =? 8232) || (r =? 8233) || (r =? 8239)
  || (r =? 8287) || (r =? 12288).
Fixpoint cp_drop_while (p : rune -> bool) (l : list rune) : list rune :=
  match l with
  | [] => []
  | r :: t => if p r then cp_drop_while p t else l
  end.
Definition cp_strip (l : list rune) : list rune :=
  rev (cp_drop_while cp_white_space (rev (cp_drop_while cp_white_space l))).
Definition cp_trim (l : list rune) : list rune := cp_strip (cp_collapse l false).

(** $uppercase / $lowercase: the code points mapped one by one through the Unicode simple case
    mapping (unicode.ToUpper / unicode.ToLower, a parameter here) *)
Definition cp_map_case (f : rune -> rune) (l : list rune) : list rune := map f l.
