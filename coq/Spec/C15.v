(* Spec/C15.v — declarative specification for property C15 (array, higher-order and aggregate
   functions): the standard list library.  Definitions only; the theorems relating
   Model/LibCore.v to these definitions are in Proofs/C15Proofs.v. *)
From Coq Require Import List Bool Arith Sorting.Permutation.
From JV Require Import Model.Value.
Import ListNotations.
Local Open Scope nat_scope.
Local Open Scope list_scope.

(** a non-array argument counts as a one-member array, "no value" as the empty one: this is
    [arrayify] of Model/Value.v *)
Definition as_array (v : ovalue) : list value := arrayify v.

(** ---- higher-order functions ---- *)
(** the arguments handed to the function for member x at index i of the array [whole]:
    (value, index, whole array) trimmed to the function's arity, at least one, at most three *)
Definition arg_count (arity : nat) : nat := Nat.max 1 (Nat.min 3 arity).
Definition call_args (arity : nat) (x : value) (i : nat) (whole : list value) : list ovalue :=
  firstn (arg_count arity) [Some x; Some (VNum (f_of_nat i)); Some (VArr whole)].

(** members paired with their indices, from [start] *)
Definition indexed_from {A} (start : nat) (l : list A) : list (A * nat) :=
  combine l (seq start (List.length l)).
Definition indexed {A} (l : list A) : list (A * nat) := indexed_from 0 l.

(** $map: the results that are present, in order *)
Definition present (ys : list ovalue) : list value :=
  flat_map (fun o => match o with Some v => [v] | None => [] end) ys.
(** $filter / $single: the members whose result is truthy, in order *)
Definition selected (l : list value) (ys : list ovalue) : list value :=
  map fst (filter (fun p : value * ovalue => otruthy (snd p)) (combine l ys)).

(** $reduce: a left fold threading the world; [fold_steps f acc l w r w'] = folding [f] over [l]
    from [acc] in world [w] ends with [r] in world [w'] *)
Inductive fold_steps {A B} (f : B -> A -> M B) : B -> list A -> world -> B -> world -> Prop :=
| fold_steps_nil acc w : fold_steps f acc [] w acc w
| fold_steps_cons acc x r w acc1 w1 res w2 :
    f acc x w = Ok acc1 w1 -> fold_steps f acc1 r w1 res w2 ->
    fold_steps f acc (x :: r) w res w2.
(** seed and remaining members: the optional initial value, else the first member *)
Definition reduce_seed (init : option ovalue) (l : list value) : ovalue * list value :=
  match init with
  | Some i => (i, l)
  | None => match l with x :: r => (Some x, r) | [] => (None, []) end
  end.

(** ---- $zip ---- *)
(** row i holds member i of every argument; as many rows as the shortest argument has *)
Definition zip_spec (cols : list (list value)) (rows : list value) : Prop :=
  (forall c, In c cols -> List.length rows <= List.length c) /\
  (exists c, In c cols /\ List.length rows = List.length c) /\
  (forall i, i < List.length rows ->
             nth i rows VNull = VArr (map (fun c => nth i c VNull) cols)).

(** ---- $distinct ---- *)
(** a member is kept iff no earlier member is equal to it: the first occurrences, in order
    ([earlier] = all the members already passed, kept or not) *)
Fixpoint keep_first_from (earlier : list value) (l : list value) : list value :=
  match l with
  | [] => []
  | x :: r => if existsb (value_eqb x) earlier then keep_first_from (x :: earlier) r
              else x :: keep_first_from (x :: earlier) r
  end.
Definition keep_first (l : list value) : list value := keep_first_from [] l.
(** r is l with some members removed, order kept *)
Inductive subseq {A} : list A -> list A -> Prop :=
| subseq_nil : subseq [] []
| subseq_keep x r l : subseq r l -> subseq (x :: r) (x :: l)
| subseq_drop x r l : subseq r l -> subseq r (x :: l).
(** no member equals an earlier one *)
Inductive distinct_list : list value -> Prop :=
| distinct_nil : distinct_list []
| distinct_cons x l :
    (forall y, In y l -> value_eqb y x = false) -> distinct_list l -> distinct_list (x :: l).

(** ---- aggregates ---- *)
(** left-to-right IEEE sum from +0 *)
Definition fsum (xs : list f64) : f64 := fold_left fadd xs fzero.
Definition fmean (xs : list f64) : f64 := fdiv (fsum xs) (f_of_nat (List.length xs)).
(** m is a greatest / least member *)
Definition is_max (xs : list f64) (m : f64) : Prop := In m xs /\ forall x, In x xs -> fltb m x = false.
Definition is_min (xs : list f64) (m : f64) : Prop := In m xs /\ forall x, In x xs -> fltb x m = false.
