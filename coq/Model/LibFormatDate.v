(* Model/LibFormatDate.v — /repo/jlib/jxpath/formatdate.go and language.go, and on top of them
   FromMillis / ToMillis / parseTime of /repo/jlib/date.go.

   formatdate.go prints every integer through
       formatInteger(n, layout) = FormatNumber(float64(n), layout, defaultDecimalFormat)
   which is modelled elsewhere; here it is the Section variable [format_integer].
   The only error tag that is ever inspected is "errUnsupported" (Go compares the error value
   with the errUnsupported sentinel): [format_integer] must not return that tag.

   strings.ToUpper / ToLower / unicode.ToUpper / ToLower are implemented for ASCII only: they are
   applied to the English names of language.go (ASCII) and to zone names (ASCII: "UTC", "MST",
   or a tz string made of sign and digits); other bytes are left unchanged.
   Stdlib + JV.Base + JV.Model.LibDate only; no axioms. *)
From JV Require Import Base.Bytes Base.Utf8 Base.Res Model.LibDate.
Open Scope Z_scope.

(* ------------------------------------------------------------------------------------------ *)
(** * language.go (dateLanguages["en"]) *)

Definition en_days : list (list string) :=
  [ ["Sunday"; "Sun"; "Su"];
    ["Monday"; "Mon"; "Mo"];
    ["Tuesday"; "Tues"; "Tue"; "Tu"];
    ["Wednesday"; "Weds"; "Wed"; "We"];
    ["Thursday"; "Thurs"; "Thur"; "Thu"; "Th"];
    ["Friday"; "Fri"; "Fr"];
    ["Saturday"; "Sat"; "Sa"] ].

(* index 0 is the nil slice of the [13][]string array *)
Definition en_months : list (list string) :=
  [ [];
    ["January"; "Jan"; "Ja"];
    ["February"; "Feb"; "Fe"];
    ["March"; "Mar"; "Mr"];
    ["April"; "Apr"; "Ap"];
    ["May"; "My"];
    ["June"; "Jun"; "Jn"];
    ["July"; "Jul"; "Jl"];
    ["August"; "Aug"; "Au"];
    ["September"; "Sept"; "Sep"; "Se"];
    ["October"; "Oct"; "Oc"];
    ["November"; "Nov"; "No"];
    ["December"; "Dec"; "De"] ].

Definition en_am : list string := ["am"; "a"].
Definition en_pm : list string := ["pm"; "p"].
Definition en_tz_prefix : string := "GMT".
Definition calendars : list string := ["AD"].
Definition eras : list string := ["CE"].

(* ------------------------------------------------------------------------------------------ *)
(** * formatdate.go: tables and marker parsing *)

(* dateComponent = the byte after '[' *)
Definition cY := 89. Definition cM := 77. Definition cD := 68. Definition cd := 100.
Definition cF := 70. Definition cW := 87. Definition cw := 119. Definition cH := 72.
Definition ch := 104. Definition cP := 80. Definition cm := 109. Definition cs := 115.
Definition cf := 102. Definition cZ := 90. Definition cz := 122. Definition cC := 67.
Definition cE := 69.

(* defaultDateFormats (a map: "" for any other key) *)
Definition default_date_format (c : Z) : string :=
  if (c =? cY) || (c =? cM) || (c =? cD) || (c =? cd) || (c =? cW) || (c =? cw) || (c =? cH)
     || (c =? ch) || (c =? cf) then "1"
  else if (c =? cF) || (c =? cP) || (c =? cC) || (c =? cE) then "n"
  else if (c =? cm) || (c =? cs) then "01"
  else if (c =? cZ) || (c =? cz) then "01:01"
  else "".

Inductive fmodifier := ModNone | ModOrdinal | ModCardinal | ModAlphabetic | ModTraditional.

Record marker := { mk_format : string; mk_modifier : fmodifier; mk_minw : Z; mk_maxw : Z }.
Definition zero_marker : marker :=
  {| mk_format := ""; mk_modifier := ModNone; mk_minw := 0; mk_maxw := 0 |}.

Definition is_whitespace (r : rune) : bool :=
  (r =? 32) || (r =? 9) || (r =? 10) || (r =? 13) || (r =? 11).

(* stripSpace = strings.Map dropping whitespace (invalid UTF-8 bytes come out as U+FFFD) *)
Definition strip_space (s : string) : string :=
  string_of_runes (filter (fun r => negb (is_whitespace r)) (runes s)).

Definition is_decimal_format (s : string) : bool :=
  existsb is_digit_byte (bytes_of s).
Definition is_name_format (s : string) : bool := seqb s "N" || seqb s "n" || seqb s "Nn".
Definition is_all_digits (s : string) : bool :=
  forallb is_digit_byte (bytes_of s) && negb (seqb s "").
Definition count_digits_hash (s : string) : Z :=
  Z.of_nat (List.length (filter (fun b => is_digit_byte b || (b =? 35)) (bytes_of s))).

(* lastDigits(n, count) (as repaired; replaces y % pow10(size)): n truncated (Go's %) to its
   last count decimal digits; 10^count no longer fits an int64 from count = 19 on, and then n
   is returned unchanged *)
Definition last_digits (n count : Z) : Z :=
  if count <=? 0 then Z.rem n 1 else if 19 <=? count then n else Z.rem n (10 ^ count).

(* strings.LastIndexByte *)
Fixpoint last_index_byte_aux (s : string) (b : Z) (i : nat) (acc : option nat) : option nat :=
  match s with
  | EmptyString => acc
  | String c r => last_index_byte_aux r b (S i) (if byte_of c =? b then Some i else acc)
  end.
Definition last_index_byte (s : string) (b : Z) : option nat := last_index_byte_aux s b 0%nat None.

(* parseVariableMarkerModifiers *)
Definition parse_variable_marker_modifiers (s : string) : lres (string * string) :=
  match last_index_byte s 44 with
  | None => LOk (s, EmptyString)
  | Some pos =>
      let pm := stake pos s in
      let wm := sdrop (S pos) s in
      if seqb wm "" then LErr "empty width modifier" else LOk (pm, wm)
  end.

(* parsePresentationModifiers *)
Definition parse_presentation_modifiers (s : string) : string * fmodifier :=
  match slen s with
  | 0%nat => (EmptyString, ModNone)
  | 1%nat => (s, ModNone)
  | S last =>
      let b := byte_at s last in
      if b =? 97 then (stake last s, ModAlphabetic)
      else if b =? 116 then (stake last s, ModTraditional)
      else if b =? 99 then (stake last s, ModCardinal)
      else if b =? 111 then (stake last s, ModOrdinal)
      else (s, ModNone)
  end.

(* parseWidth (as repaired: widths above maxWidth = 1<<16 are rejected, so the paddings below
   are bounded and the LFuel guards of [pad_right] / [pad_left_zeros] are unreachable) *)
Definition max_width : Z := 65536.
Definition parse_width (s : string) : lres Z :=
  if seqb s "*" then LOk 0
  else if negb (is_all_digits s) then LErr "width contains illegal characters"
  else match go_atoi s with
       | None => LErr "width is not an integer"
       | Some n => if n <? 1 then LErr "width cannot be less than 1"
                   else if max_width <? n then LErr "width cannot be greater than 65536"
                   else LOk n
       end.

(* parseWidthModifier *)
Definition parse_width_modifier (s : string) : lres (Z * Z) :=
  match ssplit_char "-" s with
  | [a] => lbind (parse_width a) (fun mn => LOk (mn, 0))
  | [a; b] =>
      lbind (parse_width a) (fun mn =>
      lbind (parse_width b) (fun mx =>
      if mx <? mn then LErr "maximum width cannot be less than minimum width" else LOk (mn, mx)))
  | _ => LErr "invalid width modifier"
  end.

(* parseVariableMarker: (component, marker) *)
Definition parse_variable_marker (s : string) : lres (Z * marker) :=
  let s := strip_space s in
  match s with
  | EmptyString => LErr "empty variable marker"
  | String c EmptyString => LOk (byte_of c, zero_marker)
  | String c rest =>
      lbind (parse_variable_marker_modifiers rest) (fun '(pm, wm) =>
      let '(fmt, md) := if seqb pm "" then (EmptyString, ModNone)
                        else parse_presentation_modifiers pm in
      lbind (if seqb wm "" then LOk (0, 0) else parse_width_modifier wm) (fun '(mn, mx) =>
      LOk (byte_of c, {| mk_format := fmt; mk_modifier := md; mk_minw := mn; mk_maxw := mx |})))
  end.

(* ------------------------------------------------------------------------------------------ *)
(** * ASCII case mapping *)

Definition upper_byte (b : Z) : Z := if (97 <=? b) && (b <=? 122) then b - 32 else b.
Definition lower_byte (b : Z) : Z := if (65 <=? b) && (b <=? 90) then b + 32 else b.
Definition ascii_upper (s : string) : string := string_of_bytes (map upper_byte (bytes_of s)).
Definition ascii_lower (s : string) : string := string_of_bytes (map lower_byte (bytes_of s)).
(* toTitle *)
Fixpoint to_title_aux (l : list Z) (up : bool) : list Z :=
  match l with
  | [] => []
  | b :: r =>
      if is_whitespace b then b :: to_title_aux r true
      else if up then upper_byte b :: to_title_aux r false
      else lower_byte b :: to_title_aux r false
  end.
Definition to_title (s : string) : string := string_of_bytes (to_title_aux (bytes_of s) true).

(* padding limit: beyond it Go would have to allocate that many bytes (strings.Repeat);
   the model reports LFuel (resource exhaustion is outside the modelled domain) *)
Definition max_padding : Z := 16777216.

Definition pad_right (s : string) (minw : Z) : lres string :=
  if 0 <? minw then
    let padding := minw - Z.of_nat (rune_count s) in
    if 0 <? padding then
      if max_padding <? padding then LFuel
      else LOk (s ++ srepeat " " (Z.to_nat padding))
    else LOk s
  else LOk s.

(* the zero padding of formatIntegerComponent (as repaired): up to the minimum width, after
   the sign of a negative number *)
Definition pad_left_zeros (s : string) (minw : Z) : lres string :=
  let padding := minw - Z.of_nat (rune_count s) in
  if 0 <? padding then
    if max_padding <? padding then LFuel
    else
      let zeros := srepeat "0" (Z.to_nat padding) in
      match s with
      | String c r => if ascii_eqb c "-" then LOk (String "-" (zeros ++ r)) else LOk (zeros ++ s)
      | EmptyString => LOk (zeros ++ s)
      end
  else LOk s.

(* positionOfNthRune *)
Definition position_of_nth_rune (s : string) (n : Z) : option nat :=
  match nth_error (runes_pos s) (Z.to_nat n) with
  | Some (pos, _) => Some pos
  | None => None
  end.

(* bestFittingString *)
Definition best_fitting_string (values : list string) (maxlen : Z) : lres string :=
  match values with
  | [] => LOk EmptyString
  | v0 :: _ =>
      if maxlen <=? 0 then LOk v0
      else match find (fun s => Z.of_nat (rune_count s) <=? maxlen) values with
           | Some s => LOk s
           | None => match position_of_nth_rune v0 maxlen with
                     | Some pos => LOk (stake pos v0)
                     | None => LPanic "slice bounds out of range [:-1]"
                     end
           end
  end.

(* formatNameComponent *)
Definition format_name_component (names : list string) (mk : marker) : lres string :=
  lbind (best_fitting_string names (mk_maxw mk)) (fun s =>
  if seqb s "" then LErr "no name exists for max length"
  else
    let s := if seqb (mk_format mk) "N" then ascii_upper s
             else if seqb (mk_format mk) "n" then ascii_lower s
             else if seqb (mk_format mk) "Nn" then to_title s
             else s in
    pad_right s (mk_minw mk)).

(* ordinalSuffix (Go's truncated %) *)
Definition ordinal_suffix (n : Z) : string :=
  let mod10 := Z.rem n 10 in
  let mod100 := Z.rem n 100 in
  if (mod10 =? 1) && negb (mod100 =? 11) then "st"
  else if (mod10 =? 2) && negb (mod100 =? 12) then "nd"
  else if (mod10 =? 3) && negb (mod100 =? 13) then "rd"
  else "th".

(* formatNano: the first maxlen (at most 9) of the 9 decimal digits of n *)
Fixpoint nano_digits (k : nat) (n : Z) (acc : string) : string :=
  match k with
  | O => acc
  | S k' => nano_digits k' (Z.quot n 10) (String (ascii_of_Z (Z.rem n 10 + 48)) acc)
  end.
Definition format_nano (n : Z) (maxlen : Z) : string :=
  let maxlen := if 9 <? maxlen then 9 else maxlen in
  stake (Z.to_nat maxlen) (nano_digits 9 n EmptyString).

(* fmt.Sprintf("%02d", n) for n >= 0 *)
Definition pad2 (n : Z) : string :=
  if n <? 10 then String "0" (string_of_Z n) else string_of_Z n.

Inductive tzstyle :=
| TzNone | TzShort | TzLong | TzSplit (hours minutes separator : string) | TzMilitary | TzName.

(* reTZSplit = ^([0-9]+)([^0-9A-Za-z])([0-9]+)$ : the decomposition is unique *)
Definition is_alnum_rune (r : rune) : bool :=
  ((48 <=? r) && (r <=? 57)) || ((65 <=? r) && (r <=? 90)) || ((97 <=? r) && (r <=? 122)).
Definition re_tz_split (s : string) : option (string * string * string) :=
  let k := count_digits s in
  if (k =? 0)%nat then None
  else
    let rest := sdrop k s in
    match rest with
    | EmptyString => None
    | _ =>
        let '(r, w) := decode_rune rest in
        if is_alnum_rune r then None
        else
          let tail := sdrop w rest in
          if is_all_digits tail then Some (stake k s, stake w rest, tail) else None
    end.

(* getTimezoneStyle *)
Definition get_timezone_style (s : string) : tzstyle :=
  if seqb s "Z" then TzMilitary
  else if is_name_format s then TzName
  else if is_all_digits s then
    match slen s with
    | 1%nat | 2%nat => TzShort
    | 3%nat | 4%nat => TzLong
    | _ => TzNone
    end
  else match re_tz_split s with
       | Some (h, sep, m) => TzSplit h m sep
       | None => TzNone
       end.

(* militaryOffsets, for -12 <= h <= 12 *)
Definition military_offset (h : Z) : string :=
  if h =? 0 then "Z"
  else if 0 <? h then (if h <=? 9 then string_of_bytes [64 + h] else string_of_bytes [65 + h])
  else string_of_bytes [77 - h].

(* getTimezoneInfo: Go's truncated / and % *)
Definition get_timezone_info (t : gotime) : string * Z * Z :=
  let secs := offset t in
  (zname t, Z.quot secs 3600, Z.quot (Z.rem secs 3600) 60).

Definition err_unsupported {A} : lres A := LErr "errUnsupported".

(* ------------------------------------------------------------------------------------------ *)
Section WithFormatInteger.

Variable format_integer : Z -> string -> lres string.

(* formatIntegerComponent *)
Definition format_integer_component (n : Z) (mk : marker) : lres string :=
  lbind (format_integer n (mk_format mk)) (fun s =>
  lbind (pad_left_zeros s (mk_minw mk)) (fun s =>
  match mk_modifier mk with
  | ModOrdinal => LOk (s ++ ordinal_suffix n)
  | _ => LOk s
  end)).

Definition format_year (t : gotime) (mk : marker) : lres string :=
  if negb (is_decimal_format (mk_format mk)) then err_unsupported
  else
    let size := mk_maxw mk in
    let size := if size <=? 0 then
                  let n := count_digits_hash (mk_format mk) in
                  if 2 <=? n then n else size
                else size in
    let y := t_year t in
    if 0 <? size then format_integer_component (last_digits y size) mk
    else format_integer_component y mk.

Definition format_month (t : gotime) (mk : marker) : lres string :=
  let month := t_month t in
  if is_name_format (mk_format mk) then
    format_name_component (nth (Z.to_nat month) en_months []) mk
  else if is_decimal_format (mk_format mk) then format_integer_component month mk
  else err_unsupported.

Definition format_decimal_field (n : Z) (mk : marker) : lres string :=
  if negb (is_decimal_format (mk_format mk)) then err_unsupported
  else format_integer_component n mk.

Definition format_day_of_week (t : gotime) (mk : marker) : lres string :=
  let day := t_weekday t in
  if is_name_format (mk_format mk) then
    format_name_component (nth (Z.to_nat day) en_days []) mk
  else if is_decimal_format (mk_format mk) then format_integer_component (day + 1) mk
  else err_unsupported.

(* formatHour *)
(* 12-hour clock: 12, 1..11 (repaired in /repo: midnight and noon are 12) *)
Definition hour12_of (h : Z) : Z := if h mod 12 =? 0 then 12 else h mod 12.
Definition format_hour (t : gotime) (mk : marker) (hour12 : bool) : lres string :=
  if negb (is_decimal_format (mk_format mk)) then err_unsupported
  else
    let h := t_hour t in
    format_integer_component (if hour12 then hour12_of h else h) mk.

Definition format_ampm (t : gotime) (mk : marker) : lres string :=
  if negb (is_name_format (mk_format mk)) then err_unsupported
  else format_name_component (if 12 <=? t_hour t then en_pm else en_am) mk.

Definition format_nanosecond (t : gotime) (mk : marker) : lres string :=
  if negb (is_decimal_format (mk_format mk)) then err_unsupported
  else
    let l := Z.of_nat (rune_count (mk_format mk)) in
    if (l =? 1) || negb (is_all_digits (mk_format mk)) then LOk (format_nano (t_nanosecond t) 9)
    else LOk (format_nano (t_nanosecond t) l).

(* timezoneSign (as repaired): hours and minutes both carry the sign of the offset *)
Definition timezone_sign (h m : Z) : string := if (h <? 0) || (m <? 0) then "-" else "+".

Definition format_timezone_short (h m : Z) (layout : string) : lres string :=
  lbind (format_integer (Z.abs h) layout) (fun tz =>
  let tz := timezone_sign h m ++ tz in
  LOk (if negb (m =? 0) then tz ++ ":" ++ pad2 (Z.abs m) else tz)).

Definition format_timezone_long (h m : Z) (layout : string) : lres string :=
  lbind (format_integer (Z.abs h * 100 + Z.abs m) layout) (fun tz =>
  LOk (timezone_sign h m ++ tz)).

Definition format_timezone_split (h : Z) (layout_h : string) (m : Z) (layout_m sep : string)
  : lres string :=
  lbind (format_integer (Z.abs h) layout_h) (fun hh =>
  lbind (format_integer (Z.abs m) layout_m) (fun mm =>
  LOk (timezone_sign h m ++ hh ++ sep ++ mm))).

Definition is_traditional (m : fmodifier) : bool :=
  match m with ModTraditional => true | _ => false end.

(* formatTimezone *)
Definition format_timezone (t : gotime) (mk : marker) (prefixed : bool) : lres string :=
  let style := get_timezone_style (mk_format mk) in
  let is_numeric := match style with TzShort | TzLong | TzSplit _ _ _ => true | _ => false end in
  let '(name, hours, minutes) := get_timezone_info t in
  let r : lres (string * bool) :=
    if is_traditional (mk_modifier mk) && is_numeric && (hours =? 0) && (minutes =? 0)
    then LOk ("Z"%string, false)
    else
      match style with
      | TzShort => lmap (fun s => (s, true)) (format_timezone_short hours minutes (mk_format mk))
      | TzLong => lmap (fun s => (s, true)) (format_timezone_long hours minutes (mk_format mk))
      | TzSplit lh lm sep =>
          lmap (fun s => (s, true)) (format_timezone_split hours lh minutes lm sep)
      | TzName =>
          if negb (seqb name "") then
            lmap (fun s => (s, false))
                 (format_name_component [name]
                    {| mk_format := mk_format mk; mk_modifier := ModNone; mk_minw := 0; mk_maxw := 0 |})
          else err_unsupported
      | TzMilitary =>
          if (minutes =? 0) && (-12 <=? hours) && (hours <=? 12)
          then LOk (military_offset hours, false)
          else err_unsupported
      | TzNone => err_unsupported
      end in
  lbind r (fun '(tz, is_numeric) =>
  let tz := if prefixed && is_numeric then en_tz_prefix ++ tz else tz in
  pad_right tz (mk_minw mk)).

(* expandDateComponent *)
Definition expand_date_component (t : gotime) (c : Z) (mk : marker) : lres string :=
  if c =? cY then format_year t mk
  else if c =? cM then format_month t mk
  else if c =? cD then format_decimal_field (t_day t) mk
  else if c =? cd then format_decimal_field (t_yearday t) mk
  else if c =? cF then format_day_of_week t mk
  else if c =? cW then format_decimal_field (snd (t_isoweek t)) mk
  else if c =? cw then format_decimal_field (Z.quot (t_day t) 7 + 1) mk
  else if c =? cH then format_hour t mk false
  else if c =? ch then format_hour t mk true
  else if c =? cP then format_ampm t mk
  else if c =? cm then format_decimal_field (t_minute t) mk
  else if c =? cs then format_decimal_field (t_second t) mk
  else if c =? cf then format_nanosecond t mk
  else if c =? cZ then format_timezone t mk false
  else if c =? cz then format_timezone t mk true
  else if c =? cC then
    (if negb (is_name_format (mk_format mk)) then err_unsupported
     else format_name_component calendars mk)
  else if c =? cE then
    (if negb (is_name_format (mk_format mk)) then err_unsupported
     else format_name_component eras mk)
  else LErr "unknown component specifier".

Definition with_default_format (c : Z) (mk : marker) : marker :=
  {| mk_format := default_date_format c; mk_modifier := ModNone;
     mk_minw := mk_minw mk; mk_maxw := mk_maxw mk |}.

(* expandVariableMarker *)
Definition expand_variable_marker (t : gotime) (s : string) : lres string :=
  lbind (parse_variable_marker s) (fun '(c, mk) =>
  let is_default := seqb (mk_format mk) "" in
  let mk1 := if is_default then with_default_format c mk else mk in
  match expand_date_component t c mk1 with
  | LErr tag =>
      if seqb tag "errUnsupported" && negb is_default
      then expand_date_component t c (with_default_format c mk1)
      else LErr tag
  | r => r
  end).

Record fstate := {
  fs_start : nat; fs_in_marker : bool; fs_dcb : bool; fs_expanded : bool; fs_result : string }.

(* picture[a:b] with Go's bounds check *)
Definition slice_checked (s : string) (a b : nat) : lres string :=
  if (a <=? b)%nat && (b <=? slen s)%nat then LOk (sslice a b s)
  else LPanic "slice bounds out of range".

(* the body of the `for current, r := range picture` loop of FormatTime *)
Definition format_time_step (t : gotime) (picture : string) (st : fstate) (cr : nat * rune)
  : lres fstate :=
  let '(current, r) := cr in
  if r =? 91 (* [ *) then
    if fs_in_marker st then
      if negb (current =? fs_start st)%nat then LErr "open bracket inside variable marker"
      else LOk {| fs_start := fs_start st; fs_in_marker := false; fs_dcb := fs_dcb st;
                  fs_expanded := fs_expanded st; fs_result := fs_result st |}
    else
      lbind (slice_checked picture (fs_start st) current) (fun lit =>
      LOk {| fs_start := S current; fs_in_marker := true; fs_dcb := fs_dcb st;
             fs_expanded := fs_expanded st; fs_result := fs_result st ++ lit |})
  else if r =? 93 (* ] *) then
    if fs_in_marker st then
      if (current =? fs_start st)%nat then LErr "empty variable marker"
      else
        lbind (slice_checked picture (fs_start st) current) (fun body =>
        lbind (expand_variable_marker t body) (fun s =>
        LOk {| fs_start := S current; fs_in_marker := false; fs_dcb := fs_dcb st;
               fs_expanded := true; fs_result := fs_result st ++ s |}))
    else if fs_dcb st then
      LOk {| fs_start := fs_start st; fs_in_marker := false; fs_dcb := false;
             fs_expanded := fs_expanded st; fs_result := fs_result st |}
    else
      let next := S current in
      if (slen picture <=? next)%nat || negb (byte_at picture next =? 93)
      then LErr "closing bracket outside variable marker"
      else
        lbind (slice_checked picture (fs_start st) current) (fun lit =>
        LOk {| fs_start := next; fs_in_marker := false; fs_dcb := true;
               fs_expanded := fs_expanded st; fs_result := fs_result st ++ lit |})
  else LOk st.

Fixpoint format_time_loop (t : gotime) (picture : string) (l : list (nat * rune)) (st : fstate)
  : lres fstate :=
  match l with
  | [] => LOk st
  | cr :: l' => lbind (format_time_step t picture st cr) (format_time_loop t picture l')
  end.

(* FormatTime *)
Definition format_time (t : gotime) (picture : string) : lres string :=
  lbind (format_time_loop t picture (runes_pos picture)
           {| fs_start := 0; fs_in_marker := false; fs_dcb := false; fs_expanded := false;
              fs_result := EmptyString |}) (fun st =>
  if fs_in_marker st then LErr "unterminated variable marker"
  else if negb (fs_expanded st) then LErr "no variable markers found"
  else LOk (fs_result st ++ sdrop (fs_start st) picture)).

(* ------------------------------------------------------------------------------------------ *)
(** * date.go *)

Definition default_format_time_layout : string :=
  "[Y]-[M01]-[D01]T[H01]:[m]:[s].[f001][Z01:01t]".

Definition default_parse_time_layouts : list string :=
  [ "[Y]-[M01]-[D01]T[H01]:[m]:[s][Z01:01t]";
    "[Y]-[M01]-[D01]T[H01]:[m]:[s][Z0100t]";
    "[Y]-[M01]-[D01]T[H01]:[m]:[s]";
    "[Y]-[M01]-[D01]";
    "[Y]" ].

Definition opt_string (o : option string) : string :=
  match o with Some s => s | None => EmptyString end.

(* FromMillis.  jtypes.OptionalString: only the .String field is consulted, so an unset
   argument and an explicit "" behave alike. *)
Definition from_millis (ms : Z) (picture tz : option string) : lres string :=
  let t := ms_to_time ms in
  let tzs := opt_string tz in
  lbind (if seqb tzs "" then LOk t
         else lbind (parse_time_zone tzs) (fun '(off, name) => LOk (time_in t off name)))
  (fun t =>
  let layout := if seqb (opt_string picture) "" then default_format_time_layout
                else opt_string picture in
  format_time t layout).

(* Go's reference time Mon Jan 2 15:04:05 MST 2006 in FixedZone("MST", -7h) *)
Definition ref_time : gotime :=
  {| unix_sec := 1136239445; nsec := 0; offset := -25200; zname := "MST" |}.

(* reMinus7.ReplaceAllString(layout, "Z$1") with reMinus7 = -(0*7): a '-' followed by zeros
   and a 7 becomes 'Z' (matches cannot overlap: each contains exactly one '-') *)
Fixpoint replace_minus7 (s : string) : string :=
  match s with
  | EmptyString => EmptyString
  | String c r =>
      if (byte_of c =? 45) && (byte_at r (count_run 48 r) =? 55)
      then String "Z" (replace_minus7 r)
      else String c (replace_minus7 r)
  end.

(* parseTime *)
Definition parse_time (s picture : string) : lres gotime :=
  match format_time ref_time picture with
  | LOk layout =>
      match go_time_parse (replace_minus7 layout) s with
      | LOk t => LOk t
      | LErr _ => LErr "could not parse time"
      | r => r
      end
  | LErr _ => LErr "the second argument of the toMillis function must be a valid date format"
  | LUndef => LUndef
  | LPanic w => LPanic w
  | LFuel => LFuel
  end.

Fixpoint to_millis_loop (s : string) (layouts : list string) : lres Z :=
  match layouts with
  | [] => LErr "could not parse time"
  | l :: rest =>
      match parse_time s l with
      | LOk t => LOk (time_to_ms t)
      | LErr _ => to_millis_loop s rest
      | LUndef => LUndef
      | LPanic w => LPanic w
      | LFuel => LFuel
      end
  end.

(* ToMillis: the tz argument is ignored by the Go code ("TODO: How are timezones used for
   parsing?") *)
Definition to_millis (s : string) (picture tz : option string) : lres Z :=
  let layouts := if seqb (opt_string picture) "" then default_parse_time_layouts
                 else [opt_string picture] in
  to_millis_loop s layouts.

(* jsonata.go: newEnv calls timeCallables(time.Now()) ONCE per evaluation and binds $millis and
   $now to partial applications of the same number ms = t.UnixNano()/1e6 (as a float64
   NumberNode; exact below 2^53).  With [clock_ms] that per-evaluation constant: *)
Definition eval_millis (clock_ms : Z) : Z := clock_ms.
Definition eval_now (clock_ms : Z) (picture tz : option string) : lres string :=
  from_millis clock_ms picture tz.

End WithFormatInteger.
