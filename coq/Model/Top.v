(* Model/Top.v — the model's entry points on wire text: one case line in, one result line
   out.  Instantiates the evaluator's oracles from the case's oracle table. *)
From JV Require Export Model.Wire Base.Decimal.
Local Open Scope nat_scope.
Local Open Scope list_scope.

(* pure library dispatch (filled in as the library models land) *)
Definition xlib_none (name : string) (args : list carg) : option (lres ovalue) := None.

Definition default_fuel : nat := 4000.

(* Expr.newEnv: a root frame binding "$" (the root input), millis and now *)
Definition initial_world (input : ovalue) (clock : Z) : world :=
  mkWorld [mkFrame None [("$"%string, input);
                         ("millis"%string, Some (VFun (CTime "millis" clock)));
                         ("now"%string, Some (VFun (CTime "now" clock)))]].

Definition run_eval (xlib : string -> list carg -> option (lres ovalue))
           (tbl : list (string * string)) (fuel : nat) (n : node) (input : ovalue) (clock : Z)
  : res ovalue :=
  eval format_json_number (regex_from_table tbl) (pow_from_table tbl) xlib
       fuel n input 0 (initial_world input clock).

(* case line:  id|E|<ast wire>|<input value wire, or U>|<clock ms>|<oracle table> *)
Definition run_case_with (xlib : string -> list carg -> option (lres ovalue)) (line : string) : string :=
  match fields line with
  | id :: kind :: ast :: inp :: clk :: orc :: _ =>
      let out :=
        match node_of_wire ast with
        | None => "X bad-ast"%string
        | Some n =>
            let input := if seqb inp "U" then Some None else option_map Some (value_of_wire inp) in
            match input, Z_of_dec clk with
            | Some i, Some c => res_to_wire (run_eval xlib (oracle_table orc) default_fuel n i c)
            | _, _ => "X bad-input"%string
            end
        end in
      (id ++ "|" ++ out)%string
  | _ => "?|X bad-line"%string
  end.

Definition run_case := run_case_with xlib_none.
