(* Model/Top.v — the model's entry points on wire text: one case line in, one result line
   out.  Instantiates the evaluator's oracles from the case's oracle table. *)
From JV Require Export Model.Wire Base.Decimal Model.LibDispatch Model.Parser.
Local Open Scope nat_scope.
Local Open Scope list_scope.

(* pure library dispatch (filled in as the library models land) *)
Definition xlib_none (name : string) (args : list carg) : option (lres ovalue) := None.

Definition default_fuel : nat := 4000.

(* Expr.newEnv: a root frame binding "$" (the root input), millis and now *)
Definition initial_world (input : ovalue) (clock : Z) : world :=
  mkWorld [mkFrame None [("$"%string, input);
                         ("millis"%string, Some (VFun (CTime "millis" clock)));
                         ("now"%string, Some (VFun (CTime "now" clock)))]].

Definition run_eval (xlib : string -> list carg -> option (lres ovalue))
           (tbl : list (string * string)) (fuel : nat) (n : node) (input : ovalue) (clock : Z)
  : Value.res ovalue :=
  eval format_json_number (regex_from_table tbl) (pow_from_table tbl) xlib
       fuel n input 0 (initial_world input clock).

(* case line:  id|E|<ast wire>|<input value wire, or U>|<clock ms>|<oracle table> *)
Definition run_case_with (xlib : string -> list carg -> option (lres ovalue)) (line : string) : string :=
  match fields line with
  | id :: kind :: ast :: inp :: clk :: orc :: _ =>
      let out :=
        match node_of_wire ast with
        | None => "X bad-ast"%string
        | Some n =>
            let input := if seqb inp "U" then Some None else option_map Some (value_of_wire inp) in
            match input, Z_of_dec clk with
            | Some i, Some c => res_to_wire (run_eval xlib (oracle_table orc) default_fuel n i c)
            | _, _ => "X bad-input"%string
            end
        end in
      (id ++ "|" ++ out)%string
  | _ => "?|X bad-line"%string
  end.

Definition str_from_table (pfx : string) (tbl : list (string * string)) (s : string) : option string :=
  match assoc_get (pfx ++ hex_of_string s)%string tbl with
  | Some a => string_of_hex a
  | None => None
  end.

Definition xlib_of_table (tbl : list (string * string)) :=
  xlib (str_from_table "UP:" tbl) (str_from_table "LOW:" tbl).

Definition run_case (line : string) : string :=
  match fields line with
  | _ :: _ :: _ :: _ :: _ :: orc :: _ => run_case_with (xlib_of_table (oracle_table orc)) line
  | _ => run_case_with xlib_none line
  end.


(* ---- parser cases:  id|P|<source hex>|<oracle table>  ->  id|A <ast wire>  or
   id|E <type> <pos> S<token> S<hint> .  regexp.Compile verdicts (REC:<hex>= empty for ok, else
   hex of the syntax error code) and %q renderings (QT:<hex>=<hex>) come from the oracle table;
   a miss travels inside the error hint between the markers below and becomes a Q answer. *)
Definition need_open : string := String (ascii_of_Z 1) "NEED:".
Definition need_close : string := String (ascii_of_Z 2) "".

Definition parse_number_of_decimal (s : string) : numlit :=
  match parse_float s with PFOk x => NumOk x | PFRange _ => NumRange | PFSyntax => NumSyntax end.

Definition regex_check_from_table (tbl : list (string * string)) (src : string) : option string :=
  let key := ("REC:" ++ hex_of_string src)%string in
  match assoc_get key tbl with
  | Some a => if seqb a "" then None else
              match string_of_hex a with Some c => Some c | None => Some "bad-oracle" end
  | None => Some (need_open ++ key ++ need_close)%string
  end.
Definition quote_from_table (tbl : list (string * string)) (s : string) : string :=
  let key := ("QT:" ++ hex_of_string s)%string in
  match assoc_get key tbl with
  | Some a => match string_of_hex a with Some q => q | None => "bad-oracle"%string end
  | None => (need_open ++ key ++ need_close)%string
  end.

Definition find_need (s : string) : option string :=
  match sindex need_open s with
  | Some i => let rest := sdrop (i + slen need_open) s in
              match sindex need_close rest with
              | Some j => Some (stake j rest)
              | None => None
              end
  | None => None
  end.

Definition parse_with_table (tbl : list (string * string)) (src : string) : Lexer.res node :=
  parse parse_number_of_decimal (regex_check_from_table tbl) format_float_g (quote_from_table tbl)
        (parse_fuel src) src.

Definition run_parse_case (line : string) : string :=
  match fields line with
  | id :: _ :: srchex :: orc :: _ =>
      let out :=
        match string_of_hex srchex with
        | None => "X bad-hex"%string
        | Some src =>
            match parse_with_table (oracle_table orc) src with
            | ROk n => ("A " ++ node_to_wire n)%string
            | RErr e =>
                match find_need (ehint e) with
                | Some q => ("Q " ++ q)%string
                | None => ("E " ++ string_of_nat (etype e) ++ " " ++ string_of_Z (epos e) ++ " "
                           ++ String "S" (hex_of_string (etoken e)) ++ " " ++ String "S" (hex_of_string (ehint e)))%string
                end
            | RPanic w => ("P " ++ String "S" (hex_of_string w))%string
            | RFuel => "X fuel"%string
            end
        end in
      (id ++ "|" ++ out)%string
  | _ => "?|X bad-line"%string
  end.

(* one entry point for the driver: dispatch on the kind field *)
Definition run_line (line : string) : string :=
  match fields line with
  | _ :: kind :: _ => if seqb kind "P" then run_parse_case line else run_case line
  | _ => "?|X bad-line"%string
  end.
