(* Model/Top.v — the model's entry points on wire text: one case line in, one result line
   out.  Instantiates the evaluator's oracles from the case's oracle table. *)
From JV Require Export Model.Wire Base.Decimal Model.LibDispatch Model.Parser.
Local Open Scope nat_scope.
Local Open Scope list_scope.

(* pure library dispatch (filled in as the library models land) *)
Definition xlib_none (name : string) (args : list carg) : option (lres ovalue) := None.

Definition default_fuel : nat := 4000.

(* Expr.newEnv: a root frame binding "$" (the root input), millis and now *)
Definition initial_world (input : ovalue) (clock : Z) : world :=
  mkWorld [mkFrame None [("$"%string, input);
                         ("millis"%string, Some (VFun (CTime "millis" clock)));
                         ("now"%string, Some (VFun (CTime "now" clock)))]].

Definition run_eval (xlib : string -> list carg -> option (lres ovalue))
           (tbl : list (string * string)) (fuel : nat) (n : node) (input : ovalue) (clock : Z)
  : Value.res ovalue :=
  eval format_json_number (regex_from_table tbl) (pow_from_table tbl) xlib
       fuel n input 0 (initial_world input clock).

(* case line:  id|E|<ast wire>|<input value wire, or U>|<clock ms>|<oracle table> *)
Definition run_case_with (xlib : string -> list carg -> option (lres ovalue)) (line : string) : string :=
  match fields line with
  | id :: kind :: ast :: inp :: clk :: orc :: _ =>
      let out :=
        match node_of_wire ast with
        | None => "X bad-ast"%string
        | Some n =>
            let input := if seqb inp "U" then Some None else option_map Some (value_of_wire inp) in
            match input, Z_of_dec clk with
            | Some i, Some c => res_to_wire (run_eval xlib (oracle_table orc) default_fuel n i c)
            | _, _ => "X bad-input"%string
            end
        end in
      (id ++ "|" ++ out)%string
  | _ => "?|X bad-line"%string
  end.

Definition str_from_table (pfx : string) (tbl : list (string * string)) (s : string) : option string :=
  match assoc_get (pfx ++ hex_of_string s)%string tbl with
  | Some a => string_of_hex a
  | None => None
  end.

Definition xlib_of_table (tbl : list (string * string)) :=
  xlib (str_from_table "UP:" tbl) (str_from_table "LOW:" tbl).

Definition run_case (line : string) : string :=
  match fields line with
  | _ :: _ :: _ :: _ :: _ :: orc :: _ => run_case_with (xlib_of_table (oracle_table orc)) line
  | _ => run_case_with xlib_none line
  end.


(* ---- parser cases:  id|P|<source hex>|<oracle table>  ->  id|A <ast wire>  or
   id|E <type> <pos> S<token> S<hint> .  regexp.Compile verdicts (REC:<hex>= empty for ok, else
   hex of the syntax error code) and %q renderings (QT:<hex>=<hex>) come from the oracle table;
   a miss travels inside the error hint between the markers below and becomes a Q answer. *)
Definition need_open : string := String (ascii_of_Z 1) "NEED:".
Definition need_close : string := String (ascii_of_Z 2) "".

Definition parse_number_of_decimal (s : string) : numlit :=
  match parse_float s with PFOk x => NumOk x | PFRange _ => NumRange | PFSyntax => NumSyntax end.

Definition regex_check_from_table (tbl : list (string * string)) (src : string) : option string :=
  let key := ("REC:" ++ hex_of_string src)%string in
  match assoc_get key tbl with
  | Some a => if seqb a "" then None else
              match string_of_hex a with Some c => Some c | None => Some "bad-oracle" end
  | None => Some (need_open ++ key ++ need_close)%string
  end.
Definition quote_from_table (tbl : list (string * string)) (s : string) : string :=
  let key := ("QT:" ++ hex_of_string s)%string in
  match assoc_get key tbl with
  | Some a => match string_of_hex a with Some q => q | None => "bad-oracle"%string end
  | None => (need_open ++ key ++ need_close)%string
  end.

Definition find_need (s : string) : option string :=
  match sindex need_open s with
  | Some i => let rest := sdrop (i + slen need_open) s in
              match sindex need_close rest with
              | Some j => Some (stake j rest)
              | None => None
              end
  | None => None
  end.

Definition parse_with_table (tbl : list (string * string)) (src : string) : Lexer.res node :=
  parse parse_number_of_decimal (regex_check_from_table tbl) format_float_g (quote_from_table tbl)
        (parse_fuel src) src.

Definition run_parse_case (line : string) : string :=
  match fields line with
  | id :: _ :: srchex :: orc :: _ =>
      let out :=
        match string_of_hex srchex with
        | None => "X bad-hex"%string
        | Some src =>
            match parse_with_table (oracle_table orc) src with
            | ROk n => ("A " ++ node_to_wire n)%string
            | RErr e =>
                match find_need (ehint e) with
                | Some q => ("Q " ++ q)%string
                | None => ("E " ++ string_of_nat (etype e) ++ " " ++ string_of_Z (epos e) ++ " "
                           ++ String "S" (hex_of_string (etoken e)) ++ " " ++ String "S" (hex_of_string (ehint e)))%string
                end
            | RPanic w => ("P " ++ String "S" (hex_of_string w))%string
            | RFuel => "X fuel"%string
            end
        end in
      (id ++ "|" ++ out)%string
  | _ => "?|X bad-line"%string
  end.

(* one entry point for the driver: dispatch on the kind field *)
Definition run_line (line : string) : string :=
  match fields line with
  | _ :: kind :: _ => if seqb kind "P" then run_parse_case line else run_case line
  | _ => "?|X bad-line"%string
  end.

(* ---- extension-call cases (C20):
   id|X|<name hex>|<param tokens>|<variadic>|<nout>|<second is error>|<undef handler>|<ctx handler>|<mode>|<ctx>|<args ';'-separated>
   -> REJECT | U | E argcount S.. | E argtype S.. k | CALL <converted args> -> <outcome>        *)
From JV Require Import Model.Process.

Definition gtype_of_token (t : string) : option gtype :=
  if seqb t "f64" then Some GFloat else if seqb t "int" then Some GInt else if seqb t "u8" then Some GUint8
  else if seqb t "str" then Some GString else if seqb t "bool" then Some GBool else if seqb t "bytes" then Some GBytes
  else if seqb t "iface" then Some GIface else if seqb t "value" then Some GValue else if seqb t "slice" then Some GSliceIface
  else if seqb t "map" then Some GMapIface else if seqb t "fn" then Some GCallable else None.
Definition gparam_of_token (t : string) : option gparam :=
  if sprefix "opt:" t then option_map GOpt (gtype_of_token (sdrop 4 t))
  else option_map GP (gtype_of_token t).

Definition underscore (s : string) : string :=
  string_of_list (map (fun c => if Ascii.eqb c " " then "_"%char else c) (list_of_string s)).

Fixpoint carg_enc (c : carg) : string :=
  match c with
  | AVal None => "nil"
  | AVal (Some v) => "v(" ++ underscore (value_to_wire v) ++ ")"
  | AStr s => "s:" ++ hex_of_string s
  | AInt z => "i:" ++ string_of_Z z
  | AFloat x => "f:" ++ hex16_of_Z (bits_of_f x)
  | ABool b => if b then "b:T" else "b:F"
  | AFun _ => "fn"
  | AOpt None => "opt-"
  | AOpt (Some a) => "opt(" ++ carg_enc a ++ ")"
  | AOther => "other"
  end%string.

Definition ovalue_of_wire (w : string) : option ovalue :=
  if seqb w "U" then Some None else option_map Some (value_of_wire w).

Definition run_ext_case (line : string) : string :=
  match fields line with
  | id :: _ :: namehex :: ptoks :: variadic :: nout :: errsecond :: undefh :: ctxh :: mode :: ctxw :: argsw :: _ =>
      let out :=
        match string_of_hex namehex, nat_of_dec nout, ovalue_of_wire ctxw with
        | Some name, Some no, Some ctx =>
            let params := map gparam_of_token (tokens ptoks) in
            let args := map ovalue_of_wire (if seqb argsw "" then [] else ssplit_char ";" argsw) in
            if forallb (fun o => match o with Some _ => true | None => false end) params
               && forallb (fun o => match o with Some _ => true | None => false end) args then
              let shape := mkShape (somes params) (seqb variadic "T") no (seqb errsecond "T") in
              if negb (valid_shape shape && valid_name name) then "REJECT"%string else
              let sg := mkSig (somes params) (seqb variadic "T")
                              (if seqb undefh "arg0" then UArg0 else UNone)
                              (if seqb ctxh "argc0" then CArgc0 else if seqb ctxh "argc1" then CArgc1 else CNone) in
              match prepare_call sg ctx (somes args) with
              | PrepUndefined => "U"%string
              | PrepArgCount => ("E argcount " ++ String "S" (hex_of_string name))%string
              | PrepArgType k => ("E argtype " ++ String "S" (hex_of_string name) ++ " " ++ string_of_nat k)%string
              | PrepArgs cs =>
                  ("CALL " ++ sjoin " " (map carg_enc cs) ++ " -> "
                   ++ (if seqb mode "ok" then "V S52" else if seqb mode "undef" then "U" else "E lib"))%string
              end
            else "X bad-ext-case"%string
        | _, _, _ => "X bad-ext-case"%string
        end in
      (id ++ "|" ++ out)%string
  | _ => "?|X bad-line"%string
  end.

(* ---- registry histories (C20, C05):  id|H|op;op;…  ->  obs;obs;…
   ops:  G:name=b,name=b:T|F   C:src   E:e:name=b,…:T|F   R:e:name                             *)
Definition parse_vals (s : string) : list (string * binding) :=
  somes (map (fun kv => match split_eq kv with
                        | Some (k, v) => match nat_of_dec v with Some n => Some (k, n) | None => None end
                        | None => None end)
             (if seqb s "" then [] else ssplit_char "," s)).
(* R and E/C share arities: dispatch on the tag first *)
Definition parse_op' (s : string) : option op :=
  match ssplit_char ":" s with
  | k :: rest =>
      if seqb k "G" then match rest with [vals; ok] => Some (OpRegisterGlobal (parse_vals vals) (seqb ok "T")) | _ => None end
      else if seqb k "C" then match rest with [a] => option_map OpCompile (nat_of_dec a) | _ => None end
      else if seqb k "E" then match rest with
                              | [e; vals; ok] => option_map (fun n => OpRegisterExpr n (parse_vals vals) (seqb ok "T")) (nat_of_dec e)
                              | _ => None end
      else if seqb k "R" then match rest with [e; name] => option_map (fun n => OpResolve n name) (nat_of_dec e) | _ => None end
      else None
  | [] => None
  end.
Definition obs_enc (o : obs) : string :=
  match o with
  | ONone => "-"
  | ORejected => "rej"
  | ONoSuchExpr => "noexpr"
  | OResolved (RRegistered b) => "reg" ++ string_of_nat b
  | OResolved RTime => "time"
  | OResolved RBuiltin => "builtin"
  | OResolved RUnbound => "unbound"
  end%string.
Definition run_hist_case (line : string) : string :=
  match fields line with
  | id :: _ :: opsw :: _ =>
      let ops := map parse_op' (if seqb opsw "" then [] else ssplit_char ";" opsw) in
      if forallb (fun o => match o with Some _ => true | None => false end) ops then
        (id ++ "|" ++ sjoin ";" (map obs_enc (snd (proc_run is_builtin_name proc_init (somes ops)))))%string
      else (id ++ "|X bad-history")%string
  | _ => "?|X bad-line"%string
  end.

Definition run_line_all (line : string) : string :=
  match fields line with
  | _ :: kind :: _ =>
      if seqb kind "P" then run_parse_case line
      else if seqb kind "X" then run_ext_case line
      else if seqb kind "H" then run_hist_case line
      else run_case line
  | _ => "?|X bad-line"%string
  end.
