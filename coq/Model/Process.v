(* Model/Process.v — what a Go process keeps between evaluations (jsonata.go): the package-level
   registry (RegisterExts / RegisterVars), the compiled expressions with the registry snapshot
   taken by Compile and their own registrations, and the environment assembly order of
   Expr.newEnv (base environment, then time callables, then the expression's registry).
   Also the registration-time validation of extension shapes (callable.go). *)
From JV Require Export Model.Builtins.
Local Open Scope nat_scope.
Local Open Scope list_scope.

(* ---- registration-time validation (validateGoCallableFunc / validateGoCallableParams,
   validName) ---- *)
Record ext_shape := mkShape {
  es_params : list gparam;
  es_variadic : bool;
  es_nout : nat;                 (* number of results *)
  es_second_is_error : bool      (* the second result implements error *)
}.

Definition valid_func (s : ext_shape) : bool :=
  match es_nout s with
  | 1 => true
  | 2 => es_second_is_error s
  | _ => false
  end.

(* a non-optional parameter cannot follow an optional one; an optional parameter cannot be the
   variadic one; variants need at least two valid types *)
Fixpoint valid_params_from (ps : list gparam) (variadic : bool) (seen_opt : bool) : bool :=
  match ps with
  | [] => true
  | p :: r =>
      let last := match r with [] => true | _ => false end in
      match p with
      | GOpt _ => negb (variadic && last) && valid_params_from r variadic true
      | GVariant ts => negb seen_opt && (2 <=? List.length ts) && valid_params_from r variadic seen_opt
      | GP _ => negb seen_opt && valid_params_from r variadic seen_opt
      end
  end.
Definition valid_shape (s : ext_shape) : bool :=
  valid_func s && valid_params_from (es_params s) (es_variadic s) false.

(* validName: non-empty, letters / digits / underscore (ASCII part; non-ASCII letters and
   digits are decided by the unicode tables of the Go distribution and are not modelled) *)
Definition name_char_ok (c : ascii) : bool :=
  let b := byte_of c in
  (((97 <=? b) && (b <=? 122)) || ((65 <=? b) && (b <=? 90)) || ((48 <=? b) && (b <=? 57)) || (b =? 95))%Z.
Definition valid_name (s : string) : bool :=
  negb (seqb s "") && forallb name_char_ok (list_of_string s).

(* ---- the registry state machine ---- *)
(* a registered thing is identified by a token chosen by the history (which Go function /
   which variable value was registered) *)
Definition binding := nat.
Definition registry := list (string * binding).

Record expr_state := mkExpr { ex_src : nat;            (* which source text was compiled *)
                              ex_registry : registry }. (* Compile's snapshot, then own registrations *)
Record proc := mkProc { p_global : registry; p_exprs : list expr_state }.

Definition proc_init : proc := mkProc [] [].

Fixpoint reg_set (name : string) (b : binding) (r : registry) : registry :=
  match r with
  | [] => [(name, b)]
  | (n, x) :: t => if seqb n name then (name, b) :: t else (n, x) :: reg_set name b t
  end.
Definition reg_update (r : registry) (vals : list (string * binding)) : registry :=
  fold_left (fun acc nb => reg_set (fst nb) (snd nb) acc) vals r.
Fixpoint reg_get (name : string) (r : registry) : option binding :=
  match r with
  | [] => None
  | (n, x) :: t => if seqb n name then Some x else reg_get name t
  end.

Inductive op :=
| OpRegisterGlobal (vals : list (string * binding)) (ok : bool)   (* ok = every name and shape is valid *)
| OpCompile (src : nat)                                           (* appends an expression *)
| OpRegisterExpr (e : nat) (vals : list (string * binding)) (ok : bool)
| OpResolve (e : nat) (name : string).                            (* an evaluation of expression e looks $name up *)

(* what a lookup of $name resolves to *)
Inductive resolution :=
| RRegistered (b : binding)   (* the expression's registry (own registration or Compile's snapshot) *)
| RTime                       (* $millis / $now of this evaluation *)
| RBuiltin                    (* baseEnv *)
| RUnbound.

Definition resolve (is_builtin : string -> bool) (e : expr_state) (name : string) : resolution :=
  (* newEnv binds the time callables and then the registry into one frame (the registry last, so
     it wins), whose parent is baseEnv *)
  match reg_get name (ex_registry e) with
  | Some b => RRegistered b
  | None => if seqb name "millis" || seqb name "now" then RTime
            else if is_builtin name then RBuiltin else RUnbound
  end.

Inductive obs := ONone | ORejected | OResolved (r : resolution) | ONoSuchExpr.

Definition list_set {A} (n : nat) (x : A) (l : list A) : list A :=
  firstn n l ++ match skipn n l with [] => [] | _ :: t => x :: t end.

Definition proc_step (is_builtin : string -> bool) (p : proc) (o : op) : proc * obs :=
  match o with
  | OpRegisterGlobal vals ok =>
      if ok then (mkProc (reg_update (p_global p) vals) (p_exprs p), ONone)
      else (p, ORejected)                         (* an invalid registration changes nothing *)
  | OpCompile src =>
      (mkProc (p_global p) (p_exprs p ++ [mkExpr src (reg_update [] (p_global p))]), ONone)
  | OpRegisterExpr e vals ok =>
      match nth_error (p_exprs p) e with
      | None => (p, ONoSuchExpr)
      | Some ex =>
          if ok then (mkProc (p_global p) (list_set e (mkExpr (ex_src ex) (reg_update (ex_registry ex) vals)) (p_exprs p)), ONone)
          else (p, ORejected)
      end
  | OpResolve e name =>
      match nth_error (p_exprs p) e with
      | None => (p, ONoSuchExpr)
      | Some ex => (p, OResolved (resolve is_builtin ex name))
      end
  end.

Fixpoint proc_run (is_builtin : string -> bool) (p : proc) (ops : list op) : proc * list obs :=
  match ops with
  | [] => (p, [])
  | o :: r => let '(p1, ob) := proc_step is_builtin p o in
              let '(p2, obs) := proc_run is_builtin p1 r in (p2, ob :: obs)
  end.

Definition is_builtin_name (name : string) : bool :=
  match builtin_sig name with Some _ => true | None => false end.
