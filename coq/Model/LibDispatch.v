(* Model/LibDispatch.v — binds the pure library models (strings, numbers, dates) to the
   evaluator's built-in names, on converted arguments.  None = not modelled. *)
From JV Require Import Model.Eval Base.Decimal.
From JV Require Import Model.LibString Model.LibNumber Model.LibFormatNumber Model.LibNumberInst
     Model.LibDate Model.LibFormatDate.
Local Open Scope string_scope.
Local Open Scope list_scope.

Definition ok_str (r : lres string) : lres ovalue := lmap (fun s => Some (VStr s)) r.
Definition ok_num (r : lres f64) : lres ovalue := lmap (fun x => Some (VNum x)) r.

Definition opt_int_arg (a : carg) : option (option Z) :=
  match a with AOpt None => Some None | AOpt (Some (AInt z)) => Some (Some z) | _ => None end.
Definition opt_str_arg (a : carg) : option (option string) :=
  match a with AOpt None => Some None | AOpt (Some (AStr s)) => Some (Some s) | _ => None end.

(* formatInteger of formatdate.go: FormatNumber(float64(n), layout, defaultDecimalFormat) *)
Definition format_integer (n : Z) (layout : string) : lres string :=
  go_format_number format_number_fuel (f_of_Z n) layout default_decimal_format.

Definition string_options (v : value) : lres (list (string * string)) :=
  match v with
  | VObj m =>
      if forallb (fun kv => match snd kv with VStr _ => true | _ => false end) m
      then LOk (map (fun kv => (fst kv, match snd kv with VStr s => s | _ => "" end)) m)
      else LErr "formatNumber: options must be a map of strings to strings"
  | _ => LErr "formatNumber: options must be a map"
  end.

(* env.go maxPadWidth = maxRangeItems *)
Definition max_pad_width : Z := 10000000.

Section Dispatch.
  (* strings.ToUpper / strings.ToLower of a whole string, from the oracle table *)
  Variable upper_fn lower_fn : string -> option string.

  Definition need (q : string) : lres ovalue := LErr ("NEED:" ++ q).

  Definition xlib (name : string) (args : list carg) : option (lres ovalue) :=
    let is := seqb name in
    if is "substring" then
      match args with
      | [AStr s; AInt st; l] =>
          match opt_int_arg l with Some len => Some (ok_str (substring s st len)) | None => None end
      | _ => None
      end
    else if is "substringBefore" then
      match args with [AStr s; AStr t] => Some (LOk (Some (VStr (substring_before s t)))) | _ => None end
    else if is "substringAfter" then
      match args with [AStr s; AStr t] => Some (LOk (Some (VStr (substring_after s t)))) | _ => None end
    else if is "uppercase" then
      match args with
      | [AStr s] => Some (match upper_fn s with Some r => LOk (Some (VStr r)) | None => need ("UP:" ++ hex_of_string s) end)
      | _ => None
      end
    else if is "lowercase" then
      match args with
      | [AStr s] => Some (match lower_fn s with Some r => LOk (Some (VStr r)) | None => need ("LOW:" ++ hex_of_string s) end)
      | _ => None
      end
    else if is "pad" then
      match args with
      | [AStr s; AInt w; c] =>
          match opt_str_arg c with
          | Some ch => Some (if (max_pad_width <? Z.abs w)%Z then LErr "pad: the second argument is out of range"
                             else ok_str (pad s w ch))
          | None => None
          end
      | _ => None
      end
    else if is "trim" then
      match args with [AStr s] => Some (LOk (Some (VStr (trim s)))) | _ => None end
    else if is "contains" then
      match args with [AStr s; AStr p] => Some (LOk (Some (VBool (contains_str s p)))) | _ => None end
    else if is "split" then
      match args with
      | [AStr s; AStr sep; l] =>
          match opt_int_arg l with
          | Some lim => Some (lmap (fun parts => Some (VArr (map VStr parts))) (split_str s sep lim))
          | None => None
          end
      | _ => None
      end
    else if is "replace" then
      match args with
      | [AStr src; AStr pat; repl; l] =>
          match opt_int_arg l with
          | Some lim =>
              if (match lim with Some z => z <? 0 | None => false end)%Z
              then Some (LErr "replace: limit")
              else match repl with
                   | AStr r => Some (ok_str (replace src pat r lim))
                   | _ => Some (if seqb pat "" then LErr "replace: empty pattern"
                                else LErr "replace: third argument must be a string when pattern is a string")
                   end
          | None => None
          end
      | _ => None
      end
    else if is "expandReplaceString" then
      match args with
      | [AStr s; AStr m; AVal (Some (VArr gs))] =>
          Some (ok_str (expand_replace_string s m (somes (map str_of gs))))
      | _ => None
      end
    else if is "base64encode" then
      match args with [AStr s] => Some (LOk (Some (VStr (base64_encode s)))) | _ => None end
    else if is "base64decode" then
      match args with [AStr s] => Some (ok_str (base64_decode s)) | _ => None end
    else if is "encodeUrlComponent" then
      match args with [AStr s] => Some (ok_str (encode_url_component s)) | _ => None end
    else if is "decodeUrlComponent" then
      match args with [AStr s] => Some (ok_str (decode_url s)) | _ => None end
    else if is "decodeUrl" then
      match args with [AStr s] => Some (ok_str (decode_url s)) | _ => None end
    else if is "number" then
      match args with
      | [ABool b] => Some (LOk (Some (VNum (number_of_bool b))))
      | [AFloat x] => Some (LOk (Some (VNum x)))
      | [AStr s] => Some (ok_num (go_number_of_string s))
      | _ => None
      end
    else if is "round" then
      match args with
      | [AFloat x; p] =>
          match opt_int_arg p with Some pr => Some (LOk (Some (VNum (go_round x pr)))) | None => None end
      | _ => None
      end
    else if is "formatBase" then
      match args with
      | [AFloat x; AOpt None] => Some (ok_str (go_format_base x None))
      | [AFloat x; AOpt (Some (AFloat b))] => Some (ok_str (go_format_base x (Some b)))
      | _ => None
      end
    else if is "formatNumber" then
      match args with
      | [AFloat x; AStr pic; AOpt None] =>
          Some (ok_str (go_lib_format_number format_number_fuel x pic None))
      | [AFloat x; AStr pic; AOpt (Some (AVal (Some ov)))] =>
          Some (match string_options ov with
                | LOk opts => ok_str (go_lib_format_number format_number_fuel x pic (Some opts))
                | LErr t => LErr t
                | _ => LErr "formatNumber: options"
                end)
      | _ => None
      end
    else if is "fromMillis" then
      match args with
      | [AInt ms; p; t] =>
          match opt_str_arg p, opt_str_arg t with
          | Some pic, Some tz => Some (ok_str (from_millis format_integer ms pic tz))
          | _, _ => None
          end
      | _ => None
      end
    else if is "toMillis" then
      match args with
      | [AStr s; p; t] =>
          match opt_str_arg p, opt_str_arg t with
          | Some pic, Some tz => Some (lmap (fun z => Some (VNum (f_of_Z z))) (to_millis format_integer s pic tz))
          | _, _ => None
          end
      | _ => None
      end
    else None.
End Dispatch.
