(* Model/Lexer.v — byte-level transcription of /repo/jparse/lexer.go (current working tree,
   i.e. including the three "fix:" commits) together with the error record of error.go.

   Conventions
   * Go strings are Coq [string]s (bytes); positions are [Z] so that [current] can leave the
     range [0, length] exactly the way the Go [int] could.  Every Go slice expression is
     guarded by an explicit bounds test that yields [RPanic].
   * All lexer methods are state transformers [LM A := lexer -> res (A * lexer)].
   * Every Go loop takes a [fuel : nat]; running out of fuel yields [RFuel].  Fuel
     [remaining bytes + 2] is always enough (Proofs/LexerProofs.v). *)
From JV Require Export Base.Bytes Base.Utf8.
Open Scope Z_scope.

(* ---------------------------------------------------------------- errors (error.go) *)

(* jparse.Error: Type (numeric value of jparse.ErrType), Token, Hint, Position *)
Record perror := { etype : nat; etoken : string; ehint : string; epos : Z }.

Definition ErrSyntaxError : nat := 1.        Definition ErrUnexpectedEOF : nat := 2.
Definition ErrUnexpectedToken : nat := 3.    Definition ErrMissingToken : nat := 4.
Definition ErrPrefix : nat := 5.             Definition ErrInfix : nat := 6.
Definition ErrUnterminatedString : nat := 7. Definition ErrUnterminatedRegex : nat := 8.
Definition ErrUnterminatedName : nat := 9.   Definition ErrIllegalEscape : nat := 10.
Definition ErrIllegalEscapeHex : nat := 11.  Definition ErrInvalidNumber : nat := 12.
Definition ErrNumberRange : nat := 13.       Definition ErrEmptyRegex : nat := 14.
Definition ErrInvalidRegex : nat := 15.      Definition ErrGroupPredicate : nat := 16.
Definition ErrGroupGroup : nat := 17.        Definition ErrPathLiteral : nat := 18.
Definition ErrIllegalAssignment : nat := 19. Definition ErrIllegalParam : nat := 20.
Definition ErrDuplicateParam : nat := 21.    Definition ErrParamCount : nat := 22.
Definition ErrInvalidUnionType : nat := 23.  Definition ErrUnmatchedOption : nat := 24.
Definition ErrUnmatchedSubtype : nat := 25.  Definition ErrInvalidSubtype : nat := 26.
Definition ErrInvalidParamType : nat := 27.

(* outcome of anything that can fail: a value, a typed jparse.Error (returned or thrown with
   panic of a jparse.Error pointer and recovered by Parse), any other Go panic, or fuel exhaustion *)
Inductive res (A : Type) := ROk (a : A) | RErr (e : perror) | RPanic (why : string) | RFuel.
Arguments ROk {A} a.
Arguments RErr {A} e.
Arguments RPanic {A} why.
Arguments RFuel {A}.

Definition rbind {A B} (m : res A) (k : A -> res B) : res B :=
  match m with
  | ROk a => k a
  | RErr e => RErr e
  | RPanic w => RPanic w
  | RFuel => RFuel
  end.

(* state-and-failure monad, used for the lexer (state = lexer) and the parser (state = parser) *)
Definition SM (S A : Type) := S -> res (A * S).
Definition sret {S A} (a : A) : SM S A := fun s => ROk (a, s).
Definition sbind {S A B} (m : SM S A) (k : A -> SM S B) : SM S B :=
  fun s => match m s with
           | ROk (a, s') => k a s'
           | RErr e => RErr e
           | RPanic w => RPanic w
           | RFuel => RFuel
           end.
Definition sfail {S A} (r : res A) : SM S A :=
  fun s => match r with ROk a => ROk (a, s) | RErr e => RErr e | RPanic w => RPanic w | RFuel => RFuel end.

Declare Scope sm_scope.
Delimit Scope sm_scope with sm.
Notation "'do' x <- m ; k" := (sbind m (fun x => k))
  (at level 200, x name, m at level 100, k at level 200, right associativity) : sm_scope.
Notation "'do' ' ( x , y ) <- m ; k" := (sbind m (fun xy => let '(x, y) := xy in k))
  (at level 200, x name, y name, m at level 100, k at level 200, right associativity) : sm_scope.
Notation "m ;; k" := (sbind m (fun _ => k))
  (at level 100, k at level 200, right associativity) : sm_scope.
Open Scope sm_scope.

(* ---------------------------------------------------------------- token types *)

(* jparse.tokenType, same order (iota): typeEOF = 0 ... typeIn = 41 *)
Inductive tokentype :=
| typeEOF | typeError
| typeString | typeNumber | typeBoolean | typeNull | typeName | typeNameEsc | typeVariable | typeRegex
| typeBracketOpen | typeBracketClose | typeBraceOpen | typeBraceClose | typeParenOpen | typeParenClose
| typeDot | typeComma | typeColon | typeSemicolon | typeCondition | typePlus | typeMinus | typeMult
| typeDiv | typeMod | typePipe | typeEqual | typeNotEqual | typeLess | typeLessEqual | typeGreater
| typeGreaterEqual | typeApply | typeSort | typeConcat | typeRange | typeAssign | typeDescendent
| typeAnd | typeOr | typeIn.

Definition tt_num (t : tokentype) : nat :=
  match t with
  | typeEOF => 0 | typeError => 1
  | typeString => 2 | typeNumber => 3 | typeBoolean => 4 | typeNull => 5 | typeName => 6
  | typeNameEsc => 7 | typeVariable => 8 | typeRegex => 9
  | typeBracketOpen => 10 | typeBracketClose => 11 | typeBraceOpen => 12 | typeBraceClose => 13
  | typeParenOpen => 14 | typeParenClose => 15
  | typeDot => 16 | typeComma => 17 | typeColon => 18 | typeSemicolon => 19 | typeCondition => 20
  | typePlus => 21 | typeMinus => 22 | typeMult => 23 | typeDiv => 24 | typeMod => 25 | typePipe => 26
  | typeEqual => 27 | typeNotEqual => 28 | typeLess => 29 | typeLessEqual => 30 | typeGreater => 31
  | typeGreaterEqual => 32 | typeApply => 33 | typeSort => 34 | typeConcat => 35 | typeRange => 36
  | typeAssign => 37 | typeDescendent => 38
  | typeAnd => 39 | typeOr => 40 | typeIn => 41
  end%nat.

Definition tt_eqb (a b : tokentype) : bool := Nat.eqb (tt_num a) (tt_num b).
(* Go's "tt > 0" *)
Definition tt_pos (t : tokentype) : bool := negb (tt_eqb t typeEOF).

(* a rune constant written as a character *)
Definition ch (c : ascii) : rune := byte_of c.
Arguments ch c%char.

Definition eof : rune := -1.

(* symbols1 / lookupSymbol1: the array has length '}'+1 = 126; unset entries are 0 = typeEOF *)
Definition symbol1Count : Z := 126.
Definition symbols1 (r : rune) : tokentype :=
  if r =? ch "[" then typeBracketOpen else if r =? ch "]" then typeBracketClose
  else if r =? ch "{" then typeBraceOpen else if r =? ch "}" then typeBraceClose
  else if r =? ch "(" then typeParenOpen else if r =? ch ")" then typeParenClose
  else if r =? ch "." then typeDot else if r =? ch "," then typeComma
  else if r =? ch ";" then typeSemicolon else if r =? ch ":" then typeColon
  else if r =? ch "?" then typeCondition else if r =? ch "+" then typePlus
  else if r =? ch "-" then typeMinus else if r =? ch "*" then typeMult
  else if r =? ch "/" then typeDiv else if r =? ch "%" then typeMod
  else if r =? ch "|" then typePipe else if r =? ch "=" then typeEqual
  else if r =? ch "<" then typeLess else if r =? ch ">" then typeGreater
  else if r =? ch "^" then typeSort else if r =? ch "&" then typeConcat
  else typeEOF.
Definition lookupSymbol1 (r : rune) : tokentype :=
  if (r <? 0) || (symbol1Count <=? r) then typeEOF else symbols1 r.

(* symbols2 / lookupSymbol2: array of length '~'+1 = 127; a nil slice is modelled by [] (every
   non-nil entry has exactly one element, so "rts != nil" is "rts <> []") *)
Definition symbol2Count : Z := 127.
Definition symbols2 (r : rune) : list (rune * tokentype) :=
  if r =? ch "!" then [(ch "=", typeNotEqual)]
  else if r =? ch "<" then [(ch "=", typeLessEqual)]
  else if r =? ch ">" then [(ch "=", typeGreaterEqual)]
  else if r =? ch "." then [(ch ".", typeRange)]
  else if r =? ch "~" then [(ch ">", typeApply)]
  else if r =? ch ":" then [(ch "=", typeAssign)]
  else if r =? ch "*" then [(ch "*", typeDescendent)]
  else [].
Definition lookupSymbol2 (r : rune) : list (rune * tokentype) :=
  if (r <? 0) || (symbol2Count <=? r) then [] else symbols2 r.
Definition is_nil {A} (l : list A) : bool := match l with [] => true | _ => false end.

Definition lookupKeyword (s : string) : tokentype :=
  if seqb s "and" then typeAnd
  else if seqb s "or" then typeOr
  else if seqb s "in" then typeIn
  else if seqb s "true" || seqb s "false" then typeBoolean
  else if seqb s "null" then typeNull
  else typeEOF.

(* tokenType.String() *)
Definition tt_string (t : tokentype) : string :=
  match t with
  | typeEOF => "(eof)" | typeError => "(error)" | typeString => "(string)" | typeNumber => "(number)"
  | typeBoolean => "(boolean)" | typeName | typeNameEsc => "(name)" | typeVariable => "(variable)"
  | typeRegex => "(regex)"
  (* default: symbolsAndKeywords *)
  | typeNull => "null" | typeAnd => "and" | typeOr => "or" | typeIn => "in"
  | typeBracketOpen => "[" | typeBracketClose => "]" | typeBraceOpen => "{" | typeBraceClose => "}"
  | typeParenOpen => "(" | typeParenClose => ")" | typeDot => "." | typeComma => ","
  | typeColon => ":" | typeSemicolon => ";" | typeCondition => "?" | typePlus => "+"
  | typeMinus => "-" | typeMult => "*" | typeDiv => "/" | typeMod => "%" | typePipe => "|"
  | typeEqual => "=" | typeLess => "<" | typeGreater => ">" | typeSort => "^" | typeConcat => "&"
  | typeNotEqual => "!=" | typeLessEqual => "<=" | typeGreaterEqual => ">=" | typeRange => ".."
  | typeApply => "~>" | typeAssign => ":=" | typeDescendent => "**"
  end.

Record token := { ttype : tokentype; tvalue : string; tpos : Z }.

Definition mkError (typ : nat) (tok : token) (hint : string) : perror :=
  {| etype := typ; etoken := tvalue tok; ehint := hint; epos := tpos tok |}.

(* ---------------------------------------------------------------- lexer state *)

Record lexer := { input : string; start : Z; current : Z; width : Z; err : option perror }.

Definition LM (A : Type) := SM lexer A.

Definition llength (l : lexer) : Z := Z.of_nat (slen (input l)).

Definition newLexer (src : string) : lexer :=
  {| input := src; start := 0; current := 0; width := 0; err := None |}.

Definition set_start (v : Z) (l : lexer) : lexer :=
  {| input := input l; start := v; current := current l; width := width l; err := err l |}.
Definition set_current (v : Z) (l : lexer) : lexer :=
  {| input := input l; start := start l; current := v; width := width l; err := err l |}.
Definition set_width (v : Z) (l : lexer) : lexer :=
  {| input := input l; start := start l; current := current l; width := v; err := err l |}.
Definition set_err (e : option perror) (l : lexer) : lexer :=
  {| input := input l; start := start l; current := current l; width := width l; err := e |}.

Definition is_some {A} (o : option A) : bool := match o with Some _ => true | None => false end.

(* func (l *lexer) nextRune() rune *)
Definition nextRune : LM rune := fun l =>
  if is_some (err l) || (llength l <=? current l) then ROk (eof, set_width 0 l)
  else if current l <? 0 then RPanic "nextRune: slice bounds out of range [current:]"
  else let '(r, w) := decode_rune (sdrop (Z.to_nat (current l)) (input l)) in
       ROk (r, set_current (current l + Z.of_nat w) (set_width (Z.of_nat w) l)).

(* func (l *lexer) backup() *)
Definition backup : LM unit := fun l => ROk (tt, set_current (current l - width l) l).

(* func (l *lexer) ignore() *)
Definition ignore : LM unit := fun l => ROk (tt, set_start (current l) l).

(* func (l *lexer) accept(isValid func(rune) bool) bool *)
Definition accept (isValid : rune -> bool) : LM bool :=
  do r <- nextRune;
  if isValid r then sret true else (backup ;; sret false).

Definition acceptRune (r : rune) : LM bool := accept (fun c => c =? r).
Definition acceptRunes2 (r1 r2 : rune) : LM bool := accept (fun c => (c =? r1) || (c =? r2)).

(* func (l *lexer) acceptAll(isValid func(rune) bool) bool :  for l.accept(isValid) { b = true } *)
Fixpoint acceptAllLoop (fuel : nat) (isValid : rune -> bool) (b : bool) : LM bool :=
  match fuel with
  | O => fun _ => RFuel
  | S f => do ok <- accept isValid;
           if ok then acceptAllLoop f isValid true else sret b
  end.
Definition acceptAll (fuel : nat) (isValid : rune -> bool) : LM bool := acceptAllLoop fuel isValid false.

Definition isWhitespace (r : rune) : bool :=
  (r =? ch " ") || (r =? 9) || (r =? 10) || (r =? 13) || (r =? 11).
Definition isRegexFlag (r : rune) : bool := (r =? ch "i") || (r =? ch "m") || (r =? ch "s").
Definition isDigit (r : rune) : bool := (ch "0" <=? r) && (r <=? ch "9").
Definition isNonZeroDigit (r : rune) : bool := (ch "1" <=? r) && (r <=? ch "9").

Definition skipWhitespace (fuel : nat) : LM unit := acceptAll fuel isWhitespace ;; ignore.

(* func (l *lexer) newToken(tt tokenType) token — l.input[l.start:l.current] panics unless
   0 <= start <= current <= len(input) *)
Definition newToken (ty : tokentype) : LM token := fun l =>
  if (0 <=? start l) && (start l <=? current l) && (current l <=? llength l) then
    ROk ({| ttype := ty;
            tvalue := sslice (Z.to_nat (start l)) (Z.to_nat (current l)) (input l);
            tpos := start l |},
         set_start (current l) (set_width 0 l))
  else RPanic "newToken: slice bounds out of range [start:current]".

(* func (l *lexer) eof() token *)
Definition eofToken : LM token := fun l =>
  ROk ({| ttype := typeEOF; tvalue := ""; tpos := current l |}, l).

(* func (l *lexer) error(typ ErrType, hint string) token *)
Definition lexError (typ : nat) (hint : string) : LM token :=
  do t <- newToken typeError;
  fun l => ROk (t, set_err (Some (mkError typ t hint)) l).

(* the "Loop:" of scanRegex.  Result None: left the loop through "break Loop";
   Some t: the function returned the (error) token t from inside the loop *)
Fixpoint scanRegexLoop (fuel : nat) (delim : rune) (depth : Z) : LM (option token) :=
  match fuel with
  | O => fun _ => RFuel
  | S f =>
      do r <- nextRune;
      if r =? delim then
        (if depth =? 0 then sret None else scanRegexLoop f delim depth)
      else if (r =? ch "(") || (r =? ch "[") || (r =? ch "{") then scanRegexLoop f delim (depth + 1)
      else if (r =? ch ")") || (r =? ch "]") || (r =? ch "}") then scanRegexLoop f delim (depth - 1)
      else if r =? ch "\" then
        (do r2 <- nextRune;
         if negb (r2 =? eof) && negb (r2 =? 10) then scanRegexLoop f delim depth
         else (* fallthrough *)
           do t <- lexError ErrUnterminatedRegex (encode_rune delim); sret (Some t))
      else if (r =? eof) || (r =? 10) then
        (do t <- lexError ErrUnterminatedRegex (encode_rune delim); sret (Some t))
      else scanRegexLoop f delim depth
  end.

Definition set_tvalue (v : string) (t : token) : token :=
  {| ttype := ttype t; tvalue := v; tpos := tpos t |}.
Definition set_ttype (ty : tokentype) (t : token) : token :=
  {| ttype := ty; tvalue := tvalue t; tpos := tpos t |}.

(* func (l *lexer) scanRegex(delim rune) token *)
Definition scanRegex (fuel : nat) (delim : rune) : LM token :=
  do brk <- scanRegexLoop fuel delim 0;
  match brk with
  | Some t => sret t
  | None =>
      backup ;;
      do t <- newToken typeRegex;
      do _a <- acceptRune delim;
      ignore ;;
      do hasFlags <- acceptAll fuel isRegexFlag;
      if hasFlags then
        do flags <- newToken typeEOF;
        sret (set_tvalue ("(?" ++ tvalue flags ++ ")" ++ tvalue t) t)
      else sret t
  end.

Fixpoint scanStringLoop (fuel : nat) (quote : rune) : LM (option token) :=
  match fuel with
  | O => fun _ => RFuel
  | S f =>
      do r <- nextRune;
      if r =? quote then sret None
      else if r =? ch "\" then
        (do r2 <- nextRune;
         if negb (r2 =? eof) then scanStringLoop f quote
         else do t <- lexError ErrUnterminatedString (encode_rune quote); sret (Some t))
      else if r =? eof then
        (do t <- lexError ErrUnterminatedString (encode_rune quote); sret (Some t))
      else scanStringLoop f quote
  end.

(* func (l *lexer) scanString(quote rune) token *)
Definition scanString (fuel : nat) (quote : rune) : LM token :=
  do brk <- scanStringLoop fuel quote;
  match brk with
  | Some t => sret t
  | None =>
      backup ;;
      do t <- newToken typeString;
      do _a <- acceptRune quote;
      ignore ;;
      sret t
  end.

(* func (l *lexer) scanNumber() token *)
Definition scanNumber (fuel : nat) : LM token :=
  do z <- acceptRune (ch "0");
  (if negb z then (do _a <- accept isNonZeroDigit; do _b <- acceptAll fuel isDigit; sret tt)
   else sret tt) ;;
  do pos <- (fun l => ROk (current l, l));
  do dot <- acceptRune (ch ".");
  let rest : LM token :=
    do e <- acceptRunes2 (ch "e") (ch "E");
    (if e then (do _a <- acceptRunes2 (ch "+") (ch "-"); do _b <- acceptAll fuel isDigit; sret tt)
     else sret tt) ;;
    newToken typeNumber in
  if dot then
    do digits <- acceptAll fuel isDigit;
    if negb digits then
      (fun l => ROk (tt, set_current pos l)) ;;
      newToken typeNumber
    else rest
  else rest.

Fixpoint scanEscapedNameLoop (fuel : nat) (quote : rune) : LM (option token) :=
  match fuel with
  | O => fun _ => RFuel
  | S f =>
      do r <- nextRune;
      if r =? quote then sret None
      else if (r =? eof) || (r =? 10) then
        (do t <- lexError ErrUnterminatedName (encode_rune quote); sret (Some t))
      else scanEscapedNameLoop f quote
  end.

(* func (l *lexer) scanEscapedName(quote rune) token *)
Definition scanEscapedName (fuel : nat) (quote : rune) : LM token :=
  do brk <- scanEscapedNameLoop fuel quote;
  match brk with
  | Some t => sret t
  | None =>
      backup ;;
      do t <- newToken typeNameEsc;
      do _a <- acceptRune quote;
      ignore ;;
      sret t
  end.

(* for first := !isVar; ; first = false { ... } of scanName *)
Fixpoint scanNameLoop (fuel : nat) (first : bool) : LM unit :=
  match fuel with
  | O => fun _ => RFuel
  | S f =>
      do c <- nextRune;
      if c =? eof then sret tt
      else if isWhitespace c then backup
      else if negb first && (tt_pos (lookupSymbol1 c) || negb (is_nil (lookupSymbol2 c))) then backup
      else scanNameLoop f false
  end.

(* func (l *lexer) scanName() token *)
Definition scanName (fuel : nat) : LM token :=
  do isVar <- acceptRune (ch "$");
  (if isVar then ignore else sret tt) ;;
  scanNameLoop fuel (negb isVar) ;;
  do t <- newToken typeName;
  if isVar then sret (set_ttype typeVariable t)
  else let kw := lookupKeyword (tvalue t) in
       if tt_pos kw then sret (set_ttype kw t) else sret t.

(* for _, rt := range rts { if l.acceptRune(rt.r) { return l.newToken(rt.tt) } } *)
Fixpoint trySymbols2 (rts : list (rune * tokentype)) : LM (option token) :=
  match rts with
  | [] => sret None
  | (r, ty) :: rest =>
      do ok <- acceptRune r;
      if ok then (do t <- newToken ty; sret (Some t)) else trySymbols2 rest
  end.

(* func (l *lexer) next(allowRegex bool) token *)
Definition next (fuel : nat) (allowRegex : bool) : LM token :=
  skipWhitespace fuel ;;
  do c <- nextRune;
  if c =? eof then eofToken
  else if allowRegex && (c =? ch "/") then (ignore ;; scanRegex fuel c)
  else
    do two <- trySymbols2 (lookupSymbol2 c);
    match two with
    | Some t => sret t
    | None =>
        let tt1 := lookupSymbol1 c in
        if tt_pos tt1 then newToken tt1
        else if (c =? ch """") || (c =? ch "'") then (ignore ;; scanString fuel c)
        else if (ch "0" <=? c) && (c <=? ch "9") then (backup ;; scanNumber fuel)
        else if c =? ch "`" then (ignore ;; scanEscapedName fuel c)
        else ((fun l => ROk (tt, set_current (start l) l)) ;; scanName fuel)
    end.

(* fuel that is always sufficient for one call of [next] (LexerProofs.next_total) *)
Definition lex_fuel (l : lexer) : nat := S (S (slen (input l))).

(* all tokens of a string, for tests: (allowRegex is what the parser would pass is unknown here,
   so the flag is a parameter) *)
Fixpoint lex_all (n : nat) (allowRegex : bool) (l : lexer) : list token * option (res unit) :=
  match n with
  | O => ([], Some RFuel)
  | S n' =>
      match next (lex_fuel l) allowRegex l with
      | ROk (t, l') =>
          match ttype t with
          | typeEOF => ([t], None)
          | typeError => ([t], match err l' with Some e => Some (RErr e) | None => None end)
          | _ => let '(ts, r) := lex_all n' allowRegex l' in (t :: ts, r)
          end
      | RErr e => ([], Some (RErr e))
      | RPanic w => ([], Some (RPanic w))
      | RFuel => ([], Some RFuel)
      end
  end.
