(* Model/Builtins.v — the built-in function table of env.go (signatures as the Go functions
   declare them, undefined/context handlers as baseEnv binds them) and the JSON-level model
   of goCallable argument processing (callable.go validateArgCount / validateArgTypes /
   processGoCallableArg).  The table is cross-checked on every run against the table that
   the `verif` hook dumps from the running implementation by reflection (Gen/Builtins.v). *)
From JV Require Export Model.Ops.
Local Open Scope nat_scope.

(* Go parameter types that occur in baseEnv (and in the C20 extension universe) *)
Inductive gtype :=
| GIface          (* interface{} *)
| GValue          (* reflect.Value *)
| GString | GInt | GInt64 | GFloat | GBool
| GCallable       (* jtypes.Callable *)
| GUint8 | GBytes | GSliceIface | GMapIface.   (* C20 universe only *)

Inductive gparam :=
| GP (t : gtype)
| GOpt (t : gtype)               (* jtypes.Optional* with underlying type t *)
| GVariant (ts : list gtype).    (* jtypes.Variant with ValidTypes ts (in order) *)

Inductive uhandler := UNone | UArg0 | UAppend.
Inductive chandler :=
| CNone | CArgc0 | CArgc1 | CSubstring | CBeforeAfter | CPad | CSplit | CMatchH | CReplace
| CFormatNumber.

Record bsig := mkSig { bs_params : list gparam; bs_variadic : bool;
                       bs_undef : uhandler; bs_ctx : chandler }.

Definition SNB := GVariant [GBool; GString; GFloat].     (* jlib.StringNumberBool *)
Definition SC := GVariant [GString; GCallable].          (* jlib.StringCallable *)

Definition builtin_table : list (string * bsig) :=
  let s := GP GString in let v := GP GValue in let f := GP GFloat in let c := GP GCallable in
  [ ("string", mkSig [GP GIface] false UArg0 CArgc0)
  ; ("length", mkSig [s] false UArg0 CArgc0)
  ; ("substring", mkSig [s; GP GInt; GOpt GInt] false UArg0 CSubstring)
  ; ("substringBefore", mkSig [s; s] false UArg0 CBeforeAfter)
  ; ("substringAfter", mkSig [s; s] false UArg0 CBeforeAfter)
  ; ("uppercase", mkSig [s] false UArg0 CArgc0)
  ; ("lowercase", mkSig [s] false UArg0 CArgc0)
  ; ("pad", mkSig [s; GP GInt; GOpt GString] false UArg0 CPad)
  ; ("trim", mkSig [s] false UArg0 CArgc0)
  ; ("contains", mkSig [s; SC] false UArg0 CArgc1)
  ; ("split", mkSig [s; SC; GOpt GInt] false UArg0 CSplit)
  ; ("join", mkSig [v; GOpt GString] false UArg0 CNone)
  ; ("match", mkSig [s; c; GOpt GInt] false UArg0 CMatchH)
  ; ("replace", mkSig [s; SC; SC; GOpt GInt] false UArg0 CReplace)
  ; ("formatNumber", mkSig [f; s; GOpt GValue] false UArg0 CFormatNumber)
  ; ("formatBase", mkSig [f; GOpt GFloat] false UArg0 CArgc0)
  ; ("base64encode", mkSig [s] false UArg0 CArgc0)
  ; ("base64decode", mkSig [s] false UArg0 CArgc0)
  ; ("decodeUrl", mkSig [s] false UArg0 CArgc0)
  ; ("decodeUrlComponent", mkSig [s] false UArg0 CArgc0)
  ; ("encodeUrl", mkSig [s] false UArg0 CArgc0)
  ; ("encodeUrlComponent", mkSig [s] false UArg0 CArgc0)
  ; ("number", mkSig [SNB] false UArg0 CArgc0)
  ; ("abs", mkSig [f] false UArg0 CArgc0)
  ; ("floor", mkSig [f] false UArg0 CArgc0)
  ; ("ceil", mkSig [f] false UArg0 CArgc0)
  ; ("round", mkSig [f; GOpt GInt] false UArg0 CArgc0)
  ; ("power", mkSig [f; f] false UArg0 CArgc1)
  ; ("sqrt", mkSig [f] false UArg0 CArgc0)
  ; ("random", mkSig [] false UNone CNone)
  ; ("sum", mkSig [v] false UArg0 CNone)
  ; ("max", mkSig [v] false UArg0 CNone)
  ; ("min", mkSig [v] false UArg0 CNone)
  ; ("average", mkSig [v] false UArg0 CNone)
  ; ("boolean", mkSig [v] false UArg0 CArgc0)
  ; ("not", mkSig [v] false UNone CArgc0)
  ; ("exists", mkSig [v] false UNone CNone)
  ; ("distinct", mkSig [v] false UNone CNone)
  ; ("count", mkSig [v] false UNone CNone)
  ; ("reverse", mkSig [v] false UArg0 CNone)
  ; ("sort", mkSig [v; GOpt GCallable] false UArg0 CNone)
  ; ("shuffle", mkSig [v] false UArg0 CNone)
  ; ("zip", mkSig [v] true UNone CNone)
  ; ("append", mkSig [v; v] false UAppend CNone)
  ; ("map", mkSig [v; c] false UArg0 CNone)
  ; ("filter", mkSig [v; c] false UArg0 CNone)
  ; ("reduce", mkSig [v; c; GOpt GValue] false UArg0 CNone)
  ; ("single", mkSig [v; c] false UArg0 CNone)
  ; ("each", mkSig [v; c] false UArg0 CArgc0)
  ; ("sift", mkSig [v; c] false UArg0 CArgc1)
  ; ("keys", mkSig [v] false UArg0 CArgc0)
  ; ("lookup", mkSig [v; s] false UArg0 CArgc0)
  ; ("spread", mkSig [v] false UArg0 CArgc0)
  ; ("merge", mkSig [v] false UArg0 CNone)
  ; ("fromMillis", mkSig [GP GInt64; GOpt GString; GOpt GString] false UArg0 CArgc0)
  ; ("toMillis", mkSig [s; GOpt GString; GOpt GString] false UArg0 CArgc0)
  ; ("type", mkSig [GP GIface] false UArg0 CArgc0)
  ; ("error", mkSig [s] false UNone CNone)
  ].

Definition builtin_sig (name : string) : option bsig := assoc_get name builtin_table.

(* ---- converted arguments ---- *)
Inductive carg :=
| AVal (v : ovalue)            (* interface{} / reflect.Value parameter; None = nil / zero Value *)
| AStr (s : string)
| AInt (z : Z)
| AFloat (x : f64)
| ABool (b : bool)
| AFun (c : callable)
| AOpt (a : option carg)       (* Optional*: None = not set *)
| AOther.                      (* C20 universe: converted to a Go type the model does not track *)

(* processGoCallableArg on a defined JSON-level argument, simple (non-optional, non-variant)
   parameter type: identical / assignable / reflect.Value / convertible (never to string
   except from []byte) *)
Definition conv_simple (t : gtype) (v : value) : option carg :=
  match t, v with
  | GIface, _ => Some (AVal (Some v))
  | GValue, _ => Some (AVal (Some v))
  | GString, VStr s => Some (AStr s)
  | GInt, VNum x => Some (AInt (go_int x))
  | GInt64, VNum x => Some (AInt (go_int x))
  | GFloat, VNum x => Some (AFloat x)
  | GBool, VBool b => Some (ABool b)
  | GCallable, VFun c => Some (AFun c)
  | GUint8, VNum x => Some AOther
  | GBytes, VStr _ => Some AOther
  | GSliceIface, VArr _ => Some AOther
  | GMapIface, VObj _ => Some AOther
  | _, _ => None
  end.

Definition conv_arg (p : gparam) (a : ovalue) : option carg :=
  match a with
  | None =>                                  (* processUndefinedArg *)
      match p with
      | GOpt _ => Some (AOpt None)
      | GP GIface | GP GValue => Some (AVal None)
      | _ => None
      end
  | Some v =>
      match p with
      | GP t => conv_simple t v
      | GOpt t => option_map (fun c => AOpt (Some c)) (conv_simple t v)
      | GVariant ts =>
          (fix first (l : list gtype) : option carg :=
             match l with
             | [] => None
             | t :: r => match conv_simple t v with Some c => Some c | None => first r end
             end) ts
      end
  end.

Definition is_opt (p : gparam) : bool := match p with GOpt _ => true | _ => false end.

(* context handlers of env.go *)
Definition is_str_or_fun (v : ovalue) : bool := is_string v || is_callable v.
Definition ctx_handler (h : chandler) (argv : list ovalue) : bool :=
  match h, argv with
  | CNone, _ => false
  | CArgc0, [] => true
  | CArgc0, _ => false
  | CArgc1, [_] => true
  | CArgc1, _ => false
  | CSubstring, [a] => is_number a
  | CSubstring, [a; b] => is_number a && is_number b
  | CSubstring, _ => false
  | CBeforeAfter, [a] => is_string a
  | CBeforeAfter, _ => false
  | CPad, [a] => is_number a
  | CPad, [a; b] => is_number a && is_string b
  | CPad, _ => false
  | CSplit, [a] => is_str_or_fun a
  | CSplit, [a; b] => is_str_or_fun a && is_number b
  | CSplit, _ => false
  | CMatchH, [a] => is_callable a
  | CMatchH, [a; b] => is_callable a && is_number b
  | CMatchH, _ => false
  | CReplace, [a; b] => is_str_or_fun a && is_str_or_fun b
  | CReplace, [a; b; c] => is_str_or_fun a && is_str_or_fun b && is_number c
  | CReplace, _ => false
  | CFormatNumber, [a] => is_string a
  | CFormatNumber, [a; _] => is_string a
  | CFormatNumber, _ => false
  end.

Definition undef_handler (h : uhandler) (argv : list ovalue) : bool :=
  match h, argv with
  | UNone, _ => false
  | UArg0, None :: _ => true
  | UArg0, _ => false
  | UAppend, [None; None] => true
  | UAppend, _ => false
  end.

(* outcome of goCallable.validateArgCount + validateArgTypes *)
Inductive prep :=
| PrepArgs (args : list carg)
| PrepUndefined              (* the undefined handler fired: the call yields no value *)
| PrepArgCount
| PrepArgType (which : nat).

(* pad trailing optional parameters with undefined *)
Fixpoint pad_optionals (params : list gparam) (argv : list ovalue) : list ovalue :=
  match params, argv with
  | _ :: ps, a :: r => a :: pad_optionals ps r
  | p :: ps, [] => if is_opt p then None :: pad_optionals ps [] else []
  | [], l => l
  end.

(* convert argv against params; extra (variadic) arguments use the last parameter *)
Fixpoint conv_args (params : list gparam) (last : option gparam) (argv : list ovalue) (i : nat)
  : list carg + nat :=
  match argv with
  | [] => inl []
  | a :: r =>
      let '(p, ps) := match params with
                      | p :: ps => (Some p, ps)
                      | [] => (last, [])
                      end in
      match p with
      | None => inr i
      | Some p =>
          match conv_arg p a with
          | None => inr i
          | Some c => match conv_args ps last r (S i) with
                      | inl cs => inl (c :: cs)
                      | inr k => inr k
                      end
          end
      end
  end.

Definition prepare_call (sg : bsig) (ctx : ovalue) (argv : list ovalue) : prep :=
  let argv1 := if ctx_handler (bs_ctx sg) argv then ctx :: argv else argv in
  if undef_handler (bs_undef sg) argv1 then PrepUndefined else
  let argv2 := pad_optionals (bs_params sg) argv1 in
  let pc := List.length (bs_params sg) in
  let n := List.length argv2 in
  if bs_variadic sg && (n <? pc - 1) then PrepArgCount
  else if negb (bs_variadic sg) && negb (n =? pc) then PrepArgCount
  else match conv_args (bs_params sg) (last (map Some (bs_params sg)) None) argv2 1 with
       | inl cs => PrepArgs cs
       | inr k => PrepArgType k
       end.
