(* Model/Value.v — JSON-level values, callables, the world (environment frames by
   reference), outcomes and the state/error monad of the evaluator model. *)
From JV Require Export Base.Bytes Base.Utf8 Base.F64 Base.Res Model.Ast.
Local Open Scope nat_scope.

(* "no value" (the zero reflect.Value of the port) is [None : option value] everywhere. *)
Inductive value :=
| VNull
| VBool (b : bool)
| VNum (x : f64)
| VStr (s : string)
| VArr (l : list value)
| VObj (m : list (string * value))            (* key-sorted (bytewise), keys unique *)
| VFun (c : callable)
with callable :=
| CBuiltin (name : string)                    (* entry of baseEnv, looked up by name *)
| CLambda (params : list string) (sig : option (list param)) (body : node)
          (env : nat) (ctx : option value)
| CPartial (name : string) (f : callable) (args : list node) (env : nat) (ctx : option value)
| CTransform (pat upd : node) (del : option node) (env : nat)
| CRegex (src : string)
| CMatch (name : string) (m : string) (mstart mend : Z) (groups : list string) (next : callable)
| CUndef (name : string)
| CChain (f g : callable)
| CTime (name : string) (ms : Z)              (* $millis / $now of this evaluation *)
| CExt (id : nat).                            (* registered extension (C20 model) *)

Definition ovalue := option value.

(* ---- errors ---- *)
(* jsonata.ErrType, in declaration order *)
Inductive evalerr :=
| ErrNonIntegerLHS | ErrNonIntegerRHS | ErrNonNumberLHS | ErrNonNumberRHS
| ErrNonComparableLHS | ErrNonComparableRHS | ErrTypeMismatch
| ErrNonCallable | ErrNonCallableApply | ErrNonCallablePartial
| ErrNumberInf | ErrNumberNaN | ErrMaxRangeItems | ErrIllegalKey | ErrDuplicateKey
| ErrClone | ErrIllegalUpdate | ErrIllegalDelete | ErrNonSortable | ErrSortMismatch.

Definition evalerr_code (e : evalerr) : nat :=
  match e with
  | ErrNonIntegerLHS => 0 | ErrNonIntegerRHS => 1 | ErrNonNumberLHS => 2 | ErrNonNumberRHS => 3
  | ErrNonComparableLHS => 4 | ErrNonComparableRHS => 5 | ErrTypeMismatch => 6
  | ErrNonCallable => 7 | ErrNonCallableApply => 8 | ErrNonCallablePartial => 9
  | ErrNumberInf => 10 | ErrNumberNaN => 11 | ErrMaxRangeItems => 12 | ErrIllegalKey => 13
  | ErrDuplicateKey => 14 | ErrClone => 15 | ErrIllegalUpdate => 16 | ErrIllegalDelete => 17
  | ErrNonSortable => 18 | ErrSortMismatch => 19
  end.

Inductive err :=
| EEval (t : evalerr)
| EArgCount (fn : string)
| EArgType (fn : string) (which : nat)
| ELib (tag : string).                        (* untyped fmt.Errorf / jlib.Error / other Go errors *)

(* ---- world: environment frames, captured by reference by closures ---- *)
Record frame := mkFrame { fparent : option nat; fsyms : list (string * ovalue) }.
Record world := mkWorld { frames : list frame }.

Inductive res (A : Type) : Type :=
| Ok (a : A) (w : world)
| Err (e : err)
| Panic (why : string)                        (* a Go run-time panic *)
| OutOfFuel
| Need (q : string).                          (* oracle miss: the driver must supply the answer to q *)
Arguments Ok {A} a w.
Arguments Err {A} e.
Arguments Panic {A} why.
Arguments OutOfFuel {A}.
Arguments Need {A} q.

Definition M (A : Type) := world -> res A.
Definition ret {A} (a : A) : M A := fun w => Ok a w.
Definition fail {A} (e : err) : M A := fun _ => Err e.
Definition panic {A} (why : string) : M A := fun _ => Panic why.
Definition bind {A B} (m : M A) (f : A -> M B) : M B :=
  fun w => match m w with
           | Ok a w' => f a w'
           | Err e => Err e
           | Panic s => Panic s
           | OutOfFuel => OutOfFuel
           | Need q => Need q
           end.
Notation "x <- m ;; f" := (bind m (fun x => f)) (at level 61, m at next level, right associativity).
Notation "m ;;; f" := (bind m (fun _ => f)) (at level 61, right associativity).
Notation "' pat <- m ;; f" := (bind m (fun x => match x with pat => f end))
  (at level 61, pat pattern, m at next level, right associativity).

Definition lift_lres {A} (r : lres A) (undef : M A) : M A :=
  match r with
  | LOk a => ret a
  | LErr t => fail (ELib t)
  | LUndef => undef
  | LPanic s => panic s
  | LFuel => fun _ => OutOfFuel
  end.

(* ---- frames ---- *)
Fixpoint assoc_get {A} (k : string) (l : list (string * A)) : option A :=
  match l with
  | [] => None
  | (k', v) :: r => if seqb k k' then Some v else assoc_get k r
  end.
Fixpoint assoc_set {A} (k : string) (v : A) (l : list (string * A)) : list (string * A) :=
  match l with
  | [] => [(k, v)]
  | (k', v') :: r => if seqb k k' then (k, v) :: r else (k', v') :: assoc_set k v r
  end.

Definition new_frame (parent : option nat) : M nat :=
  fun w => Ok (List.length (frames w)) (mkWorld (frames w ++ [mkFrame parent []])).

Fixpoint list_update {A} (n : nat) (f : A -> A) (l : list A) : list A :=
  match l, n with
  | [], _ => []
  | x :: r, O => f x :: r
  | x :: r, S n' => x :: list_update n' f r
  end.

Definition bind_var (env : nat) (name : string) (v : ovalue) : M unit :=
  fun w => Ok tt (mkWorld (list_update env
                    (fun fr => mkFrame (fparent fr) (assoc_set name v (fsyms fr))) (frames w))).

(* environment.lookup: walks parents; frame ids only ever point to older frames, so the
   number of frames is enough fuel *)
Fixpoint lookup_fuel (fuel : nat) (fs : list frame) (env : nat) (name : string) : option ovalue :=
  match fuel with
  | O => None
  | S f =>
      match nth_error fs env with
      | None => None
      | Some fr =>
          match assoc_get name (fsyms fr) with
          | Some v => Some v
          | None => match fparent fr with
                    | Some p => lookup_fuel f fs p name
                    | None => None
                    end
          end
      end
  end.
Definition lookup_var (env : nat) (name : string) : M (option ovalue) :=
  fun w => Ok (lookup_fuel (S (List.length (frames w))) (frames w) env name) w.

(* ---- kinds and casts (jtypes) ---- *)
Definition is_array (v : ovalue) : bool := match v with Some (VArr _) => true | _ => false end.
Definition is_number (v : ovalue) : bool := match v with Some (VNum _) => true | _ => false end.
Definition is_string (v : ovalue) : bool := match v with Some (VStr _) => true | _ => false end.
Definition is_bool (v : ovalue) : bool := match v with Some (VBool _) => true | _ => false end.
Definition is_map (v : ovalue) : bool := match v with Some (VObj _) => true | _ => false end.
Definition is_callable (v : ovalue) : bool := match v with Some (VFun _) => true | _ => false end.

(* eval.go arrayify *)
Definition arrayify (v : ovalue) : list value :=
  match v with
  | Some (VArr l) => l
  | None => []
  | Some x => [x]
  end.

(* eval.go normalizeArray *)
Definition normalize_array (l : list value) : value :=
  match l with
  | [x] => x
  | _ => VArr l
  end.

(* jlib.Boolean *)
Fixpoint truthy (v : value) : bool :=
  match v with
  | VBool b => b
  | VStr s => negb (seqb s "")
  | VNum x => negb (feqb x fzero) (* n != 0 ; NaN != 0 is true in Go *)
  | VArr l => existsb truthy l
  | VObj m => negb (match m with [] => true | _ => false end)
  | VNull | VFun _ => false
  end.
Definition otruthy (v : ovalue) : bool := match v with Some x => truthy x | None => false end.

(* ---- sorted-object helpers ---- *)
Fixpoint obj_insert (k : string) (v : value) (m : list (string * value)) : list (string * value) :=
  match m with
  | [] => [(k, v)]
  | (k', v') :: r =>
      if seqb k k' then (k, v) :: r
      else if sltb k k' then (k, v) :: m
      else (k', v') :: obj_insert k v r
  end.
Fixpoint obj_remove (k : string) (m : list (string * value)) : list (string * value) :=
  match m with
  | [] => []
  | (k', v') :: r => if seqb k k' then r else (k', v') :: obj_remove k r
  end.
Definition obj_of_list (l : list (string * value)) : list (string * value) :=
  fold_left (fun m kv => obj_insert (fst kv) (snd kv) m) l [].

(* ---- structural equality (eval.go eq on JSON-level values) ---- *)
Fixpoint value_eqb (a b : value) : bool :=
  let fix list_eqb (l1 l2 : list value) : bool :=
    match l1, l2 with
    | [], [] => true
    | x :: r1, y :: r2 => value_eqb x y && list_eqb r1 r2
    | _, _ => false
    end in
  let fix obj_eqb (m1 m2 : list (string * value)) : bool :=
    match m1, m2 with
    | [], [] => true
    | (k1, x) :: r1, (k2, y) :: r2 => seqb k1 k2 && value_eqb x y && obj_eqb r1 r2
    | _, _ => false
    end in
  match a, b with
  | VNull, VNull => true
  | VBool x, VBool y => Bool.eqb x y
  | VNum x, VNum y => feqb x y
  | VStr x, VStr y => seqb x y
  | VArr l1, VArr l2 => list_eqb l1 l2
  | VObj m1, VObj m2 => obj_eqb m1 m2
  | _, _ => false
  end.
