(* Model/LibCore.v — jlib functions that do not touch strings/numbers/dates formatting:
   array.go, hof.go, aggregate.go, object.go, boolean.go, TypeOf.  Functions that call back
   into JSONata functions take [apply] (Callable.Call) and [pcount] (Callable.ParamCount). *)
From JV Require Export Model.Builtins.
Local Open Scope nat_scope.
Local Open Scope list_scope.

Fixpoint mapM {A B} (f : A -> M B) (l : list A) : M (list B) :=
  match l with
  | [] => ret []
  | x :: r => y <- f x ;; ys <- mapM f r ;; ret (y :: ys)
  end.

Fixpoint foldM {A B} (f : B -> A -> M B) (acc : B) (l : list A) : M B :=
  match l with
  | [] => ret acc
  | x :: r => acc' <- f acc x ;; foldM f acc' r
  end.

Definition somes {A} (l : list (option A)) : list A :=
  flat_map (fun o => match o with Some x => [x] | None => [] end) l.

(* jlib forceArray: undefined stays undefined, scalar -> one-member array *)
Definition force_array (v : ovalue) : option (list value) :=
  match v with
  | None => None
  | Some (VArr l) => Some l
  | Some x => Some [x]
  end.

Definition clamp (n lo hi : nat) : nat := if n <? lo then lo else if hi <? n then hi else n.

Definition vnat (n : nat) : value := VNum (f_of_nat n).

Section Lib.
  Variable fmt_num : f64 -> string.
  Variable apply : callable -> list ovalue -> M ovalue.
  Variable pcount : callable -> nat.

  (* ---- array.go ---- *)
  Definition lib_count (v : ovalue) : value :=
    match v with
    | Some (VArr l) => vnat (List.length l)
    | Some _ => vnat 1
    | None => vnat 0
    end.

  (* Distinct (after repair): first occurrence of each value under structural equality *)
  Fixpoint distinct_acc (seen : list value) (l : list value) : list value :=
    match l with
    | [] => []
    | x :: r => if existsb (value_eqb x) seen then distinct_acc seen r
                else x :: distinct_acc (x :: seen) r
    end.
  Definition lib_distinct (v : ovalue) : ovalue :=
    match v with
    | Some (VStr s) => Some (VStr s)
    | Some (VArr l) => Some (VArr (distinct_acc [] l))
    | _ => Some VNull            (* returns a nil interface{} *)
    end.

  Definition lib_append (a b : ovalue) : ovalue :=
    match a, b with
    | Some x, None => Some x
    | None, Some y => Some y
    | _, _ => Some (VArr (arrayify a ++ arrayify b))
    end.

  Definition lib_reverse (v : ovalue) : ovalue := Some (VArr (rev (arrayify v))).

  (* merge / mergeSort exactly as written: take the right head iff swap lhs[0] rhs[0] *)
  Fixpoint merge_fuel (fuel : nat) (swap : value -> value -> M bool) (l r : list value)
    : M (list value) :=
    match fuel with
    | O => fun _ => OutOfFuel
    | S f =>
        match l, r with
        | _, [] => ret l
        | [], _ => ret r
        | x :: l', y :: r' =>
            b <- swap x y ;;
            if b then t <- merge_fuel f swap l r' ;; ret (y :: t)
            else t <- merge_fuel f swap l' r ;; ret (x :: t)
        end
    end.
  Fixpoint merge_sort_fuel (fuel : nat) (swap : value -> value -> M bool) (l : list value)
    : M (list value) :=
    match fuel with
    | O => fun _ => OutOfFuel
    | S f =>
        let n := List.length l in
        if n <? 2 then ret l else
        let pos := Nat.div n 2 in
        a <- merge_sort_fuel f swap (firstn pos l) ;;
        b <- merge_sort_fuel f swap (skipn pos l) ;;
        merge_fuel (S n) swap a b
    end.

  (* stable insertion sort standing for sort.SliceStable with a strict weak order *)
  Fixpoint insert_by {A} (lt : A -> A -> bool) (x : A) (l : list A) : list A :=
    match l with
    | [] => [x]
    | y :: r => if lt y x then y :: insert_by lt x r else x :: l
    end.
  Definition stable_sort {A} (lt : A -> A -> bool) (l : list A) : list A :=
    fold_right (insert_by lt) [] l.

  Definition num_of (v : value) : option f64 := match v with VNum x => Some x | _ => None end.
  Definition str_of (v : value) : option string := match v with VStr s => Some s | _ => None end.
  Definition all_strings (l : list value) : bool :=
    forallb (fun v => match v with VStr _ => true | _ => false end) l.

  Definition lib_sort (v : ovalue) (swap : option callable) : M ovalue :=
    match v with
    | None => ret None
    | Some (VArr l) =>
        match swap with
        | Some fn =>
            let sw := fun a b =>
              r <- apply fn [Some a; Some b] ;;
              match r with
              | Some (VBool t) => ret t
              | _ => fail (ELib "sort: comparator must return a boolean")
              end in
            r <- merge_sort_fuel (S (List.length l)) sw l ;; ret (Some (VArr r))
        | None =>
            if all_numbers l then
              ret (Some (VArr (map VNum (stable_sort fltb (somes (map num_of l))))))
            else if all_strings l then
              ret (Some (VArr (map VStr (stable_sort sltb (somes (map str_of l))))))
            else fail (ELib "sort: array of strings or numbers")
        end
    | Some x => ret (Some (VArr [x]))
    end.

  (* Shuffle draws from math/rand; the model uses the identity permutation and the
     correspondence compares multisets *)
  Definition lib_shuffle (v : ovalue) : ovalue :=
    match force_array v with
    | None => Some (VArr [])
    | Some l => Some (VArr l)
    end.

  (* Zip: an undefined argument gives [], otherwise rows up to the shortest argument *)
  Fixpoint zip_rows (n : nat) (cols : list (list value)) : list value :=
    match n with
    | O => []
    | S n' =>
        VArr (map (fun c => match c with x :: _ => x | [] => VNull end) cols)
        :: zip_rows n' (map (fun c => match c with _ :: r => r | [] => [] end) cols)
    end.
  Definition first_undefined_before_all (args : list ovalue) : bool :=
    existsb (fun a => match a with None => true | _ => false end) args.
  Definition lib_zip (args : list ovalue) : M ovalue :=
    match args with
    | [] => fail (ELib "zip: no arguments")
    | _ =>
        if first_undefined_before_all args then ret (Some (VArr []))
        else
          let cols := map (fun a => match force_array a with Some l => l | None => [] end) args in
          let size := fold_left Nat.min (map (@List.length value) cols)
                                (match cols with c :: _ => List.length c | [] => 0 end) in
          ret (Some (VArr (zip_rows size cols)))
    end.

  (* ---- hof.go ---- *)
  Definition hof_args (x : value) (i : nat) (whole : list value) (argc : nat) : list ovalue :=
    firstn argc [Some x; Some (vnat i); Some (VArr whole)].

  (* the third argument is the forced array itself; for a scalar input Go builds a typed
     one-element slice, which is a one-member array at JSON level *)
  Fixpoint map_loop (f : callable) (argc : nat) (whole : list value) (i : nat) (l : list value)
    : M (list value) :=
    match l with
    | [] => ret []
    | x :: r =>
        y <- apply f (hof_args x i whole argc) ;;
        ys <- map_loop f argc whole (S i) r ;;
        ret (match y with Some v => v :: ys | None => ys end)
    end.
  (* Map returns a nil []interface{} when nothing was produced: an empty array *)
  Definition lib_map (v : ovalue) (f : callable) : M ovalue :=
    let l := match force_array v with Some l => l | None => [] end in
    r <- map_loop f (clamp (pcount f) 1 3) l 0 l ;; ret (Some (VArr r)).

  Fixpoint filter_loop (f : callable) (argc : nat) (whole : list value) (i : nat) (l : list value)
    : M (list value) :=
    match l with
    | [] => ret []
    | x :: r =>
        y <- apply f (hof_args x i whole argc) ;;
        ys <- filter_loop f argc whole (S i) r ;;
        ret (if otruthy y then x :: ys else ys)
    end.
  Definition lib_filter_list (v : ovalue) (f : callable) : M (list value) :=
    let l := match force_array v with Some l => l | None => [] end in
    filter_loop f (clamp (pcount f) 1 3) l 0 l.
  Definition lib_filter (v : ovalue) (f : callable) : M ovalue :=
    r <- lib_filter_list v f ;; ret (Some (VArr r)).

  Definition lib_reduce (v : ovalue) (f : callable) (init : option ovalue) : M ovalue :=
    let l := match force_array v with Some l => l | None => [] end in
    if negb (pcount f =? 2) then fail (ELib "reduce: function must take two arguments") else
    let '(start, rest) :=
      match init with
      | Some i => (i, l)
      | None => match l with x :: r => (Some x, r) | [] => (None, []) end
      end in
    foldM (fun acc x => apply f [acc; Some x]) start rest.

  Definition lib_single (v : ovalue) (f : callable) : M ovalue :=
    r <- lib_filter_list v f ;;
    match r with
    | [x] => ret (Some x)
    | _ => fail (ELib "single: number of matching values must be 1")
    end.

  (* ---- aggregate.go ---- *)
  Definition numbers_of (l : list value) : option (list f64) :=
    if all_numbers l then Some (somes (map num_of l)) else None.

  Definition lib_sum (v : ovalue) : M ovalue :=
    match v with
    | Some (VArr l) =>
        match numbers_of l with
        | Some xs => let t := fold_left fadd xs fzero in
                     if is_finite t then ret (Some (VNum t)) else fail (ELib "sum: not finite")
        | None => fail (ELib "sum: non-number")
        end
    | Some (VNum x) => ret (Some (VNum x))
    | _ => fail (ELib "sum: non-array")
    end.

  Definition extremum (better : f64 -> f64 -> bool) (xs : list f64) : option f64 :=
    match xs with
    | [] => None
    | x :: r => Some (fold_left (fun m n => if better n m then n else m) r x)
    end.

  Definition lib_minmax (nm : string) (better : f64 -> f64 -> bool) (v : ovalue) : M ovalue :=
    match v with
    | Some (VArr l) =>
        match l with
        | [] => ret None
        | _ => match numbers_of l with
               | Some xs => ret (option_map VNum (extremum better xs))
               | None => fail (ELib (nm ++ ": non-number"))
               end
        end
    | Some (VNum x) => ret (Some (VNum x))
    | _ => fail (ELib (nm ++ ": non-array"))
    end.

  Definition lib_average (v : ovalue) : M ovalue :=
    match v with
    | Some (VArr l) =>
        match l with
        | [] => ret None
        | _ => match numbers_of l with
               | Some xs => let a := fdiv (fold_left fadd xs fzero) (f_of_nat (List.length xs)) in
                            if is_finite a then ret (Some (VNum a)) else fail (ELib "average: not finite")
               | None => fail (ELib "average: non-number")
               end
        end
    | Some (VNum x) => ret (Some (VNum x))
    | _ => fail (ELib "average: non-array")
    end.

  (* ---- object.go ---- *)
  Definition norm_results (l : list value) : ovalue :=
    match l with
    | [] => None
    | [x] => Some x
    | _ => Some (VArr l)
    end.

  Definition each_args (v : value) (k : string) (whole : value) (n : nat) : list ovalue :=
    firstn n [Some v; Some (VStr k); Some whole].

  Definition lib_each (obj : ovalue) (fn : callable) : M ovalue :=
    match obj with
    | Some (VObj m) =>
        let argc := pcount fn in
        if (argc <? 1) || (3 <? argc) then fail (ELib "each: function must take 1, 2 or 3 arguments") else
        rs <- mapM (fun kv => apply fn (each_args (snd kv) (fst kv) (VObj m) argc)) m ;;
        ret (norm_results (somes rs))
    | _ => fail (ELib "each: argument must be an object")
    end.

  Definition lib_sift (obj : ovalue) (fn : callable) : M ovalue :=
    match obj with
    | Some (VObj m) =>
        let argc := pcount fn in
        if (argc <? 1) || (3 <? argc) then fail (ELib "sift: function must take 1, 2 or 3 arguments") else
        rs <- mapM (fun kv => r <- apply fn (each_args (snd kv) (fst kv) (VObj m) argc) ;;
                              ret (if otruthy r then [kv] else [])) m ;;
        match List.concat rs with
        | [] => ret None
        | l => ret (Some (VObj l))
        end
    | _ => fail (ELib "sift: argument must be an object")
    end.

  Fixpoint nodup_str_acc (seen : list string) (l : list string) : list string :=
    match l with
    | [] => []
    | s :: r => if existsb (seqb s) seen then nodup_str_acc seen r
                else s :: nodup_str_acc (s :: seen) r
    end.
  Definition nodup_str := nodup_str_acc [].

  (* keys: object -> its member names; array -> distinct names over the members' keys
     (each inner array already de-duplicated, as keysArray recurses) *)
  Fixpoint keys_of (v : value) : list string :=
    let fix over (l : list value) : list string :=
      match l with [] => [] | x :: r => keys_of x ++ over r end in
    match v with
    | VObj m => map fst m
    | VArr l => nodup_str (over l)
    | _ => []
    end.
  Definition lib_keys (v : ovalue) : ovalue :=
    match v with
    | None => None
    | Some x => norm_results (map VStr (keys_of x))
    end.

  (* Spread *)
  Fixpoint spread_of (v : value) : value :=
    let fix over (l : list value) : list value :=
      match l with
      | [] => []
      | x :: r => match x with
                  | VObj _ | VArr _ => match spread_of x with VArr items => items | y => [y] end
                  | y => [y]
                  end ++ over r
      end in
    match v with
    | VObj m => VArr (map (fun kv => VObj [kv]) m)
    | VArr l => VArr (over l)
    | _ => v
    end.
  Definition lib_spread (v : ovalue) : ovalue :=
    match v with
    | None => Some (VArr [])
    | Some x => Some (spread_of x)
    end.

  (* Merge: later members win; null members are skipped by mergeMapFast *)
  Definition merge_into (dest : list (string * value)) (src : list (string * value)) :=
    fold_left (fun d kv => match snd kv with VNull => d | _ => obj_insert (fst kv) (snd kv) d end) src dest.
  Definition lib_merge (v : ovalue) : M ovalue :=
    match v with
    | Some (VObj m) => ret (Some (VObj (merge_into [] m)))
    | Some (VArr l) =>
        if forallb (fun x => match x with VObj _ | VFun _ => true | _ => false end) l then
          ret (Some (VObj (fold_left (fun d x => match x with VObj m => merge_into d m | _ => d end) l [])))
        else fail (ELib "merge: argument must be an object or an array of objects")
    | _ => fail (ELib "merge: argument must be an object or an array of objects")
    end.

  (* env.go lookup *)
  Definition lib_lookup (v : ovalue) (name : string) : ovalue :=
    match eval_name_value name v with
    | Some x => Some x
    | None => Some VNull          (* (nil, nil): a nil interface{}, not "no value" *)
    end.

  (* jlib.TypeOf *)
  Definition lib_type (v : ovalue) : M ovalue :=
    match v with
    | Some (VFun _) => ret (Some (VStr "function"))
    | Some (VStr _) => ret (Some (VStr "string"))
    | Some (VNum _) => ret (Some (VStr "number"))
    | Some (VArr _) => ret (Some (VStr "array"))
    | Some (VBool _) => ret (Some (VStr "boolean"))
    | Some (VObj _) => ret (Some (VStr "object"))
    | Some VNull => ret (Some (VStr "null"))
    | None => panic "TypeOf(nil)"
    end.
End Lib.
