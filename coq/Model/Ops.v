(* Model/Ops.v — pure parts of the evaluator: JSON stringification (jlib.String),
   comparison and arithmetic on values, ranges, wildcard/descendant walks, field lookup. *)
From JV Require Export Model.Value.
Local Open Scope nat_scope.

(* ---- encoding/json string quoting with HTML escaping (jlib.String uses json.Encoder) ---- *)
Definition html_safe (b : Z) : bool :=
  ((32 <=? b) && (b <? 128) && negb ((b =? 34) || (b =? 38) || (b =? 60) || (b =? 62) || (b =? 92)))%Z.

Definition hex2 (b : Z) : string :=
  String (hex_digit (b / 16)) (String (hex_digit (b mod 16)) EmptyString).

Fixpoint json_quote_fuel (fuel : nat) (s : string) : string :=
  match fuel with
  | O => EmptyString
  | S f =>
      match s with
      | EmptyString => EmptyString
      | String c r =>
          let b := byte_of c in
          if (b <? 128)%Z then
            if html_safe b then String c (json_quote_fuel f r)
            else
              let esc :=
                if (b =? 92)%Z then "\\"
                else if (b =? 34)%Z then "\"""
                else if (b =? 8)%Z then "\b"
                else if (b =? 12)%Z then "\f"
                else if (b =? 10)%Z then "\n"
                else if (b =? 13)%Z then "\r"
                else if (b =? 9)%Z then "\t"
                else "\u00" ++ hex2 b in
              esc ++ json_quote_fuel f r
          else
            let '(rn, w) := decode_rune s in
            if ((rn =? RuneError)%Z && (w =? 1)%nat) then "\ufffd" ++ json_quote_fuel f r
            else if (rn =? 8232)%Z then "\u2028" ++ json_quote_fuel f (sdrop w s)
            else if (rn =? 8233)%Z then "\u2029" ++ json_quote_fuel f (sdrop w s)
            else stake w s ++ json_quote_fuel f (sdrop w s)
      end
  end.
Definition json_quote (s : string) : string :=
  String """" (json_quote_fuel (slen s) s ++ """").

Section WithNumFmt.
  (* encoding/json's rendering of a finite float64 (Base/Decimal.format_json_number) *)
  Variable fmt_num : f64 -> string.

  (* json.Marshal of a value; functions marshal as "" (callableMarshaler).
     None = UnsupportedValueError (NaN / infinity). *)
  Fixpoint json_of_value (v : value) : option string :=
    let fix arr (l : list value) : option (list string) :=
      match l with
      | [] => Some []
      | x :: r => match json_of_value x, arr r with
                  | Some a, Some b => Some (a :: b)
                  | _, _ => None
                  end
      end in
    let fix obj (m : list (string * value)) : option (list string) :=
      match m with
      | [] => Some []
      | (k, x) :: r => match json_of_value x, obj r with
                       | Some a, Some b => Some ((json_quote k ++ ":" ++ a) :: b)
                       | _, _ => None
                       end
      end in
    match v with
    | VNull => Some "null"
    | VBool true => Some "true"
    | VBool false => Some "false"
    | VNum x => if is_finite x then Some (fmt_num x) else None
    | VStr s => Some (json_quote s)
    | VArr l => option_map (fun ss => "[" ++ sjoin "," ss ++ "]") (arr l)
    | VObj m => option_map (fun ss => "{" ++ sjoin "," ss ++ "}") (obj m)
    | VFun _ => Some """"""
    end.

  (* jlib.String *)
  Definition string_of_value (v : value) : lres string :=
    match v with
    | VFun _ => LOk ""
    | VStr s => LOk s
    | VNum x => if is_finite x then LOk (fmt_num x) else LErr "string: NaN/Infinity"
    | _ => match json_of_value v with
           | Some s => LOk s
           | None => LErr "json: unsupported value"
           end
    end.
End WithNumFmt.

Local Open Scope list_scope.
(* ---- eval.go: eq / lt / lte / in ---- *)
(* eq: numbers, strings, booleans by value; arrays and maps by reflect.DeepEqual, which on
   JSON-level data is structural equality; everything else (null, functions) by identity of
   the reflect.Value — literal nulls are identical, functions are modelled as never equal. *)
Definition eq_values (a b : value) : bool :=
  match a, b with
  | VNum x, VNum y => feqb x y
  | VNum _, _ => false
  | VStr x, VStr y => seqb x y
  | VStr _, _ => false
  | VBool x, VBool y => Bool.eqb x y
  | VBool _, _ => false
  | VArr _, VArr _ => value_eqb a b
  | VObj _, VObj _ => value_eqb a b
  | VNull, VNull => true
  | VFun (CBuiltin n1), VFun (CBuiltin n2) => seqb n1 n2   (* one object per built-in *)
  | _, _ => false
  end.

(* lt on two numbers or two strings; anything else is the explicit panic of the port *)
Definition lt_values (a b : value) : option bool :=
  match a, b with
  | VNum x, VNum y => Some (fltb x y)
  | VStr x, VStr y => Some (sltb x y)
  | _, _ => None
  end.

(* `in` wraps its right operand in a slice; a function held in that slice is no longer the
   identical reflect.Value, so functions are never members (the property does not define
   equality of functions) *)
Definition in_values (a : value) (b : value) : bool :=
  match a with
  | VFun _ => false
  | _ => existsb (eq_values a) (arrayify (Some b))
  end.

(* ---- numeric operators ---- *)
Definition num_apply (op : numop) (x y : f64) : f64 :=
  match op with
  | NumAdd => fadd x y
  | NumSub => fsub x y
  | NumMul => fmul x y
  | NumDiv => fdiv x y
  | NumMod => fmod x y
  end.

(* ---- range ---- *)
Definition max_range_items : Z := 10000000.

(* lhs, lhs+1, ..., one float64 increment at a time, as the loop does *)
Fixpoint range_items (n : nat) (x : f64) : list value :=
  match n with
  | O => []
  | S n' => VNum x :: range_items n' (fadd x fone)
  end.

(* ---- walkObjectValues / wildcard / descendants ---- *)
(* flattenArray: deep flattening of nested arrays *)
Fixpoint flatten_deep (v : value) : list value :=
  let fix go (l : list value) : list value :=
    match l with [] => [] | x :: r => flatten_deep x ++ go r end in
  match v with
  | VArr l => go l
  | _ => [v]
  end.

Definition append_wildcard (v : value) : list value :=
  match v with
  | VArr _ => flatten_deep v
  | _ => [v]
  end.

Definition object_values (v : value) : list value :=
  match v with
  | VArr l => l
  | VObj m => map snd m
  | _ => []          (* callables are Go structs with unexported fields: nothing interfaceable *)
  end.

Definition wildcard_items (data : ovalue) : list value :=
  match data with
  | None => []
  | Some v => flat_map append_wildcard (object_values v)
  end.

Fixpoint descendants (v : value) : list value :=
  let fix go (l : list value) : list value :=
    match l with [] => [] | x :: r => descendants x ++ go r end in
  let fix gom (m : list (string * value)) : list value :=
    match m with [] => [] | (_, x) :: r => descendants x ++ gom r end in
  match v with
  | VArr l => go l
  | VObj m => v :: gom m
  | _ => [v]
  end.

(* ---- field lookup (evalName / evalNameArray) : the items of the resulting sequence, or
   a plain value.  Nested arrays are flattened (the port's evalNameArray after repair). ---- *)
Inductive rv := RV (v : ovalue) | RS (items : list value).

Fixpoint name_lookup (name : string) (v : value) : rv :=
  let fix over (l : list value) : list value :=
    match l with
    | [] => []
    | x :: r => match name_lookup name x with
                | RV (Some y) => y :: over r
                | RV None => over r
                | RS items => items ++ over r
                end
    end in
  match v with
  | VObj m => RV (assoc_get name m)
  | VArr l => RS (over l)
  | _ => RV None
  end.

Definition collapse (keep : bool) (items : list value) : ovalue :=
  match items with
  | [] => None
  | [x] => if keep then Some (VArr [x]) else Some x
  | _ => Some (VArr items)
  end.

Definition eval_name_value (name : string) (data : ovalue) : ovalue :=
  match data with
  | None => None
  | Some v => match name_lookup name v with
              | RV r => r
              | RS items => collapse false items
              end
  end.

(* ---- predicates: positional test of applyFilter ---- *)
Definition all_numbers (l : list value) : bool :=
  forallb (fun v => match v with VNum _ => true | _ => false end) l.

(* does one numeric predicate result select position i of n items? *)
Definition index_hits (n i : nat) (x : f64) : bool :=
  let idx := go_int (ffloor x) in
  let idx := if (idx <? 0)%Z then (idx + Z.of_nat n)%Z else idx in
  (idx =? Z.of_nat i)%Z.

(* how many copies of item i the filter result [res] selects *)
Definition filter_copies (n i : nat) (res : ovalue) : nat :=
  let res' := match res with Some (VNum _) => arrayify res | _ => match res with Some (VArr l) => l | _ => [] end end in
  match res with
  | Some (VNum _) | Some (VArr _) =>
      if all_numbers res' then
        List.length (filter (fun v => match v with VNum x => index_hits n i x | _ => false end) res')
      else if otruthy res then 1 else 0
  | _ => if otruthy res then 1 else 0
  end.
