(* Model/LibNumber.v — jlib/number.go (Number, Round, multByPow10, isHalfway, Power, Sqrt)
   and FormatBase from jlib/string.go, transcribed function by function.

   Go standard-library text conversions used by the code (fmt "%g", strconv.ParseFloat,
   strconv.Itoa/FormatInt, strconv.Atoi) and math.Pow are parameters of the Section; they are
   instantiated with JV.Base.Decimal in Model/LibNumberInst.v.  math.Modf, math.Nextafter,
   math.Round, math.Abs are re-implemented here on spec_float; math.Mod/Floor/Ceil/Trunc/Sqrt come from
   Base/F64.v.

   Stdlib + JV.Base only, no axioms; everything computes under vm_compute and extracts. *)
From Coq Require Import ZArith Bool List Ascii String.
From JV.Base Require Import Bytes Utf8 F64 Res.
Open Scope Z_scope.

(* result of strconv.ParseFloat(s, 64): value with nil error, value (±Inf) with ErrRange,
   or ErrSyntax (value 0) *)
Inductive pfres := PfOk (x : f64) | PfRange (x : f64) | PfSyntax.

(* `x, _ = strconv.ParseFloat(s, 64)` *)
Definition pf_value (r : pfres) : f64 :=
  match r with PfOk x => x | PfRange x => x | PfSyntax => fzero end.

(* Go `int` arithmetic is modulo 2^64 *)
Definition wrap64 (z : Z) : Z := (z + 2 ^ 63) mod 2 ^ 64 - 2 ^ 63.

Definition f_half : f64 := Eval vm_compute in f_of_Zexp 1 (-1) false.
Definition f_two : f64 := Eval vm_compute in f_of_Z 2.
Definition f_inf : f64 := S754_infinity false.
Definition f_ninf : f64 := S754_infinity true.

(* ------------------------------------------------------------------------------------ *)
(* reNumber = ^-?(([0-9]+))(\.[0-9]+)?([Ee][-+]?[0-9]+)?$   (Go regexp: $ is end of text)  *)
(* ------------------------------------------------------------------------------------ *)

Definition is_dig (c : ascii) : bool := let b := byte_of c in (48 <=? b) && (b <=? 57).

(* drops a maximal run of digits *)
Fixpoint skip_digits (s : string) : string :=
  match s with
  | String c r => if is_dig c then skip_digits r else s
  | EmptyString => EmptyString
  end.

(* [0-9]+ then the rest; None when s does not start with a digit *)
Definition digits1 (s : string) : option string :=
  match s with
  | String c r => if is_dig c then Some (skip_digits r) else None
  | EmptyString => None
  end.

Definition is_e (c : ascii) : bool := Ascii.eqb c "e" || Ascii.eqb c "E".
Definition is_pm (c : ascii) : bool := Ascii.eqb c "-" || Ascii.eqb c "+".

(* [-+]?[0-9]+$ *)
Definition match_exp (s : string) : bool :=
  let s1 := match s with String c r => if is_pm c then r else s | EmptyString => s end in
  match digits1 s1 with Some EmptyString => true | _ => false end.

(* (\.[0-9]+)?([Ee][-+]?[0-9]+)?$ *)
Definition match_after_int (s : string) : bool :=
  match s with
  | EmptyString => true
  | String c r =>
      if Ascii.eqb c "." then
        match digits1 r with
        | Some EmptyString => true
        | Some (String c2 r2) => if is_e c2 then match_exp r2 else false
        | None => false
        end
      else if is_e c then match_exp r
      else false
  end.

Definition re_number (s : string) : bool :=
  let s1 := match s with String c r => if Ascii.eqb c "-" then r else s | EmptyString => s end in
  match digits1 s1 with
  | Some rest => match_after_int rest
  | None => false
  end.

(* ------------------------------------------------------------------------------------ *)
(* math.Modf, math.Nextafter                                                             *)
(* ------------------------------------------------------------------------------------ *)

(* math.Modf (pure Go version, go1.23 amd64):
     if f < 1 { if f < 0 { i, fr = Modf(-f); return -i, -fr }; if f == 0 { return f, f };
                return 0, f }
     clear the fraction bits -> int ; frac = f - int *)
Definition modf_pos (f : f64) : f64 * f64 :=           (* the f >= 0 (or NaN) part *)
  if fltb f fone then
    (if feqb f fzero then (f, f) else (fzero, f))
  else let i := ftrunc f in (i, fsub f i).

Definition modf (f : f64) : f64 * f64 :=
  if fltb f fone && fltb f fzero then
    let '(i, fr) := modf_pos (fopp f) in (fopp i, fopp fr)
  else modf_pos f.

(* math.Copysign *)
Definition copysign (x y : f64) : f64 :=
  let s := sign_bit y in
  match x with
  | S754_zero _ => S754_zero s
  | S754_infinity _ => S754_infinity s
  | S754_finite _ m e => S754_finite s m e
  | S754_nan => S754_nan
  end.

(* math.Nextafter *)
Definition nextafter (x y : f64) : f64 :=
  if is_nan x || is_nan y then S754_nan
  else if feqb x y then x
  else if feqb x fzero then copysign (f_of_bits 1) y
  else if Bool.eqb (fltb x y) (fltb fzero x) then f_of_bits (bits_of_f x + 1)
  else f_of_bits (bits_of_f x - 1).

(* math.Round: nearest integer, halves away from zero; exact (bit manipulation in Go);
   ±0, ±Inf, NaN and every |x| >= 2^52 are returned unchanged, |x| < 0.5 gives ±0 *)
Definition fround (x : f64) : f64 :=
  match x with
  | S754_finite s m e =>
      match e with
      | Zneg pe =>
          let d := 2 ^ Zpos pe in
          let q := Zpos m / d in
          let r := Zpos m mod d in
          let q' := if d <=? 2 * r then q + 1 else q in
          f_of_Zexp (if s then - q' else q') 0 s
      | _ => x
      end
  | _ => x
  end.

(* jlib.isHalfway (identical copy in jxpath) *)
Definition is_halfway (x : f64) : bool :=
  let '(_, frac) := modf x in
  let frac := fabs frac in
  feqb frac f_half ||
  (fltb (nextafter frac f_ninf) f_half && fltb f_half (nextafter frac f_inf)).

Section NumberFns.
  Variable fmt_g : f64 -> string.                 (* fmt.Sprintf("%g", x) *)
  Variable parse_float_fn : string -> pfres.      (* strconv.ParseFloat(s, 64) *)
  Variable format_int_fn : Z -> Z -> string.      (* strconv.FormatInt(v, base) *)
  Variable atoi_fn : string -> option Z.          (* strconv.Atoi; None = error *)
  Variable pow_fn : f64 -> f64 -> f64.            (* math.Pow *)
  (* strconv.FormatFloat(|x|, 'e', -1, 64) read as an integer and a power of ten: the shortest digit
     string m (no trailing zero) and k with |x| ~ m * 10^k *)
  Variable shortest_fn : f64 -> Z * Z.

  (* jlib.Number on a string argument *)
  Definition number_of_string (s : string) : lres f64 :=
    if re_number s then
      match parse_float_fn s with
      | PfOk n => LOk n
      | _ => LErr "unable to cast to a number"
      end
    else LErr "unable to cast to a number".

  (* jlib.Number on a boolean argument *)
  Definition number_of_bool (b : bool) : f64 := if b then fone else fzero.

  Definition itoa (n : Z) : string := format_int_fn n 10.

  (* jlib.Round; prec = None is the zero OptionalInt (Int = 0).  The decimal value of x (its
     shortest numeral) is rounded half to even at the p-th fraction digit, on the digits: m < 10^17
     fits a uint64, at most 17 digits are dropped.  (Before the repair the scaled value was first
     rounded to a double and a 17-digit number next to a tie landed exactly on it.) *)
  Definition pow10_small (n : Z) : Z := 10 ^ n.
  Definition round (x : f64) (prec : option Z) : f64 :=
    let p := match prec with Some p => p | None => 0 end in
    if feqb x fzero then fzero
    else if is_nan x || is_inf x then x
    else
      let '(m, k) := shortest_fn (fabs x) in
      if (400 <? p) || (0 <=? k + p) then x                       (* nothing to round *)
      else if (p <? -400) || (Z.of_nat (slen (itoa m)) <? - (k + p)) then fzero
      else
        let pw := pow10_small (- (k + p)) in
        let q := m / pw in
        let r := m mod pw in
        let q := if (pw <? 2 * r) || ((2 * r =? pw) && Z.odd q) then q + 1 else q in
        if q =? 0 then fzero
        else
          match parse_float_fn (itoa q ++ "e" ++ itoa (- p)) with
          | PfOk res => if is_inf res then x else if fltb x fzero then fopp res else res
          | _ => x                      (* the rounded number overflows: returned unrounded *)
          end.

  (* jlib.Power *)
  Definition power (x y : f64) : lres f64 :=
    let res := pow_fn x y in
    if is_inf res || is_nan res then LErr "power: result cannot be represented as a JSON number"
    else LOk res.

  (* jlib.Sqrt *)
  Definition sqrt (x : f64) : lres f64 :=
    if fltb x fzero then LErr "sqrt: negative number" else LOk (fsqrt x).

  (* jlib.FormatBase; base = None when the optional argument is not set *)
  Definition format_base (value : f64) (base : option f64) : lres string :=
    let radix := match base with Some b => go_int (round b None) | None => 10 end in
    if (radix <? 2) || (36 <? radix) then LErr "formatBase: base must be between 2 and 36"
    else LOk (format_int_fn (go_int (round value None)) radix).
End NumberFns.

(* $floor, $ceil, $abs are bound directly to math.Floor, math.Ceil, math.Abs in the
   environment *)
Definition floor : f64 -> f64 := ffloor.
Definition ceil : f64 -> f64 := fceil.
Definition abs : f64 -> f64 := fabs.
