(* Model/Eval.v — the tree-walking evaluator of eval.go / callable.go / env.go, one Gallina
   function per Go function, on JSON-level values, recursion on explicit fuel. *)
From JV Require Export Model.LibCore.
Local Open Scope nat_scope.
Local Open Scope list_scope.

(* running value of a path between steps: a Go slice (members may be nil when the input is
   missing) or a result sequence *)
Inductive pout := PSl (l : list ovalue) | PSq (l : list value).
Definition pout_items (p : pout) : list ovalue :=
  match p with PSl l => l | PSq l => map Some l end.

Definition is_array_node (n : node) : bool := match n with NArray _ => true | _ => false end.
Definition is_placeholder (n : node) : bool := match n with NPlaceholder => true | _ => false end.

Definition reserved_id_key : string := String (ascii_of_Z 1) "#id".

(* tag every object of a value with a distinct id under the reserved key (pre-order) *)
Fixpoint tag_ids (v : value) (next : nat) : value * nat :=
  let fix tl (l : list value) (n : nat) : list value * nat :=
    match l with
    | [] => ([], n)
    | x :: r => let '(x', n1) := tag_ids x n in let '(r', n2) := tl r n1 in (x' :: r', n2)
    end in
  let fix tm (m : list (string * value)) (n : nat) : list (string * value) * nat :=
    match m with
    | [] => ([], n)
    | (k, x) :: r => let '(x', n1) := tag_ids x n in let '(r', n2) := tm r n1 in ((k, x') :: r', n2)
    end in
  match v with
  | VArr l => let '(l', n) := tl l next in (VArr l', n)
  | VObj m => let '(m', n) := tm m (S next) in (VObj (obj_insert reserved_id_key (vnat next) m'), n)
  | _ => (v, next)
  end.

Fixpoint strip_ids (v : value) : value :=
  let fix sl (l : list value) : list value :=
    match l with [] => [] | x :: r => strip_ids x :: sl r end in
  let fix sm (m : list (string * value)) : list (string * value) :=
    match m with
    | [] => []
    | (k, x) :: r => if seqb k reserved_id_key then sm r else (k, strip_ids x) :: sm r
    end in
  match v with
  | VArr l => VArr (sl l)
  | VObj m => VObj (sm m)
  | _ => v
  end.

Definition obj_id (m : list (string * value)) : option f64 :=
  match assoc_get reserved_id_key m with Some (VNum x) => Some x | _ => None end.

(* apply [f] to the member list of every object carrying id [id] *)
Fixpoint update_by_id (id : f64) (f : list (string * value) -> list (string * value)) (v : value) : value :=
  let fix ul (l : list value) : list value :=
    match l with [] => [] | x :: r => update_by_id id f x :: ul r end in
  let fix um (m : list (string * value)) : list (string * value) :=
    match m with [] => [] | (k, x) :: r => (k, update_by_id id f x) :: um r end in
  match v with
  | VArr l => VArr (ul l)
  | VObj m =>
      let m' := um m in
      match obj_id m with
      | Some x => if feqb x id then VObj (f m') else VObj m'
      | None => VObj m'
      end
  | _ => v
  end.

Fixpoint find_by_id (id : f64) (v : value) : option value :=
  let fix fl (l : list value) : option value :=
    match l with [] => None | x :: r => match find_by_id id x with Some y => Some y | None => fl r end end in
  let fix fm (m : list (string * value)) : option value :=
    match m with [] => None | (_, x) :: r => match find_by_id id x with Some y => Some y | None => fm r end end in
  match v with
  | VArr l => fl l
  | VObj m => match obj_id m with
              | Some x => if feqb x id then Some v else fm m
              | None => fm m
              end
  | _ => None
  end.

(* functions become "" when a value is cloned through JSON *)
Fixpoint defunc (v : value) : value :=
  let fix dl (l : list value) : list value :=
    match l with [] => [] | x :: r => defunc x :: dl r end in
  let fix dm (m : list (string * value)) : list (string * value) :=
    match m with [] => [] | (k, x) :: r => (k, defunc x) :: dm r end in
  match v with
  | VArr l => VArr (dl l)
  | VObj m => VObj (dm m)
  | VFun _ => VStr ""
  | _ => v
  end.

Fixpoint value_finite (v : value) : bool :=
  let fix fl (l : list value) : bool :=
    match l with [] => true | x :: r => value_finite x && fl r end in
  let fix fm (m : list (string * value)) : bool :=
    match m with [] => true | (_, x) :: r => value_finite x && fm r end in
  match v with
  | VNum x => is_finite x
  | VArr l => fl l
  | VObj m => fm m
  | _ => true
  end.

Definition callable_name (c : callable) : string :=
  match c with
  | CBuiltin n => n
  | CLambda _ _ _ _ _ => "lambda"
  | CPartial n _ _ _ _ => n
  | CTransform _ _ _ _ => "transform"
  | CRegex src => src
  | CMatch n _ _ _ _ _ => n
  | CUndef n => n
  | CChain _ _ => ""
  | CTime n _ => n
  | CExt _ => "ext"
  end.

Definition param_count (c : callable) : nat :=
  match c with
  | CBuiltin n => match builtin_sig n with Some sg => List.length (bs_params sg) | None => 0 end
  | CLambda ps _ _ _ _ => List.length ps
  | CPartial _ _ args _ _ => List.length (filter is_placeholder args)
  | CTransform _ _ _ _ => 1
  | CRegex _ => 1
  | CMatch _ _ _ _ _ _ => 0
  | CUndef _ => 0
  | CChain _ _ => 1
  | CTime n _ => if seqb n "now" then 2 else 0
  | CExt _ => 0
  end.

(* lambdaCallable.validArgType *)
Fixpoint valid_arg_type (fuel : nat) (arg : value) (p : param) : bool :=
  match fuel with
  | O => false
  | S f =>
      let '(Param typ _ sub) := p in
      let has := fun (bit : N) => negb (N.eqb (N.land typ bit) 0) in
      if has PT_any then true else
      let j := has PT_json in
      match arg with
      | VStr _ => j || has PT_string
      | VNum _ => j || has PT_number
      | VBool _ => j || has PT_bool
      | VFun _ => has PT_func
      | VArr l =>
          if j then true
          else if has PT_array then
                 match sub with
                 | None | Some [] => true
                 | Some (sp :: _) => forallb (fun x => valid_arg_type f x sp) l
                 end
               else false
      | VObj _ => j || has PT_object
      | VNull => false
      end
  end.

Definition param_opt (p : param) : paramopt := let '(Param _ o _) := p in o.
Definition param_typ (p : param) : N := let '(Param t _ _) := p in t.
Definition is_optional (p : param) := match param_opt p with OptOptional => true | _ => false end.
Definition is_variadic (p : param) := match param_opt p with OptVariadic => true | _ => false end.
Definition is_contextable (p : param) := match param_opt p with OptContextable => true | _ => false end.

Fixpoint pad_lambda_optionals (params : list param) (argv : list ovalue) : list ovalue :=
  match params, argv with
  | _ :: ps, a :: r => a :: pad_lambda_optionals ps r
  | p :: ps, [] => if is_optional p then None :: pad_lambda_optionals ps [] else []
  | [], l => l
  end.

(* match data returned by a regex / match callable, as jlib.callMatchFunc reads it *)
Record mrec := mkM { m_value : string; m_start : Z; m_end : Z; m_groups : list string }.

Definition match_object (m : string) (st en : Z) (groups : list string) (next : callable) : value :=
  VObj (obj_of_list [ ("match", VStr m); ("start", VNum (f_of_Z st)); ("end", VNum (f_of_Z en));
                      ("groups", VArr (map VStr groups)); ("next", VFun next) ]).

Definition byte_slice (s : string) (a b : Z) : string :=
  sslice (Z.to_nat a) (Z.to_nat b) s.

(* newMatchCallable over the oracle's index lists *)
Fixpoint match_chain (name : string) (s : string) (ms : list (list (Z * Z))) : callable :=
  match ms with
  | [] => CUndef name
  | idx :: rest =>
      match idx with
      | [] => CUndef name
      | (a, b) :: gs =>
          CMatch name (byte_slice s a b) a b
                 (map (fun g => if (fst g <? 0)%Z then "" else byte_slice s (fst g) (snd g)) gs)
                 (match_chain "next" s rest)
      end
  end.


(* ==== loop bodies of the evaluator as standalone functions over an abstract sub-evaluator
   [evn : node -> ovalue -> M ovalue] (evaluate this node with that context item).  The big
   fixpoint below instantiates [evn] with itself at smaller fuel; theorems about these functions
   hold for every [evn]. ==== *)

(* pure outcome of an operator once its operands are evaluated *)
Definition pure_res (A : Type) := (A + err)%type.

(* evalNumericOperator on evaluated operands: (value if a number, "is missing or a number") *)
Definition num_side_of (v : ovalue) : option f64 * bool :=
  match v with
  | None => (None, true)
  | Some (VNum x) => (Some x, true)
  | Some _ => (None, false)
  end.

Definition numeric_result (op : numop) (l r : ovalue) : pure_res ovalue :=
  let '(a, aok) := num_side_of l in
  let '(b, bok) := num_side_of r in
  if negb aok then inr (EEval ErrNonNumberLHS)
  else if negb bok then inr (EEval ErrNonNumberRHS)
  else match a, b with
       | Some x, Some y =>
           let z := num_apply op x y in
           if is_inf z then inr (EEval ErrNumberInf)
           else if is_nan z then inr (EEval ErrNumberNaN)
           else inl (Some (VNum z))
       | _, _ => inl None
       end.

Definition negation_result (v : ovalue) : pure_res ovalue :=
  match v with
  | None => inl None
  | Some (VNum x) => inl (Some (VNum (fopp x)))
  | Some _ => inr (EEval ErrNonNumberRHS)
  end.

(* evalComparisonOperator on evaluated operands; None = the explicit panic of lt *)
Definition comparison_result (op : cmpop) (a b : ovalue) : option (pure_res ovalue) :=
  let comparable := fun v => is_number v || is_string v in
  let need := match op with CmpEq | CmpNe | CmpIn => false | _ => true end in
  if need && (match a with Some _ => negb (comparable a) | None => false end)
  then Some (inr (EEval ErrNonComparableLHS))
  else if need && (match b with Some _ => negb (comparable b) | None => false end)
  then Some (inr (EEval ErrNonComparableRHS))
  else if need && (match a, b with
                   | Some _, Some _ => negb (Bool.eqb (is_number a) (is_number b))
                   | _, _ => false end)
  then Some (inr (EEval ErrTypeMismatch))
  else match a, b with
       | Some x, Some y =>
           let vb := fun t : bool => Some (inl (Some (VBool t))) in
           match op with
           | CmpIn => vb (in_values x y)
           | CmpEq => vb (eq_values x y)
           | CmpNe => vb (negb (eq_values x y))
           | CmpLt => match lt_values x y with Some t => vb t | None => None end
           | CmpLe => match lt_values x y with Some t => vb (t || eq_values x y) | None => None end
           | CmpGt => match lt_values x y with Some t => vb (negb (t || eq_values x y)) | None => None end
           | CmpGe => match lt_values x y with Some t => vb (negb t) | None => None end
           end
       | _, _ => Some (inl (Some (VBool false)))
       end.

Definition boolean_result (op : boolop) (a b : ovalue) : ovalue :=
  Some (VBool (match op with
               | BoolAnd => otruthy a && otruthy b
               | BoolOr => otruthy a || otruthy b
               end)).

(* evalRange on evaluated bounds *)
Definition range_result (l r : ovalue) : pure_res ovalue :=
  let is_int := fun v => match v with Some (VNum x) => f_is_integer x | _ => false end in
  match l, r with
  | Some _, _ =>
      if negb (is_int l) then inr (EEval ErrNonIntegerLHS)
      else match r with
           | Some _ =>
               if negb (is_int r) then inr (EEval ErrNonIntegerRHS) else
               match l, r with
               | Some (VNum a), Some (VNum b) =>
                   if fltb b a then inl None else
                   let size := (go_int (fsub b a) + 1)%Z in
                   if (size <? 0)%Z || (max_range_items <? size)%Z
                   then inr (EEval ErrMaxRangeItems)
                   else inl (Some (VArr (range_items (Z.to_nat size) a)))
               | _, _ => inl None
               end
           | None => inl None
           end
  | None, Some _ => if negb (is_int r) then inr (EEval ErrNonIntegerRHS) else inl None
  | None, None => inl None
  end.

Definition lift_pure {A} (r : pure_res A) : M A :=
  match r with inl a => ret a | inr e => fail e end.

(* applyFilter: evaluate the filter once per item, keep the selected copies *)
Fixpoint filter_loop (ev1 : ovalue -> M ovalue) (n : nat) (l : list value) (i : nat) : M (list value) :=
  match l with
  | [] => ret []
  | x :: r =>
      res <- ev1 (Some x) ;;
      rest <- filter_loop ev1 n r (S i) ;;
      ret (repeat x (filter_copies n i res) ++ rest)
  end.

(* evalPredicate: successive filters on the survivors; nothing kept = no value *)
Fixpoint predicate_loop (flt : node -> list value -> M (list value)) (fs : list node) (cur : list value)
  : M ovalue :=
  match fs with
  | [] => ret (Some (normalize_array cur))
  | f1 :: rest =>
      kept <- flt f1 cur ;;
      match kept with
      | [] => ret None
      | _ => predicate_loop flt rest kept
      end
  end.

(* evalArray *)
Definition array_items (evn : node -> M ovalue) (items : list node) : M (list value) :=
  rs <- mapM (fun it =>
                v <- evn it ;;
                ret (match v with
                     | None => []
                     | Some x => if is_array_node it then [x] else arrayify (Some x)
                     end)) items ;;
  ret (List.concat rs).

(* one step of evalPath (evalPathStep, or eval for a leading array constructor):
   None = the path has no value *)
Definition path_step (evn : node -> ovalue -> M ovalue) (first last : bool) (st : node) (out : pout)
  : M (option pout) :=
  if first && is_array_node st then
    v <- evn st (Some (VArr (map (fun o => match o with Some x => x | None => VNull end) (pout_items out)))) ;;
    ret (match v with
         | None => None
         | Some (VArr []) => None
         | Some (VArr l) => Some (PSl (map Some l))
         | Some x => Some (PSl [Some x])
         end)
  else
    rs <- mapM (fun it => evn st it) (pout_items out) ;;
    let results := somes rs in
    ret (match results with
         | [VArr l] =>
             if last then
               match l with
               | [] => None
               | _ => Some (PSl (map Some l))
               end
             else
               let items := if is_array_node st then results else l in
               match items with
               | [] => None
               | _ => Some (PSq items)
               end
         | _ =>
             let items := if is_array_node st then results
                          else flat_map (fun v => arrayify (Some v)) results in
             match items with
             | [] => None
             | _ => Some (PSq items)
             end
         end).

Fixpoint path_loop (evn : node -> ovalue -> M ovalue) (keep first : bool) (ss : list node) (out : pout)
  : M ovalue :=
  match ss with
  | [] =>
      ret (match out with
           | PSq l => collapse keep l
           | PSl l => Some (VArr (somes l))
           end)
  | st :: rest =>
      let last := match rest with [] => true | _ => false end in
      o <- path_step evn first last st out ;;
      match o with
      | None => ret None
      | Some out' => path_loop evn keep false rest out'
      end
  end.

Definition path_start (steps : list node) (input : ovalue) : pout :=
  let is_var := match steps with
                | NVariable _ :: _ => true
                | NPredicate (NVariable _) _ :: _ => true
                | _ => false
                end in
  if is_var || negb (is_array input) then PSl [input]
  else PSl (map Some (arrayify input)).

(* groupItemsByKey: key -> (pair index, item indexes), in order of first appearance *)
Definition groups_t := list (string * (nat * list nat)).

Fixpoint group_items (evn : node -> ovalue -> M ovalue) (k : node) (i : nat) (its : list ovalue) (j : nat)
         (acc : groups_t) : M groups_t :=
  match its with
  | [] => ret acc
  | it :: r =>
      v <- evn k it ;;
      match v with
      | Some (VStr key) =>
          match assoc_get key acc with
          | None => group_items evn k i r (S j) (acc ++ [(key, (i, [j]))])
          | Some (p, idxs) =>
              if negb (p =? i) then fail (EEval ErrDuplicateKey)
              else group_items evn k i r (S j) (assoc_set key (i, idxs ++ [j]) acc)
          end
      | _ => fail (EEval ErrIllegalKey)
      end
  end.

Fixpoint group_pairs (evn : node -> ovalue -> M ovalue) (items : list ovalue) (ps : list (node * node)) (i : nat)
         (acc : groups_t) : M groups_t :=
  match ps with
  | [] => ret acc
  | (k, _) :: rest =>
      match k with
      | NString key =>
          match assoc_get key acc with
          | Some _ => fail (EEval ErrDuplicateKey)
          | None => group_pairs evn items rest (S i) (acc ++ [(key, (i, []))])
          end
      | _ =>
          acc' <- group_items evn k i items 0 acc ;;
          group_pairs evn items rest (S i) acc'
      end
  end.

(* evalObject *)
Definition object_with (evn : node -> ovalue -> M ovalue) (pairs : list (node * node)) (data : ovalue)
  : M ovalue :=
  let items : list ovalue := match data with
                             | Some (VArr l) => map Some l
                             | _ => [data]
                             end in
  let nitems := List.length items in
  groups <- group_pairs evn items pairs 0 [] ;;
  (* Go iterates the key map in unspecified order; the model uses key order *)
  members <-
    mapM (fun g : string * (nat * list nat) =>
            let '(key, (p, idxs)) := g in
            let sel : list ovalue :=
              let n := List.length idxs in
              if negb (n =? 0) && negb (n =? nitems)
              then map (fun j => nth j items None) idxs
              else items in
            let arg := Some (VArr (map (fun o => match o with Some x => x | None => VNull end) sel)) in
            match nth_error pairs p with
            | Some (_, vn) =>
                v <- evn vn arg ;;
                ret (match v with Some x => [(key, x)] | None => [] end)
            | None => ret []
            end)
         (stable_sort (fun a b => sltb (fst a) (fst b)) groups) ;;
  ret (Some (VObj (obj_of_list (List.concat members)))).

(* buildSortInfo: the key tuple of every item; per term 0 = no value seen yet, 1 = numbers,
   2 = strings *)
Fixpoint sort_keys (evn : node -> ovalue -> M ovalue) (it : value) (ts : list (sortdir * node)) (ks : list nat)
  : M (list ovalue * list nat) :=
  match ts, ks with
  | (_, te) :: tr, k :: kr =>
      v <- evn te (Some it) ;;
      match v with
      | None => '(vs, ks') <- sort_keys evn it tr kr ;; ret (None :: vs, k :: ks')
      | Some (VNum _) =>
          if k =? 2 then fail (EEval ErrSortMismatch)
          else '(vs, ks') <- sort_keys evn it tr kr ;; ret (v :: vs, 1 :: ks')
      | Some (VStr _) =>
          if k =? 1 then fail (EEval ErrSortMismatch)
          else '(vs, ks') <- sort_keys evn it tr kr ;; ret (v :: vs, 2 :: ks')
      | Some _ => fail (EEval ErrNonSortable)
      end
  | _, _ => ret ([], [])
  end.

Definition sort_info (evn : node -> ovalue -> M ovalue) (terms : list (sortdir * node)) (l : list value)
  : M (list (value * list ovalue)) :=
  '(info, _) <-
    foldM (fun (st : list (value * list ovalue) * list nat) (it : value) =>
             let '(acc, kinds) := st in
             '(vals, kinds') <- sort_keys evn it terms kinds ;;
             ret (acc ++ [(it, vals)], kinds'))
          ([], map (fun _ => 0) terms) l ;;
  ret info.

(* makeLessFunc on key tuples *)
Fixpoint sort_less (ts : list sortdir) (va vb : list ovalue) : bool :=
  match ts, va, vb with
  | dir :: tr, x :: ra, y :: rb =>
      match x, y with
      | None, None => sort_less tr ra rb
      | None, _ => false
      | _, None => true
      | Some p, Some q =>
          if eq_values p q then sort_less tr ra rb
          else match dir with
               | SortDescending => match lt_values q p with Some t => t | None => false end
               | _ => match lt_values p q with Some t => t | None => false end
               end
      end
  | _, _, _ => false
  end.

Definition sorted_items (terms : list (sortdir * node)) (info : list (value * list ovalue)) : ovalue :=
  Some (normalize_array (map fst (stable_sort (fun a b => sort_less (map fst terms) (snd a) (snd b)) info))).

(* lambdaCallable.validateArgs: the argument list the body sees, or the error *)
Definition lambda_args (vfuel : nat) (params : list param) (lctx : ovalue) (fname : string) (argv : list ovalue)
  : pure_res (list ovalue) :=
  let argc := List.length argv in
  let pc := List.length params in
  let argv1 := if (argc <? pc) && (match params with p :: _ => is_contextable p | [] => false end)
               then lctx :: argv else argv in
  let argv2 := pad_lambda_optionals params argv1 in
  let n := List.length argv2 in
  let isvar := match rev params with p :: _ => is_variadic p | [] => false end in
  if (n <? pc) || ((pc <? n) && negb isvar) then inr (EArgCount fname) else
  let checked :=
    (fix chk (l : list ovalue) (i : nat) : pure_res (list ovalue) :=
       match l with
       | [] => inl []
       | None :: r => match chk r (S i) with inl t => inl (None :: t) | inr e => inr e end
       | Some a :: r =>
           let p := nth i params (last params (Param 0 OptNone None)) in
           let a' := if N.eqb (param_typ p) PT_array then VArr (arrayify (Some a)) else a in
           if (match params with [] => false | _ => valid_arg_type vfuel a' p end)
           then match chk r (S i) with inl t => inl (Some a' :: t) | inr e => inr e end
           else inr (EArgType fname (S i))
       end) argv2 0 in
  match checked with
  | inr e => inr e
  | inl checked =>
      (* wrapVariadicArgs: a missing argument leaves its slot nil *)
      if isvar then
        let fixed := firstn (pc - 1) checked in
        let vars := skipn (pc - 1) checked in
        inl (fixed ++ [Some (VArr (map (fun o => match o with Some x => x | None => VNull end) vars))])
      else inl checked
  end.

(* partialCallable.Call: placeholders filled left to right, fixed arguments evaluated *)
Definition partial_args (evn : node -> M ovalue) (pargs : list node) (argv : list ovalue) : M (list ovalue) :=
  '(args, _) <-
    foldM (fun (st : list ovalue * list ovalue) (a : node) =>
             let '(acc, rest) := st in
             if is_placeholder a then
               match rest with
               | v :: r => ret (acc ++ [v], r)
               | [] => ret (acc ++ [None], [])
               end
             else v <- evn a ;; ret (acc ++ [v], rest))
          ([], argv) pargs ;;
  ret args.

(* lambdaCallable.Call: bind parameters (missing = no value, surplus ignored) *)
Fixpoint bind_params (env : nat) (names : list string) (vals : list ovalue) : M unit :=
  match names with
  | [] => ret tt
  | x :: r =>
      let '(v, vr) := match vals with v :: vr => (v, vr) | [] => (None, []) end in
      _ <- bind_var env x v ;; bind_params env r vr
  end.

Definition regex_key (src subj : string) : string :=
  ("RE:" ++ hex_of_string src ++ ":" ++ hex_of_string subj)%string.
Definition pow_key (x y : f64) : string :=
  ("POW:" ++ hex16_of_Z (bits_of_f x) ++ ":" ++ hex16_of_Z (bits_of_f y))%string.

Section Eval.
  Variable fmt_num : f64 -> string.
  (* regexp.FindAllStringSubmatchIndex(src, subject, -1): None = the driver has not supplied it *)
  Variable regex_find : string -> string -> option (list (list (Z * Z))).
  (* math.Pow *)
  Variable pow_fn : f64 -> f64 -> option f64.
  (* the pure library (strings, numbers, dates): None = function not modelled *)
  Variable xlib : string -> list carg -> option (lres ovalue).
  (* the instant read by newEnv, ms since the epoch *)
  Variable clock_ms : Z.

  Definition stringify (v : ovalue) : M string :=
    match v with
    | None => ret ""
    | Some x => lift_lres (string_of_value fmt_num x) (ret "")
    end.

  Definition need_regex (src subj : string) : M (list (list (Z * Z))) :=
    match regex_find src subj with
    | Some r => ret r
    | None => fun _ => Need (regex_key src subj)
    end.

  (* extractMatches / callMatchFunc: follow the `next` chain of a matcher function *)
  Fixpoint call_match_func (fuel : nat) (apply : callable -> list ovalue -> M ovalue)
           (fn : callable) (argv : list ovalue) (acc : list mrec) : M (list mrec) :=
    match fuel with
    | O => fun _ => OutOfFuel
    | S f =>
        res <- apply fn argv ;;
        match res with
        | None => ret (rev acc)
        | Some (VObj m) =>
            match assoc_get "match" m with
            | Some (VStr value) =>
                match assoc_get "start" m with
                | Some (VNum st) =>
                    match assoc_get "end" m with
                    | Some (VNum en) =>
                        match assoc_get "groups" m with
                        | Some (VArr gs) =>
                            if all_strings gs then
                              match assoc_get "next" m with
                              | Some (VFun next) =>
                                  call_match_func f apply next []
                                    (mkM value (go_int st) (go_int en) (somes (map str_of gs)) :: acc)
                              | _ => fail (ELib "match function: next")
                              end
                            else fail (ELib "match function: groups")
                        | _ => fail (ELib "match function: groups")
                        end
                    | _ => fail (ELib "match function: end")
                    end
                | _ => fail (ELib "match function: start")
                end
            | _ => fail (ELib "match function: match")
            end
        | Some _ => fail (ELib "match function must return an object")
        end
    end.

  Fixpoint offsets_ok (len pos : Z) (ms : list mrec) : bool :=
    match ms with
    | [] => true
    | m :: r => (pos <=? m_start m)%Z && (m_start m <=? m_end m)%Z && (m_end m <=? len)%Z
                && offsets_ok len (m_end m) r
    end.

  Definition extract_matches (apply : callable -> list ovalue -> M ovalue)
             (fn : callable) (s : string) (limit : Z) : M (list mrec) :=
    ms <- call_match_func (S (S (slen s))) apply fn [Some (VStr s)] [] ;;
    let ms := if (0 <=? limit)%Z && (limit <? Z.of_nat (List.length ms))%Z
              then firstn (Z.to_nat limit) ms else ms in
    (* offsets must lie within the string, in ascending order (a user-defined matcher may
       return anything) *)
    if offsets_ok (Z.of_nat (slen s)) 0%Z ms then ret ms
    else fail (ELib "match function: offsets").

  (* Go slice expression s[a:b] on a string: panics unless 0 <= a <= b <= len *)
  Definition go_slice (s : string) (a b : Z) : M string :=
    if ((0 <=? a) && (a <=? b) && (b <=? Z.of_nat (slen s)))%Z then ret (byte_slice s a b)
    else panic "slice bounds out of range".

  Definition from_xlib (name : string) (args : list carg) : M ovalue :=
    match xlib name args with
    | Some (LErr t) =>
        if sprefix "NEED:" t then (fun _ => Need (sdrop 5 t)) else fail (ELib t)
    | Some r => lift_lres r (ret None)
    | None => fail (ELib ("unmodelled:" ++ name)%string)
    end.

  (* ---- the evaluator ---- *)
  Fixpoint eval (fuel : nat) (n : node) (input : ovalue) (env : nat) {struct fuel} : M ovalue :=
    match fuel with
    | O => fun _ => OutOfFuel
    | S f =>
        let ev := eval f in
        let cl := call f in
        let evn := fun (nd : node) (it : ovalue) => ev nd it env in
        match n with
        | NString s => ret (Some (VStr s))
        | NNumber x => ret (Some (VNum x))
        | NBoolean b => ret (Some (VBool b))
        | NNull => ret (Some VNull)
        | NRegex src => ret (Some (VFun (CRegex src)))
        | NVariable name =>
            if seqb name "" then ret input
            else r <- lookup_var env name ;;
                 ret (match r with
                      | Some v => v
                      | None => match builtin_sig name with      (* baseEnv is the outermost scope *)
                                | Some _ => Some (VFun (CBuiltin name))
                                | None => None
                                end
                      end)
        | NName name _ => ret (eval_name_value name input)
        | NPath steps keep => eval_path f steps keep input env
        | NNegation rhs =>
            v <- ev rhs input env ;;
            lift_pure (negation_result v)
        | NRange lhs rhs =>
            l <- ev lhs input env ;;
            r <- ev rhs input env ;;
            lift_pure (range_result l r)
        | NArray items =>
            l <- array_items (fun it => ev it input env) items ;;
            ret (Some (VArr l))
        | NObject pairs => eval_object f pairs input env
        | NBlock exprs =>
            env' <- new_frame (Some env) ;;
            foldM (fun _ e => ev e input env') None exprs
        | NWildcard => ret (collapse false (wildcard_items input))
        | NDescendent =>
            ret (collapse false (match input with Some v => descendants v | None => [] end))
        | NTransform p u d => ret (Some (VFun (CTransform p u d env)))
        | NLambda ps body _ => ret (Some (VFun (CLambda ps None body env input)))
        | NTypedLambda ps body _ sg => ret (Some (VFun (CLambda ps (Some sg) body env input)))
        | NPartial fnode args =>
            v <- ev fnode input env ;;
            match v with
            | Some (VFun c) => ret (Some (VFun (CPartial (callable_name c ++ "_partial")%string c args env input)))
            | _ => fail (EEval ErrNonCallablePartial)
            end
        | NPlaceholder => panic "eval: unexpected node type"
        | NCall fnode args => eval_call f fnode args input env
        | NPredicate e filters =>
            items <- ev e input env ;;
            match items with
            | None => ret None
            | Some _ => predicate_loop (fun flt cur => apply_filter f flt cur env) filters (arrayify items)
            end
        | NGroup e pairs =>
            items <- ev e input env ;;
            eval_object f pairs items env
        | NConditional c t e =>
            v <- ev c input env ;;
            if otruthy v then ev t input env
            else match e with Some x => ev x input env | None => ret None end
        | NAssignment name vn =>
            v <- ev vn input env ;;
            _ <- bind_var env name v ;;
            ret v
        | NNumeric op lhs rhs =>
            a <- ev lhs input env ;;
            b <- ev rhs input env ;;
            lift_pure (numeric_result op a b)
        | NComparison op lhs rhs =>
            a <- ev lhs input env ;;
            b <- ev rhs input env ;;
            match comparison_result op a b with
            | Some r => lift_pure r
            | None => panic "lt: invalid types"
            end
        | NBoolOp op lhs rhs =>
            a <- ev lhs input env ;;
            b <- ev rhs input env ;;
            ret (boolean_result op a b)
        | NConcat lhs rhs =>
            a <- ev lhs input env ;;
            b <- ev rhs input env ;;
            s1 <- stringify a ;;
            s2 <- stringify b ;;
            ret (Some (VStr (s1 ++ s2)%string))
        | NSort e terms => eval_sort f e terms input env
        | NApply lhs rhs =>
            match rhs with
            | NCall fnode args => eval_call f fnode (lhs :: args) input env
            | _ =>
                a <- ev lhs input env ;;
                b <- ev rhs input env ;;
                match b with
                | Some (VFun f2) =>
                    match a with
                    | Some (VFun f1) => ret (Some (VFun (CChain f1 f2)))
                    | _ => cl f2 None None [a]
                    end
                | _ => fail (EEval ErrNonCallableApply)
                end
            end
        | NDot _ _ | NSingletonArray _ | NPred _ _ => panic "eval: unexpected node type"
        end
    end

  (* evalPath / evalPathStep *)
  with eval_path (fuel : nat) (steps : list node) (keep : bool) (input : ovalue) (env : nat)
       {struct fuel} : M ovalue :=
    match fuel with
    | O => fun _ => OutOfFuel
    | S f =>
        match steps with
        | [] => ret None
        | _ => path_loop (fun st it => eval f st it env) keep true steps (path_start steps input)
        end
    end

  (* evalObject / groupItemsByKey *)
  with eval_object (fuel : nat) (pairs : list (node * node)) (data : ovalue) (env : nat)
       {struct fuel} : M ovalue :=
    match fuel with
    | O => fun _ => OutOfFuel
    | S f =>
        object_with (fun nd it => eval f nd it env) pairs data
    end

  (* applyFilter *)
  with apply_filter (fuel : nat) (flt : node) (items : list value) (env : nat) {struct fuel}
       : M (list value) :=
    match fuel with
    | O => fun _ => OutOfFuel
    | S f =>
        filter_loop (fun it => eval f flt it env) (List.length items) items 0
    end

  (* evalSort / buildSortInfo / makeLessFunc *)
  with eval_sort (fuel : nat) (e : node) (terms : list (sortdir * node)) (input : ovalue) (env : nat)
       {struct fuel} : M ovalue :=
    match fuel with
    | O => fun _ => OutOfFuel
    | S f =>
        items <- eval f e input env ;;
        match items with
        | None => ret None
        | Some _ =>
            info <- sort_info (fun nd it => eval f nd it env) terms (arrayify items) ;;
            ret (sorted_items terms info)
        end
    end

  (* evalFunctionCall *)
  with eval_call (fuel : nat) (fnode : node) (args : list node) (input : ovalue) (env : nat)
       {struct fuel} : M ovalue :=
    match fuel with
    | O => fun _ => OutOfFuel
    | S f =>
        v <- eval f fnode input env ;;
        match v with
        | Some (VFun c) =>
            let nm := match fnode with NVariable name => Some name | _ => None end in
            argv <- mapM (fun a => eval f a input env) args ;;
            call f c nm input argv
        | _ => fail (EEval ErrNonCallable)
        end
    end

  (* Callable.Call; [nm] = the variable name the callee was called by (SetName), [ctx] = the
     context item at the call site (SetContext; None for indirect calls) *)
  with call (fuel : nat) (c : callable) (nm : option string) (ctx : ovalue) (argv : list ovalue)
       {struct fuel} : M ovalue :=
    match fuel with
    | O => fun _ => OutOfFuel
    | S f =>
        let apply := fun c' a => call f c' None None a in
        match c with
        | CBuiltin name =>
            let fname := match nm with Some n => n | None => name end in
            match builtin_sig name with
            | None => panic "unknown builtin"
            | Some sg =>
                match prepare_call sg ctx argv with
                | PrepUndefined => ret None
                | PrepArgCount => fail (EArgCount fname)
                | PrepArgType k => fail (EArgType fname k)
                | PrepArgs cs => call_builtin f name cs
                end
            end
        | CLambda ps sg body lenv lctx =>
            argv' <-
              match sg with
              | None => ret argv
              | Some params =>
                  lift_pure (lambda_args (S (S f)) params lctx (match nm with Some x => x | None => "lambda" end) argv)
              end ;;
            env' <- new_frame (Some lenv) ;;
            _ <- bind_params env' ps argv' ;;
            eval f body lctx env'
        | CPartial _ fn pargs penv pctx =>
            args <- partial_args (fun a => eval f a pctx penv) pargs argv ;;
            call f fn None None args
        | CTransform pat upd del tenv =>
            match argv with
            | [a] =>
                match a with
                | Some (VObj _) | Some (VArr _) | None => ret tt
                | Some _ => fail (EArgType "transform" 1)
                end ;;;
                match a with
                | None => ret None
                | Some orig =>
                    if negb (value_finite orig) then fail (EEval ErrClone) else
                    let '(tagged, _) := tag_ids (defunc orig) 0 in
                    items <- eval f pat (Some tagged) tenv ;;
                    result <-
                      foldM (fun (tree : value) (item : value) =>
                               match item with
                               | VObj im =>
                                   match obj_id im with
                                   | None =>            (* an object that is not part of the copy *)
                                       u <- eval f upd (Some (strip_ids item)) tenv ;;
                                       item1 <-
                                         match u with
                                         | None => ret item
                                         | Some (VObj um) =>   (* the stray object is updated in place: the delete list sees it *)
                                             ret (VObj (fold_left (fun d kv => obj_insert (fst kv) (snd kv) d) um im))
                                         | Some _ => fail (EEval ErrIllegalUpdate)
                                         end ;;
                                       match del with
                                       | None => ret tree
                                       | Some dn =>
                                           d <- eval f dn (Some (strip_ids item1)) tenv ;;
                                           if all_strings (arrayify d) then ret tree
                                           else fail (EEval ErrIllegalDelete)
                                       end
                                   | Some id =>
                                       let cur := match find_by_id id tree with Some c => c | None => item end in
                                       u <- eval f upd (Some (strip_ids cur)) tenv ;;
                                       tree1 <-
                                         match u with
                                         | None => ret tree
                                         | Some (VObj um) =>
                                             ret (update_by_id id (fun m => fold_left (fun d kv => obj_insert (fst kv) (snd kv) d) um m) tree)
                                         | Some _ => fail (EEval ErrIllegalUpdate)
                                         end ;;
                                       match del with
                                       | None => ret tree1
                                       | Some dn =>
                                           let cur1 := match find_by_id id tree1 with Some c => c | None => item end in
                                           d <- eval f dn (Some (strip_ids cur1)) tenv ;;
                                           let ds := arrayify d in
                                           if all_strings ds then
                                             ret (update_by_id id (fun m => fold_left (fun d k => obj_remove k d) (somes (map str_of ds)) m) tree1)
                                           else fail (EEval ErrIllegalDelete)
                                       end
                                   end
                               | _ => ret tree
                               end)
                            tagged (arrayify items) ;;
                    ret (Some (strip_ids result))
                end
            | _ => fail (EArgCount "transform")
            end
        | CRegex src =>
            match argv with
            | Some (VStr s) :: _ =>
                ms <- need_regex src s ;;
                call f (match_chain src s ms) None None []
            | _ => ret None
            end
        | CMatch _ m st en groups next => ret (Some (match_object m st en groups next))
        | CUndef _ => ret None
        | CChain f1 f2 =>
            let a := match argv with x :: _ => x | [] => None end in
            r <- call f f1 None None [a] ;;
            call f f2 None None [r]
        | CTime name ms =>
            if seqb name "millis" then ret (Some (VNum (f_of_Z ms)))
            else
              let pic := match argv with a :: _ => a | [] => None end in
              let tz := match argv with _ :: b :: _ => b | _ => None end in
              let opt := fun (o : ovalue) (i : nat) =>
                match o with
                | None => ret (AOpt None)
                | Some (VStr s) => ret (AOpt (Some (AStr s)))
                | Some _ => fail (EArgType "now" i)
                end in
              p <- opt pic 2 ;; t <- opt tz 3 ;;
              from_xlib "fromMillis" [AInt ms; p; t]
        | CExt _ => fail (ELib "unmodelled:extension")
        end
    end

  (* dispatch to the Go function behind a built-in, on converted arguments *)
  with call_builtin (fuel : nat) (name : string) (args : list carg) {struct fuel} : M ovalue :=
    match fuel with
    | O => fun _ => OutOfFuel
    | S f =>
        let apply := fun c' a => call f c' None None a in
        let is := seqb name in
        let badargs := panic "builtin: unexpected converted arguments" in
        let limit_of := fun (o : carg) => match o with AOpt (Some (AInt z)) => Some z | _ => None end in
        if is "string" then
          match args with
          | [AVal (Some v)] => s <- stringify (Some v) ;; ret (Some (VStr s))
          | _ => badargs
          end
        else if is "length" then
          match args with [AStr s] => ret (Some (vnat (rune_count s))) | _ => badargs end
        else if is "boolean" then
          match args with [AVal v] => ret (Some (VBool (otruthy v))) | _ => badargs end
        else if is "not" then
          match args with [AVal v] => ret (Some (VBool (negb (otruthy v)))) | _ => badargs end
        else if is "exists" then
          match args with
          | [AVal v] => ret (Some (VBool (match v with Some _ => true | None => false end)))
          | _ => badargs
          end
        else if is "count" then
          match args with [AVal v] => ret (Some (lib_count v)) | _ => badargs end
        else if is "distinct" then
          match args with [AVal v] => ret (lib_distinct v) | _ => badargs end
        else if is "append" then
          match args with [AVal a; AVal b] => ret (lib_append a b) | _ => badargs end
        else if is "reverse" then
          match args with [AVal v] => ret (lib_reverse v) | _ => badargs end
        else if is "sort" then
          match args with
          | [AVal v; AOpt None] => lib_sort apply v None
          | [AVal v; AOpt (Some (AFun c))] => lib_sort apply v (Some c)
          | _ => badargs
          end
        else if is "shuffle" then
          match args with [AVal v] => ret (lib_shuffle v) | _ => badargs end
        else if is "zip" then
          lib_zip (map (fun a => match a with AVal v => v | _ => None end) args)
        else if is "map" then
          match args with [AVal v; AFun c] => lib_map apply param_count v c | _ => badargs end
        else if is "filter" then
          match args with [AVal v; AFun c] => lib_filter apply param_count v c | _ => badargs end
        else if is "reduce" then
          match args with
          | [AVal v; AFun c; AOpt None] => lib_reduce apply param_count v c None
          | [AVal v; AFun c; AOpt (Some (AVal i))] => lib_reduce apply param_count v c (Some i)
          | _ => badargs
          end
        else if is "single" then
          match args with [AVal v; AFun c] => lib_single apply param_count v c | _ => badargs end
        else if is "sum" then match args with [AVal v] => lib_sum v | _ => badargs end
        else if is "max" then match args with [AVal v] => lib_minmax "max" (fun n m => fltb m n) v | _ => badargs end
        else if is "min" then match args with [AVal v] => lib_minmax "min" fltb v | _ => badargs end
        else if is "average" then match args with [AVal v] => lib_average v | _ => badargs end
        else if is "each" then
          match args with [AVal v; AFun c] => lib_each apply param_count v c | _ => badargs end
        else if is "sift" then
          match args with [AVal v; AFun c] => lib_sift apply param_count v c | _ => badargs end
        else if is "keys" then match args with [AVal v] => ret (lib_keys v) | _ => badargs end
        else if is "lookup" then
          match args with [AVal v; AStr s] => ret (lib_lookup v s) | _ => badargs end
        else if is "spread" then match args with [AVal v] => ret (lib_spread v) | _ => badargs end
        else if is "merge" then match args with [AVal v] => lib_merge v | _ => badargs end
        else if is "type" then match args with [AVal v] => lib_type v | _ => badargs end
        else if is "error" then
          match args with [AStr s] => fail (ELib "error()") | _ => badargs end
        else if is "abs" then match args with [AFloat x] => ret (Some (VNum (fabs x))) | _ => badargs end
        else if is "floor" then match args with [AFloat x] => ret (Some (VNum (ffloor x))) | _ => badargs end
        else if is "ceil" then match args with [AFloat x] => ret (Some (VNum (fceil x))) | _ => badargs end
        else if is "sqrt" then
          match args with
          | [AFloat x] => if fltb x fzero then fail (ELib "sqrt: negative") else ret (Some (VNum (fsqrt x)))
          | _ => badargs
          end
        else if is "power" then
          match args with
          | [AFloat x; AFloat y] =>
              match pow_fn x y with
              | None => fun _ => Need (pow_key x y)
              | Some r => if is_inf r || is_nan r then fail (ELib "power: out of range") else ret (Some (VNum r))
              end
          | _ => badargs
          end
        else if is "random" then fail (ELib "unmodelled:random")
        else if is "join" then
          match args with
          | [AVal v; sep] =>
              let sp := match sep with AOpt (Some (AStr s)) => s | _ => "" end in
              match v with
              | Some (VArr l) =>
                  if all_strings l then ret (Some (VStr (sjoin sp (somes (map str_of l)))))
                  else fail (ELib "join: array of strings")
              | Some (VStr s) => ret (Some (VStr s))
              | _ => fail (ELib "join: array of strings")
              end
          | _ => badargs
          end
        else if is "contains" then
          match args with
          | [AStr s; AFun c] =>
              ms <- extract_matches apply c s (-1) ;;
              ret (Some (VBool (match ms with [] => false | _ => true end)))
          | _ => from_xlib name args
          end
        else if is "match" then
          match args with
          | [AStr s; AFun c; lim] =>
              let l := match limit_of lim with Some z => z | None => 0%Z end in
              if (l <? 0)%Z then fail (ELib "match: limit") else
              ms <- extract_matches apply c s (match limit_of lim with Some z => z | None => (-1)%Z end) ;;
              ret (Some (VArr (map (fun m => VObj (obj_of_list
                      [("match", VStr (m_value m)); ("index", VNum (f_of_Z (m_start m)));
                       ("groups", VArr (map VStr (m_groups m)))])) ms)))
          | _ => badargs
          end
        else if is "split" then
          match args with
          | [AStr s; AFun c; lim] =>
              let l := match limit_of lim with Some z => z | None => 0%Z end in
              if (l <? 0)%Z then fail (ELib "split: limit") else
              ms <- extract_matches apply c s (-1) ;;
              '(parts, pos) <-
                foldM (fun (st : list string * Z) (m : mrec) =>
                         let '(acc, pos) := st in
                         p <- go_slice s pos (m_start m) ;;
                         ret (acc ++ [p], m_end m)) ([], 0%Z) ms ;;
              tail <- go_slice s pos (Z.of_nat (slen s)) ;;
              let parts := parts ++ [tail] in
              let parts := match limit_of lim with
                           | Some z => if (z <? Z.of_nat (List.length parts))%Z then firstn (Z.to_nat z) parts else parts
                           | None => parts
                           end in
              ret (Some (VArr (map VStr parts)))
          | _ => from_xlib name args
          end
        else if is "replace" then
          match args with
          | [AStr src; AFun pat; repl; lim] =>
              let l := match limit_of lim with Some z => z | None => 0%Z end in
              if (l <? 0)%Z then fail (ELib "replace: limit") else
              match repl with
              | AStr _ | AFun _ =>
                  ms <- extract_matches apply pat src (match limit_of lim with Some z => z | None => (-1)%Z end) ;;
                  out <- foldM (fun (cur : string) (m : mrec) =>
                           r <- match repl with
                                | AFun fr =>
                                    v <- apply fr [Some (VObj (obj_of_list
                                           [("match", VStr (m_value m)); ("index", VNum (f_of_Z (m_start m)));
                                            ("groups", VArr (map VStr (m_groups m)))]))] ;;
                                    match v with
                                    | Some (VStr s) => ret s
                                    | _ => fail (ELib "replace: function must return a string")
                                    end
                                | AStr s =>
                                    if scontains "$" s then
                                      match xlib "expandReplaceString" [AStr s; AStr (m_value m); AVal (Some (VArr (map VStr (m_groups m))))] with
                                      | Some (LOk (Some (VStr e))) => ret e
                                      | _ => fail (ELib "unmodelled:expandReplaceString")
                                      end
                                    else ret s
                                | _ => ret ""
                                end ;;
                           a <- go_slice cur 0 (m_start m) ;;
                           b <- go_slice cur (m_end m) (Z.of_nat (slen cur)) ;;
                           ret (a ++ r ++ b)%string)
                        src (rev ms) ;;
                  ret (Some (VStr out))
              | _ => fail (ELib "replace: third argument")
              end
          | _ => from_xlib name args
          end
        else from_xlib name args
    end.

End Eval.
