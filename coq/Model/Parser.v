(* Model/Parser.v — transcription of /repo/jparse/jparse.go and /repo/jparse/node.go:
   the Pratt parser, every nud/led, the lambda signature parser, unescape, every optimize
   method, the String methods, and Parse.

   Conventions (see Model/Lexer.v): parser methods are state transformers over the parser
   state [PM A := parser -> res (A * parser)].  A Go panic with a jparse.Error value (the way
   parser methods report errors; recovered by Parse) and an error returned by a nud/led are both
   [RErr]; any other Go panic (slice bounds, index, panicf) is [RPanic]; loops and the
   recursion take fuel and yield [RFuel] when it runs out.

   External functions enter as Section variables (Section Oracles): strconv.ParseFloat,
   regexp.Compile, and the fmt verbs %g and %q. *)
From JV Require Export Model.Lexer Model.Ast.
Open Scope Z_scope.
Open Scope sm_scope.

(* ================================================================ library functions *)

(* s[pos:] with Go's bounds check *)
Definition slice_from (pos : Z) (s : string) : res string :=
  if (0 <=? pos) && (pos <=? Z.of_nat (slen s)) then ROk (sdrop (Z.to_nat pos) s)
  else RPanic "slice bounds out of range [pos:]".
(* s[a:b] with Go's bounds check *)
Definition slice_range (a b : Z) (s : string) : res string :=
  if (0 <=? a) && (a <=? b) && (b <=? Z.of_nat (slen s)) then ROk (sslice (Z.to_nat a) (Z.to_nat b) s)
  else RPanic "slice bounds out of range [a:b]".

(* strings.IndexRune(s, r) for r < utf8.RuneSelf: offset of the first such byte *)
Fixpoint index_byte_from (b : Z) (s : string) (off : Z) : option Z :=
  match s with
  | EmptyString => None
  | String c r => if byte_of c =? b then Some off else index_byte_from b r (off + 1)
  end.
Definition index_byte (b : Z) (s : string) : option Z := index_byte_from b s 0.

(* strconv.ParseUint(s, 16, 32): one or more of 0-9a-fA-F (no sign, no "0x" prefix and no
   underscores with an explicit base); the value must fit 32 bits.  None = any error. *)
Fixpoint all_hex (s : string) : bool :=
  match s with
  | EmptyString => true
  | String c r => match hex_val c with Some _ => all_hex r | None => false end
  end.
Definition parse_uint16 (s : string) : option Z :=
  match s with
  | EmptyString => None
  | _ => if all_hex s then Z_of_hex s else None
  end.
Definition parse_uint16_32 (s : string) : option Z :=
  match parse_uint16 s with
  | None => None
  | Some un => if un >=? 4294967296 then None else Some un
  end.

(* func parseRune(hex string) rune : rune(n) of the uint64 n wraps to int32 *)
Definition parseRune (hex : string) : rune :=
  match parse_uint16_32 hex with
  | Some n => if n >=? 2147483648 then n - 4294967296 else n
  | None => -1
  end.

(* utf16.IsSurrogate / utf16.DecodeRune *)
Definition utf16_is_surrogate (r : rune) : bool := (55296 <=? r) && (r <? 57344).
Definition utf16_decode_rune (r1 r2 : rune) : rune :=
  if (55296 <=? r1) && (r1 <? 56320) && (56320 <=? r2) && (r2 <? 57344)
  then (r1 - 55296) * 1024 + (r2 - 56320) + 65536
  else RuneError.

(* var jsonEscapes = map[rune]string{...}; "" = absent *)
Definition jsonEscapes (r : rune) : string :=
  if r =? ch """" then """"
  else if r =? ch "\" then "\"
  else if r =? ch "/" then "/"
  else if r =? ch "b" then string_of_bytes [8]
  else if r =? ch "f" then string_of_bytes [12]
  else if r =? ch "n" then string_of_bytes [10]
  else if r =? ch "r" then string_of_bytes [13]
  else if r =? ch "t" then string_of_bytes [9]
  else "".

Definition is_empty (s : string) : bool := match s with EmptyString => true | _ => false end.

(* func decodeRunes(s string, n int) (string, int): the loop over i, with [pos] and the runes
   read so far (reversed) as accumulators *)
Fixpoint decodeRunesLoop (n : nat) (s : string) (pos : Z) (acc : list rune) : res (string * Z) :=
  match n with
  | O => ROk (string_of_runes (rev acc), pos)
  | S n' =>
      rbind (slice_from pos s) (fun rest =>
      let '(r, w) := decode_rune rest in
      decodeRunesLoop n' s (pos + Z.of_nat w) (r :: acc))
  end.
Definition decodeRunes (s : string) (n : nat) : res (string * Z) := decodeRunesLoop n s 0 [].

(* func unescape(src string) (string, bool).  Fuel: one unit per recursive call; every call
   removes at least the backslash, so [S (slen src)] suffices. *)
Fixpoint unescape (fuel : nat) (src : string) : res (string * bool) :=
  match fuel with
  | O => RFuel
  | S f =>
      match index_byte (ch "\") src with
      | None => ROk (src, true)
      | Some pos0 =>
          rbind (slice_range 0 pos0 src) (fun prefix =>
          let pos := pos0 + 1 in
          rbind (slice_from pos src) (fun s1 =>
          let '(esc, w) := decode_rune s1 in
          let pos := pos + Z.of_nat w in
          let repl := jsonEscapes esc in
          (* continuation shared by the successful cases *)
          let finish (repl : string) (pos : Z) : res (string * bool) :=
            rbind (slice_from pos src) (fun s2 =>
            rbind (unescape f s2) (fun '(rest, ok) =>
            if negb ok then ROk (rest, ok) else ROk (prefix ++ repl ++ rest, true))) in
          if negb (is_empty repl) then finish repl pos
          else if esc =? ch "u" then
            rbind (slice_from pos src) (fun s2 =>
            rbind (decodeRunes s2 4) (fun '(hex, w) =>
            let pos := pos + w in
            let r := parseRune hex in
            if valid_rune r then finish (encode_rune r) pos
            else if utf16_is_surrogate r then
              rbind (slice_from pos src) (fun s3 =>
              rbind (decodeRunes s3 6) (fun '(hex2, w) =>
              let pos := pos + w in
              if sprefix "\u" hex2 then
                rbind (slice_from 2 hex2) (fun h2 =>
                let r := utf16_decode_rune r (parseRune h2) in
                if negb (r =? RuneError) then finish (encode_rune r) pos
                else ROk ("u" ++ hex, false))
              else ROk ("u" ++ hex, false)))
            else ROk ("u" ++ hex, false)))
          else ROk (encode_rune esc, false)))
      end
  end.

(* ---------------------------------------------------------------- lambda signatures *)

(* func parseParamType(r rune) (ParamType, bool) *)
Definition parseParamType (r : rune) : option N :=
  if r =? ch "n" then Some PT_number
  else if r =? ch "s" then Some PT_string
  else if r =? ch "b" then Some PT_bool
  else if r =? ch "l" then Some PT_null
  else if r =? ch "a" then Some PT_array
  else if r =? ch "o" then Some PT_object
  else if r =? ch "f" then Some PT_func
  else if r =? ch "j" then Some PT_json
  else if r =? ch "x" then Some PT_any
  else None.

(* func parseParamOpt(r rune) (ParamOpt, bool) *)
Definition parseParamOpt (r : rune) : option paramopt :=
  if r =? ch "?" then Some OptOptional
  else if r =? ch "+" then Some OptVariadic
  else if r =? ch "-" then Some OptContextable
  else None.

(* func (typ ParamType) String() string *)
Definition paramtype_string (typ : N) : string :=
  let bit (m : N) (c : string) : string := if N.eqb (N.land typ m) 0 then "" else c in
  let s := bit PT_number "n" ++ bit PT_string "s" ++ bit PT_bool "b" ++ bit PT_null "l"
           ++ bit PT_array "a" ++ bit PT_object "o" ++ bit PT_func "f" ++ bit PT_json "j"
           ++ bit PT_any "x" in
  if (1 <? slen s)%nat then "(" ++ s ++ ")" else s.

(* func (opt ParamOpt) String() string *)
Definition paramopt_string (o : paramopt) : string :=
  match o with OptOptional => "?" | OptVariadic => "+" | OptContextable => "-" | OptNone => "" end.

(* func (p Param) String() string *)
Fixpoint param_string (p : param) : string :=
  match p with
  | Param typ opt sub =>
      paramtype_string typ
      ++ match sub with
         | None => ""
         | Some l => "<" ++ (fix go (l : list param) : string :=
                               match l with [] => "" | x :: r => param_string x ++ go r end) l ++ ">"
         end
      ++ paramopt_string opt
  end.

(* the "for pos, c := range s" loop of getBracketedString *)
Fixpoint getBracketedLoop (l : list (nat * rune)) (s : string) (open close : rune) (depth : Z)
  : res (string * bool) :=
  match l with
  | [] => ROk ("", false)
  | (pos, c) :: rest =>
      if (Nat.eqb pos 0) && negb (c =? open) then ROk ("", false)
      else if c =? open then getBracketedLoop rest s open close (depth + 1)
      else if c =? close then
        let depth := depth - 1 in
        if depth =? 0 then
          rbind (slice_range (rune_len open) (Z.of_nat pos) s) (fun part => ROk (part, true))
        else getBracketedLoop rest s open close depth
      else getBracketedLoop rest s open close depth
  end.
(* func getBracketedString(s string, open, close rune) (string, bool) *)
Definition getBracketedString (s : string) (open close : rune) : res (string * bool) :=
  getBracketedLoop (runes_pos s) s open close 0.

Definition sigError (typ : nat) (hint : string) : perror :=
  {| etype := typ; etoken := ""; ehint := hint; epos := 0 |}.

(* "for _, c := range part { typ, ok := parseParamType(c); ...; types |= typ }" *)
Fixpoint unionTypes (l : list rune) (types : N) : res N :=
  match l with
  | [] => ROk types
  | c :: rest =>
      match parseParamType c with
      | None => RErr (sigError ErrInvalidUnionType (encode_rune c))
      | Some typ => unionTypes rest (N.lor types typ)
      end
  end.

Definition param_typ (p : param) : N := match p with Param t _ _ => t end.
Definition param_set_opt (o : paramopt) (p : param) : param :=
  match p with Param t _ s => Param t o s end.
Definition param_set_sub (sub : list param) (p : param) : param :=
  match p with Param t o _ => Param t o (Some sub) end.
(* params[len(params)-1] = f(params[len(params)-1]) ; params is non-empty at every use *)
Fixpoint update_last {A} (f : A -> A) (l : list A) : list A :=
  match l with
  | [] => []
  | [x] => [f x]
  | x :: r => x :: update_last f r
  end.

(* func parseParams(s string) ([]Param, error): the "for len(s) > 0" loop with [params] as
   accumulator; the recursive call for a<...> uses the same fuel counter.  [S (slen s)] suffices. *)
Fixpoint parseParamsLoop (fuel : nat) (s : string) (params : list param) : res (list param) :=
  match fuel with
  | O => RFuel
  | S f =>
      if is_empty s then ROk params
      else
        let '(r, w) := decode_rune s in
        if r =? ch ":" then ROk params
        else match parseParamType r with
        | Some typ =>
            rbind (slice_from (Z.of_nat w) s) (fun s' =>
            parseParamsLoop f s' ((params ++ [Param typ OptNone None])%list))
        | None =>
        if r =? ch "(" then
          rbind (getBracketedString s (ch "(") (ch ")")) (fun '(part, ok) =>
          if negb ok then RErr (sigError ErrInvalidParamType (encode_rune r))
          else
            rbind (unionTypes (runes part) 0%N) (fun types =>
            rbind (slice_from (Z.of_nat (slen part) + 2) s) (fun s' =>
            parseParamsLoop f s' ((params ++ [Param types OptNone None])%list))))
        else match parseParamOpt r with
        | Some opt =>
            if is_nil params then RErr (sigError ErrUnmatchedOption (encode_rune r))
            else
              rbind (slice_from (Z.of_nat w) s) (fun s' =>
              parseParamsLoop f s' (update_last (param_set_opt opt) params))
        | None =>
        if r =? ch "<" then
          if is_nil params then RErr (sigError ErrUnmatchedSubtype "")
          else
            let lastTyp := param_typ (last params (Param 0%N OptNone None)) in
            if negb (N.eqb lastTyp PT_array) && negb (N.eqb lastTyp PT_func) then
              RErr (sigError ErrInvalidSubtype (paramtype_string lastTyp))
            else
              rbind (getBracketedString s (ch "<") (ch ">")) (fun '(part, ok) =>
              if negb ok then RErr (sigError ErrInvalidParamType (encode_rune r))
              else
                rbind (parseParamsLoop f part []) (fun sub =>
                rbind (slice_from (Z.of_nat (slen part) + 2) s) (fun s' =>
                parseParamsLoop f s' (update_last (param_set_sub sub) params))))
        else RErr (sigError ErrInvalidParamType (encode_rune r))
        end end
  end.
Definition parseParams (fuel : nat) (s : string) : res (list param) := parseParamsLoop fuel s [].

(* ================================================================ binding powers *)

(* the argument of initBindingPowers in jparse.go, row by row (highest precedence first) *)
Definition bp_rows : list (list tokentype) :=
  [ [typeParenOpen; typeBracketOpen];
    [typeDot];
    [typeBraceOpen];
    [typeMult; typeDiv; typeMod];
    [typePlus; typeMinus; typeConcat];
    [typeEqual; typeNotEqual; typeLess; typeLessEqual; typeGreater; typeGreaterEqual; typeIn;
     typeSort; typeApply];
    [typeAnd];
    [typeOr];
    [typeCondition];
    [typeAssign] ].

Definition tt_mem (t : tokentype) (l : list tokentype) : bool := existsb (tt_eqb t) l.

(* bps[tt] as initBindingPowers computes it: (len(rows) - offset) * 10 for the row containing
   tt, 0 when no row does *)
Fixpoint bp_of_rows_from (total : Z) (offset : Z) (rows : list (list tokentype)) (t : tokentype) : Z :=
  match rows with
  | [] => 0
  | row :: rest => if tt_mem t row then (total - offset) * 10
                   else bp_of_rows_from total (offset + 1) rest t
  end.
Definition bp_of_rows (rows : list (list tokentype)) (t : tokentype) : Z :=
  bp_of_rows_from (Z.of_nat (List.length rows)) 0 rows t.

(* len(nuds) = len(leds) = typeIn + 1 *)
Definition nudCount : nat := 42.
Definition ledCount : nat := 42.

Definition lookupBp (t : tokentype) : Z :=
  if (ledCount <=? tt_num t)%nat then 0 else bp_of_rows bp_rows t.

(* ================================================================ the parser *)

Record parser := { plexer : lexer; ptoken : token }.
Definition PM (A : Type) := SM parser A.

Definition curToken : PM token := fun p => ROk (ptoken p, p).
Definition curType : PM tokentype := fun p => ROk (ttype (ptoken p), p).
Definition perr {A} (e : perror) : PM A := fun _ => RErr e.
Definition ppanic {A} (w : string) : PM A := fun _ => RPanic w.

(* func (p *parser) advance(allowRegex bool) *)
Definition advance (allowRegex : bool) : PM unit := fun p =>
  match next (lex_fuel (plexer p)) allowRegex (plexer p) with
  | ROk (t, l') =>
      if tt_eqb (ttype t) typeError then
        match err l' with
        | Some e => RErr e
        | None => RPanic "advance: panic(nil)"
        end
      else ROk (tt, {| plexer := l'; ptoken := t |})
  | RErr e => RErr e
  | RPanic w => RPanic w
  | RFuel => RFuel
  end.

(* func (p *parser) consume(expected tokenType, allowRegex bool) *)
Definition consume (expected : tokentype) (allowRegex : bool) : PM unit :=
  do t <- curToken;
  if negb (tt_eqb (ttype t) expected) then
    let typ := if tt_eqb (ttype t) typeEOF then ErrMissingToken else ErrUnexpectedToken in
    perr (mkError typ t (tt_string expected))
  else advance allowRegex.

Inductive numlit := NumOk (x : f64) | NumRange | NumSyntax.

(* func isLambdaName(n Node) (bool, bool); "λ" is the two bytes CE BB *)
Definition lambda_sym : string := string_of_bytes [206; 187].
Definition isLambdaName (n : node) : bool * bool :=
  match n with
  | NName v _ => (seqb v "function" || seqb v lambda_sym, seqb v lambda_sym)
  | _ => (false, false)
  end.

Fixpoint smem (s : string) (l : list string) : bool :=
  match l with [] => false | x :: r => seqb x s || smem s r end.

Section Oracles.

(* strconv.ParseFloat(s, 64): value, ErrRange, or any other error *)
Variable parse_number : string -> numlit.
(* regexp.Compile(s): None on success, Some (string(syntaxError.Code)) on failure *)
Variable regex_check : string -> option string.
(* fmt.Sprintf("%g", x) and fmt.Sprintf("%q", s) *)
Variable fmt_g : f64 -> string.
Variable quote : string -> string.

(* ---------------------------------------------------------------- String() methods *)

Definition numop_string (o : numop) : string :=
  match o with NumAdd => "+" | NumSub => "-" | NumMul => "*" | NumDiv => "/" | NumMod => "%" end.
Definition cmpop_string (o : cmpop) : string :=
  match o with CmpEq => "=" | CmpNe => "!=" | CmpLt => "<" | CmpLe => "<=" | CmpGt => ">"
             | CmpGe => ">=" | CmpIn => "in" end.
Definition boolop_string (o : boolop) : string :=
  match o with BoolAnd => "and" | BoolOr => "or" end.

Definition lambda_head (shorthand : bool) (params : list string) : string :=
  (if shorthand then lambda_sym else "function")
  ++ "(" ++ sjoin ", " (map (fun s => "$" ++ s) params) ++ ")".

Fixpoint node_string (n : node) : string :=
  let fix strs (l : list node) : list string :=
    match l with [] => [] | x :: r => node_string x :: strs r end in
  let fix pstrs (l : list (node * node)) : list string :=
    match l with [] => [] | (k, v) :: r => (node_string k ++ ": " ++ node_string v) :: pstrs r end in
  let fix tstrs (l : list (sortdir * node)) : list string :=
    match l with
    | [] => []
    | (d, e) :: r =>
        ((match d with SortAscending => "<" | SortDescending => ">" | SortDefault => "" end)
         ++ node_string e) :: tstrs r
    end in
  let object_string (pairs : list (node * node)) : string := "{" ++ sjoin ", " (pstrs pairs) ++ "}" in
  match n with
  | NString s => quote s
  | NNumber x => fmt_g x
  | NBoolean b => if b then "true" else "false"
  | NNull => "null"
  | NRegex src => "/" ++ src ++ "/"
  | NVariable name => "$" ++ name
  | NName v escaped => if escaped then "`" ++ v ++ "`" else v
  | NPath steps keep => sjoin "." (strs steps) ++ (if keep then "[]" else "")
  | NNegation r => "-" ++ node_string r
  | NRange l r => node_string l ++ ".." ++ node_string r
  | NArray items => "[" ++ sjoin ", " (strs items) ++ "]"
  | NObject pairs => object_string pairs
  | NBlock exprs => "(" ++ sjoin "; " (strs exprs) ++ ")"
  | NWildcard => "*"
  | NDescendent => "**"
  | NTransform p u d =>
      "|" ++ node_string p ++ "|" ++ node_string u
      ++ (match d with Some x => ", " ++ node_string x | None => "" end) ++ "|"
  | NLambda params body sh => lambda_head sh params ++ "{" ++ node_string body ++ "}"
  | NTypedLambda params body sh sig =>
      lambda_head sh params ++ "<" ++ sconcat (map param_string sig) ++ ">{" ++ node_string body ++ "}"
  | NPartial f args => node_string f ++ "(" ++ sjoin ", " (strs args) ++ ")"
  | NPlaceholder => "?"
  | NCall f args => node_string f ++ "(" ++ sjoin ", " (strs args) ++ ")"
  | NPredicate e fs => node_string e ++ "[" ++ sjoin ", " (strs fs) ++ "]"
  | NGroup e pairs => node_string e ++ object_string pairs
  | NConditional c t e =>
      node_string c ++ " ? " ++ node_string t
      ++ (match e with Some x => " : " ++ node_string x | None => "" end)
  | NAssignment name v => "$" ++ name ++ " := " ++ node_string v
  | NNumeric o l r => node_string l ++ " " ++ numop_string o ++ " " ++ node_string r
  | NComparison o l r => node_string l ++ " " ++ cmpop_string o ++ " " ++ node_string r
  | NBoolOp o l r => node_string l ++ " " ++ boolop_string o ++ " " ++ node_string r
  | NConcat l r => node_string l ++ " & " ++ node_string r
  | NSort e terms => node_string e ++ "^(" ++ sjoin ", " (tstrs terms) ++ ")"
  | NApply l r => node_string l ++ " ~> " ++ node_string r
  | NDot l r => node_string l ++ "." ++ node_string r
  | NSingletonArray l => node_string l ++ "[]"
  | NPred l r => node_string l ++ "[" ++ node_string r ++ "]"
  end.

(* ---------------------------------------------------------------- nuds and leds *)

(* Everything between here and [End Denotations] is parameterised by the recursive call
   [pe rbp] (= p.parseExpression(rbp)) and by the fuel [lf] given to the loops of the
   individual nud/led functions (each iteration consumes at least one token). *)
Section Denotations.

Variable lf : nat.
Variable pe : Z -> PM node.

(* func (p *parser) bp(t tokenType) int *)
Definition bp (t : tokentype) : Z := lookupBp t.

Definition parseString (t : token) : PM node :=
  do r <- sfail (unescape (S (slen (tvalue t))) (tvalue t));
  let '(s, ok) := r in
  if negb ok then
    let typ := match s with
               | String c _ => if byte_of c =? ch "u" then ErrIllegalEscapeHex else ErrIllegalEscape
               | EmptyString => ErrIllegalEscape
               end in
    perr (mkError typ t s)
  else sret (NString s).

Definition parseNumber (t : token) : PM node :=
  match parse_number (tvalue t) with
  | NumOk x => sret (NNumber x)
  | NumRange => perr (mkError ErrNumberRange t "")
  | NumSyntax => perr (mkError ErrInvalidNumber t "")
  end.

Definition parseBoolean (t : token) : PM node :=
  if seqb (tvalue t) "true" then sret (NBoolean true)
  else if seqb (tvalue t) "false" then sret (NBoolean false)
  else ppanic "parseBoolean: unexpected value".

Definition parseNull (t : token) : PM node := sret NNull.

Definition parseRegex (t : token) : PM node :=
  if is_empty (tvalue t) then perr (mkError ErrEmptyRegex t "")
  else match regex_check (tvalue t) with
       | Some hint => perr (mkError ErrInvalidRegex t hint)
       | None => sret (NRegex (tvalue t))
       end.

Definition parseVariable (t : token) : PM node := sret (NVariable (tvalue t)).
Definition parseName (t : token) : PM node := sret (NName (tvalue t) false).
Definition parseEscapedName (t : token) : PM node := sret (NName (tvalue t) true).

Definition parseNegation (t : token) : PM node :=
  do rhs <- pe (bp (ttype t)); sret (NNegation rhs).

(* body of "for hasItems := ...; hasItems; { ... }" in parseArray *)
Fixpoint parseArrayLoop (fuel : nat) (items : list node) : PM (list node) :=
  match fuel with
  | O => fun _ => RFuel
  | S f =>
      do item <- pe 0;
      do ty <- curType;
      do item <- (if tt_eqb ty typeRange then
                    consume typeRange true ;; do rhs <- pe 0; sret (NRange item rhs)
                  else sret item);
      let items := (items ++ [item])%list in
      do ty <- curType;
      if negb (tt_eqb ty typeComma) then sret items
      else consume typeComma true ;; parseArrayLoop f items
  end.

Definition parseArray (t : token) : PM node :=
  do ty <- curType;
  do items <- (if negb (tt_eqb ty typeBracketClose) then parseArrayLoop lf [] else sret []);
  consume typeBracketClose false ;;
  sret (NArray items).

Fixpoint parseObjectLoop (fuel : nat) (pairs : list (node * node)) : PM (list (node * node)) :=
  match fuel with
  | O => fun _ => RFuel
  | S f =>
      do key <- pe 0;
      consume typeColon true ;;
      do value <- pe 0;
      let pairs := (pairs ++ [(key, value)])%list in
      do ty <- curType;
      if negb (tt_eqb ty typeComma) then sret pairs
      else consume typeComma true ;; parseObjectLoop f pairs
  end.

(* the part of parseObject shared with parseGroup: the pairs and the closing brace *)
Definition parseObjectPairs : PM (list (node * node)) :=
  do ty <- curType;
  do pairs <- (if negb (tt_eqb ty typeBraceClose) then parseObjectLoop lf [] else sret []);
  consume typeBraceClose false ;;
  sret pairs.

Definition parseObject (t : token) : PM node :=
  do pairs <- parseObjectPairs; sret (NObject pairs).

(* for p.token.Type != typeParenClose { ... } in parseBlock *)
Fixpoint parseBlockLoop (fuel : nat) (exprs : list node) : PM (list node) :=
  match fuel with
  | O => fun _ => RFuel
  | S f =>
      do ty <- curType;
      if tt_eqb ty typeParenClose then sret exprs
      else
        do e <- pe 0;
        let exprs := (exprs ++ [e])%list in
        do ty <- curType;
        if negb (tt_eqb ty typeSemicolon) then sret exprs
        else consume typeSemicolon true ;; parseBlockLoop f exprs
  end.

Definition parseBlock (t : token) : PM node :=
  do exprs <- parseBlockLoop lf [];
  consume typeParenClose false ;;
  sret (NBlock exprs).

Definition parseWildcard (t : token) : PM node := sret NWildcard.
Definition parseDescendent (t : token) : PM node := sret NDescendent.

Definition parseObjectTransformation (t : token) : PM node :=
  do pattern <- pe 0;
  consume typePipe true ;;
  do updates <- pe 0;
  do ty <- curType;
  do deletes <- (if tt_eqb ty typeComma then
                   consume typeComma true ;; do d <- pe 0; sret (Some d)
                 else sret None);
  consume typePipe false ;;
  sret (NTransform pattern updates deletes).

(* var nuds = [...]nud{...} with lookupNud's bounds test *)
Definition lookupNud (ty : tokentype) : option (token -> PM node) :=
  if (nudCount <=? tt_num ty)%nat then None
  else match ty with
       | typeString => Some parseString
       | typeNumber => Some parseNumber
       | typeBoolean => Some parseBoolean
       | typeNull => Some parseNull
       | typeRegex => Some parseRegex
       | typeVariable => Some parseVariable
       | typeName => Some parseName
       | typeNameEsc => Some parseEscapedName
       | typeBracketOpen => Some parseArray
       | typeBraceOpen => Some parseObject
       | typeParenOpen => Some parseBlock
       | typeMult => Some parseWildcard
       | typeMinus => Some parseNegation
       | typeDescendent => Some parseDescendent
       | typePipe => Some parseObjectTransformation
       | typeIn | typeAnd | typeOr => Some parseName
       | _ => None
       end.

(* ---- leds ---- *)

(* func extractParamNames(p *parser) ([]string, error): loop body *)
Fixpoint extractParamNamesLoop (fuel : nat) (currToken : token) (names : list string)
  : PM (list string) :=
  match fuel with
  | O => fun _ => RFuel
  | S f =>
      do arg <- pe 0;
      match arg with
      | NVariable name =>
          if smem name names then perr (mkError ErrDuplicateParam currToken "")
          else
            let names := (names ++ [name])%list in
            do ty <- curType;
            if negb (tt_eqb ty typeComma) then sret names
            else
              consume typeComma true ;;
              do currToken <- curToken;
              extractParamNamesLoop f currToken names
      | _ => perr (mkError ErrIllegalParam currToken "")
      end
  end.

Definition extractParamNames : PM (list string) :=
  do currToken <- curToken;
  do names <- (if negb (tt_eqb (ttype currToken) typeParenClose)
               then extractParamNamesLoop lf currToken [] else sret []);
  consume typeParenClose false ;;
  sret names.

(* the "Loop:" of extractSignature; returns sig both on "break Loop" and when the loop
   condition fails *)
Fixpoint extractSignatureLoop (fuel : nat) (sig : string) (depth : Z) : PM string :=
  match fuel with
  | O => fun _ => RFuel
  | S f =>
      do ty <- curType;
      if tt_eqb ty typeBraceOpen || tt_eqb ty typeEOF then sret sig
      else
        advance true ;;
        do t <- curToken;
        if tt_eqb (ttype t) typeGreater then
          let depth := depth - 1 in
          if depth =? 0 then sret sig
          else extractSignatureLoop f (sig ++ tvalue t) depth
        else if tt_eqb (ttype t) typeLess then
          extractSignatureLoop f (sig ++ tvalue t) (depth + 1)
        else extractSignatureLoop f (sig ++ tvalue t) depth
  end.

(* func extractSignature(p *parser) (string, bool) *)
Definition extractSignature : PM (string * bool) :=
  do ty <- curType;
  if negb (tt_eqb ty typeLess) then sret ("", false)
  else
    do sig <- extractSignatureLoop lf "" 1;
    consume typeGreater true ;;
    sret (sig, true).

(* func parseLambdaDefinition(p *parser, shorthand bool) (Node, error) *)
Definition parseLambdaDefinition (shorthand : bool) : PM node :=
  do paramNames <- extractParamNames;
  do sg <- extractSignature;
  let '(sig, isTyped) := sg in
  do params <- (if isTyped then
                  do params <- sfail (parseParams (S (slen sig)) sig);
                  if negb (Nat.eqb (List.length params) (List.length paramNames)) then
                    do t <- curToken; perr (mkError ErrParamCount t "")
                  else sret params
                else sret []);
  consume typeBraceOpen true ;;
  do body <- pe 0;
  consume typeBraceClose false ;;
  if negb isTyped then sret (NLambda paramNames body shorthand)
  else sret (NTypedLambda paramNames body shorthand params).

(* const typePlaceholder = typeCondition *)
Definition typePlaceholder : tokentype := typeCondition.

Fixpoint parseArgsLoop (fuel : nat) (args : list node) (isPartial : bool)
  : PM (list node * bool) :=
  match fuel with
  | O => fun _ => RFuel
  | S f =>
      do ty <- curType;
      do ap <- (if tt_eqb ty typePlaceholder then
                  consume typePlaceholder false ;; sret (NPlaceholder, true)
                else do a <- pe 0; sret (a, isPartial));
      let '(arg, isPartial) := ap in
      let args := (args ++ [arg])%list in
      do ty <- curType;
      if negb (tt_eqb ty typeComma) then sret (args, isPartial)
      else consume typeComma true ;; parseArgsLoop f args isPartial
  end.

Definition parseFunctionCall (t : token) (lhs : node) : PM node :=
  let '(isLambda, shorthand) := isLambdaName lhs in
  if isLambda then parseLambdaDefinition shorthand
  else
    do ty <- curType;
    do ap <- (if negb (tt_eqb ty typeParenClose) then parseArgsLoop lf [] false else sret ([], false));
    let '(args, isPartial) := ap in
    consume typeParenClose false ;;
    if isPartial then sret (NPartial lhs args) else sret (NCall lhs args).

Definition parsePredicate (t : token) (lhs : node) : PM node :=
  do ty <- curType;
  if tt_eqb ty typeBracketClose then
    consume typeBracketClose false ;;
    sret (NSingletonArray lhs)
  else
    do rhs <- pe 0;
    consume typeBracketClose false ;;
    sret (NPred lhs rhs).

Definition parseGroup (t : token) (lhs : node) : PM node :=
  do pairs <- parseObjectPairs; sret (NGroup lhs pairs).

Definition parseConditional (t : token) (lhs : node) : PM node :=
  do rhs <- pe 0;
  do ty <- curType;
  do els <- (if tt_eqb ty typeColon then
               consume typeColon true ;; do e <- pe 0; sret (Some e)
             else sret None);
  sret (NConditional lhs rhs els).

Definition parseAssignment (t : token) (lhs : node) : PM node :=
  match lhs with
  | NVariable name =>
      do v <- pe (bp (ttype t) - 1);   (* right-associative *)
      sret (NAssignment name v)
  | _ => perr (mkError ErrIllegalAssignment t (node_string lhs))
  end.

Definition parseNumericOperator (t : token) (lhs : node) : PM node :=
  match (match ttype t with
         | typePlus => Some NumAdd | typeMinus => Some NumSub | typeMult => Some NumMul
         | typeDiv => Some NumDiv | typeMod => Some NumMod | _ => None end) with
  | None => ppanic "parseNumericOperator: unexpected operator"
  | Some op => do rhs <- pe (bp (ttype t)); sret (NNumeric op lhs rhs)
  end.

Definition parseComparisonOperator (t : token) (lhs : node) : PM node :=
  match (match ttype t with
         | typeEqual => Some CmpEq | typeNotEqual => Some CmpNe | typeLess => Some CmpLt
         | typeLessEqual => Some CmpLe | typeGreater => Some CmpGt | typeGreaterEqual => Some CmpGe
         | typeIn => Some CmpIn | _ => None end) with
  | None => ppanic "parseComparisonOperator: unexpected operator"
  | Some op => do rhs <- pe (bp (ttype t)); sret (NComparison op lhs rhs)
  end.

Definition parseBooleanOperator (t : token) (lhs : node) : PM node :=
  match (match ttype t with typeAnd => Some BoolAnd | typeOr => Some BoolOr | _ => None end) with
  | None => ppanic "parseBooleanOperator: unexpected operator"
  | Some op => do rhs <- pe (bp (ttype t)); sret (NBoolOp op lhs rhs)
  end.

Definition parseStringConcatenation (t : token) (lhs : node) : PM node :=
  do rhs <- pe (bp (ttype t)); sret (NConcat lhs rhs).

Fixpoint parseSortLoop (fuel : nat) (terms : list (sortdir * node)) : PM (list (sortdir * node)) :=
  match fuel with
  | O => fun _ => RFuel
  | S f =>
      do ty <- curType;
      do dir <- (if tt_eqb ty typeLess then consume typeLess true ;; sret SortAscending
                 else if tt_eqb ty typeGreater then consume typeGreater true ;; sret SortDescending
                 else sret SortDefault);
      do e <- pe 0;
      let terms := (terms ++ [(dir, e)])%list in
      do ty <- curType;
      if negb (tt_eqb ty typeComma) then sret terms
      else consume typeComma true ;; parseSortLoop f terms
  end.

Definition parseSort (t : token) (lhs : node) : PM node :=
  consume typeParenOpen true ;;
  do terms <- parseSortLoop lf [];
  consume typeParenClose false ;;
  sret (NSort lhs terms).

Definition parseFunctionApplication (t : token) (lhs : node) : PM node :=
  do rhs <- pe (bp (ttype t)); sret (NApply lhs rhs).

Definition parseDot (t : token) (lhs : node) : PM node :=
  do rhs <- pe (bp (ttype t)); sret (NDot lhs rhs).

(* var leds = [...]led{...} with lookupLed's bounds test *)
Definition lookupLed (ty : tokentype) : option (token -> node -> PM node) :=
  if (ledCount <=? tt_num ty)%nat then None
  else match ty with
       | typeParenOpen => Some parseFunctionCall
       | typeBracketOpen => Some parsePredicate
       | typeBraceOpen => Some parseGroup
       | typeCondition => Some parseConditional
       | typeAssign => Some parseAssignment
       | typeApply => Some parseFunctionApplication
       | typeConcat => Some parseStringConcatenation
       | typeSort => Some parseSort
       | typeDot => Some parseDot
       | typePlus | typeMinus | typeMult | typeDiv | typeMod => Some parseNumericOperator
       | typeEqual | typeNotEqual | typeLess | typeLessEqual | typeGreater | typeGreaterEqual
       | typeIn => Some parseComparisonOperator
       | typeAnd | typeOr => Some parseBooleanOperator
       | _ => None
       end.

End Denotations.

Definition opens_operand (t : tokentype) : bool :=
  tt_eqb t typeParenOpen || tt_eqb t typeBracketOpen || tt_eqb t typeBraceOpen ||
  tt_eqb t typeMinus || tt_eqb t typePipe.

(* func (p *parser) parseExpression(rbp int) Node, and its "for rbp < bp(p.token.Type)" loop.
   One unit of fuel per nesting level and per loop iteration; the nud/led called at fuel
   [S f] recurses with [parseExpression f] and runs its own loops with fuel [f]. *)
Fixpoint parseExpression (fuel : nat) (rbp : Z) {struct fuel} : PM node :=
  match fuel with
  | O => fun _ => RFuel
  | S f =>
      do t <- curToken;
      if tt_eqb (ttype t) typeEOF then perr (mkError ErrUnexpectedEOF t "")
      else
        (* a token that only opens an operand is followed by another operand *)
        advance (opens_operand (ttype t)) ;;
        match lookupNud f (parseExpression f) (ttype t) with
        | None => perr (mkError ErrPrefix t "")
        | Some nud =>
            do lhs <- nud t;
            ledLoop f rbp lhs
        end
  end
with ledLoop (fuel : nat) (rbp : Z) (lhs : node) {struct fuel} : PM node :=
  match fuel with
  | O => fun _ => RFuel
  | S f =>
      do t <- curToken;
      if rbp <? lookupBp (ttype t) then
        advance true ;;
        match lookupLed f (parseExpression f) (ttype t) with
        | None => perr (mkError ErrInfix t "")
        | Some led =>
            do lhs' <- led t lhs;
            ledLoop f rbp lhs'
        end
      else sret lhs
  end.

(* ---------------------------------------------------------------- optimize *)

Definition optError (typ : nat) (hint : string) : perror :=
  {| etype := typ; etoken := ""; ehint := hint; epos := 0 |}.

Definition is_literal (n : node) : bool :=
  match n with NNumber _ | NString _ | NBoolean _ | NNull => true | _ => false end.

(* l[:len(l)-1] and l[len(l)-1] *)
Fixpoint split_last {A} (l : list A) : option (list A * A) :=
  match l with
  | [] => None
  | x :: r => match split_last r with
              | None => Some ([], x)
              | Some (init, z) => Some (x :: init, z)
              end
  end.

(* The optimize methods.  Go mutates the nodes in place and returns them; the tree the parser
   builds shares no nodes, so the returned tree is what matters. *)
Fixpoint optimize (n : node) : res node :=
  let fix opt_list (l : list node) : res (list node) :=
    match l with
    | [] => ROk []
    | x :: r => rbind (optimize x) (fun x' => rbind (opt_list r) (fun r' => ROk (x' :: r')))
    end in
  let fix opt_pairs (l : list (node * node)) : res (list (node * node)) :=
    match l with
    | [] => ROk []
    | (k, v) :: r =>
        rbind (optimize k) (fun k' => rbind (optimize v) (fun v' =>
        rbind (opt_pairs r) (fun r' => ROk ((k', v') :: r'))))
    end in
  let fix opt_terms (l : list (sortdir * node)) : res (list (sortdir * node)) :=
    match l with
    | [] => ROk []
    | (d, e) :: r =>
        rbind (optimize e) (fun e' => rbind (opt_terms r) (fun r' => ROk ((d, e') :: r')))
    end in
  let opt_option (o : option node) : res (option node) :=
    match o with
    | None => ROk None
    | Some x => rbind (optimize x) (fun x' => ROk (Some x'))
    end in
  match n with
  | NString _ | NNumber _ | NBoolean _ | NNull | NRegex _ | NVariable _ | NWildcard | NDescendent
  | NPlaceholder => ROk n
  | NName _ _ => ROk (NPath [n] false)
  | NPath _ _ => ROk n
  | NPredicate _ _ => ROk n
  | NNegation r =>
      rbind (optimize r) (fun r' =>
      match r' with
      | NNumber x => ROk (NNumber (fopp x))
      | _ => ROk (NNegation r')
      end)
  | NRange l r => rbind (optimize l) (fun l' => rbind (optimize r) (fun r' => ROk (NRange l' r')))
  | NArray items => rbind (opt_list items) (fun items' => ROk (NArray items'))
  | NObject pairs => rbind (opt_pairs pairs) (fun pairs' => ROk (NObject pairs'))
  | NBlock exprs => rbind (opt_list exprs) (fun exprs' => ROk (NBlock exprs'))
  | NTransform p u d =>
      rbind (optimize p) (fun p' => rbind (optimize u) (fun u' =>
      rbind (opt_option d) (fun d' => ROk (NTransform p' u' d'))))
  | NLambda params body sh => rbind (optimize body) (fun b' => ROk (NLambda params b' sh))
  | NTypedLambda params body sh sig =>
      rbind (optimize body) (fun b' => ROk (NTypedLambda params b' sh sig))
  | NPartial f args =>
      rbind (optimize f) (fun f' => rbind (opt_list args) (fun args' => ROk (NPartial f' args')))
  | NCall f args =>
      rbind (optimize f) (fun f' => rbind (opt_list args) (fun args' => ROk (NCall f' args')))
  | NGroup e pairs =>
      rbind (optimize e) (fun e' =>
      match e' with
      | NGroup _ _ => RErr (optError ErrGroupGroup "")
      | _ => rbind (opt_pairs pairs) (fun pairs' => ROk (NGroup e' pairs'))
      end)
  | NConditional c t e =>
      rbind (optimize c) (fun c' => rbind (optimize t) (fun t' =>
      rbind (opt_option e) (fun e' => ROk (NConditional c' t' e'))))
  | NAssignment name v => rbind (optimize v) (fun v' => ROk (NAssignment name v'))
  | NNumeric o l r =>
      rbind (optimize l) (fun l' => rbind (optimize r) (fun r' => ROk (NNumeric o l' r')))
  | NComparison o l r =>
      rbind (optimize l) (fun l' => rbind (optimize r) (fun r' => ROk (NComparison o l' r')))
  | NBoolOp o l r =>
      rbind (optimize l) (fun l' => rbind (optimize r) (fun r' => ROk (NBoolOp o l' r')))
  | NConcat l r => rbind (optimize l) (fun l' => rbind (optimize r) (fun r' => ROk (NConcat l' r')))
  | NSort e terms =>
      rbind (optimize e) (fun e' => rbind (opt_terms terms) (fun terms' => ROk (NSort e' terms')))
  | NApply l r => rbind (optimize l) (fun l' => rbind (optimize r) (fun r' => ROk (NApply l' r')))
  | NDot l r =>
      rbind (optimize l) (fun l' =>
      rbind (if is_literal l' then RErr (optError ErrPathLiteral (node_string l'))
             else match l' with
                  | NPath steps keep => ROk (steps, keep)
                  | _ => ROk ([l'], false)
                  end) (fun '(steps, keep) =>
      rbind (optimize r) (fun r' =>
      if is_literal r' then RErr (optError ErrPathLiteral (node_string r'))
      else match r' with
           | NPath steps2 keep2 => ROk (NPath (steps ++ steps2)%list (keep || keep2))
           | _ => ROk (NPath (steps ++ [r'])%list keep)
           end)))
  | NSingletonArray l =>
      rbind (optimize l) (fun l' =>
      match l' with
      | NPath steps _ => ROk (NPath steps true)
      | _ => ROk (NPath [l'] true)
      end)
  | NPred l r =>
      rbind (optimize l) (fun l' => rbind (optimize r) (fun r' =>
      match l' with
      | NGroup _ _ => RErr (optError ErrGroupPredicate "")
      | NPath steps keep =>
          match split_last steps with
          | None => RPanic "predicateNode.optimize: index out of range [-1]"
          | Some (init, NPredicate e fs) => ROk (NPath (init ++ [NPredicate e (fs ++ [r'])%list])%list keep)
          | Some (init, lst) => ROk (NPath (init ++ [NPredicate lst [r']])%list keep)
          end
      | _ => ROk (NPredicate l' [r'])
      end))
  end.

(* ---------------------------------------------------------------- Parse *)

Definition zeroToken : token := {| ttype := typeEOF; tvalue := ""; tpos := 0 |}.

(* func newParser(input string) parser *)
Definition newParser (src : string) : res parser :=
  match advance true {| plexer := newLexer src; ptoken := zeroToken |} with
  | ROk (_, p) => ROk p
  | RErr e => RErr e
  | RPanic w => RPanic w
  | RFuel => RFuel
  end.

(* the parse phase of Parse: the un-optimized tree (used by the precedence proofs) *)
Definition parse_raw (fuel : nat) (src : string) : res node :=
  rbind (newParser src) (fun p =>
  match parseExpression fuel 0 p with
  | ROk (n, p') =>
      if negb (tt_eqb (ttype (ptoken p')) typeEOF) then RErr (mkError ErrSyntaxError (ptoken p') "")
      else ROk n
  | RErr e => RErr e
  | RPanic w => RPanic w
  | RFuel => RFuel
  end).

(* func Parse(expr string) (root Node, err error) *)
Definition parse (fuel : nat) (src : string) : res node :=
  rbind (parse_raw fuel src) optimize.

End Oracles.

(* fuel that always suffices for [parse] (ParserProofs.parse_total) *)
Definition parse_fuel (src : string) : nat := 2 * slen src + 6.

(* initBindingPowers / validateBindingPowers run at package initialisation and panic if a token
   type occurs twice in the table, if an led has no binding power, or a binding power no led.
   [bp_rows_valid] is that check; it evaluates to true (ParserProofs.bp_rows_valid_true). *)
Definition all_tokentypes : list tokentype :=
  [typeEOF; typeError; typeString; typeNumber; typeBoolean; typeNull; typeName; typeNameEsc;
   typeVariable; typeRegex; typeBracketOpen; typeBracketClose; typeBraceOpen; typeBraceClose;
   typeParenOpen; typeParenClose; typeDot; typeComma; typeColon; typeSemicolon; typeCondition;
   typePlus; typeMinus; typeMult; typeDiv; typeMod; typePipe; typeEqual; typeNotEqual; typeLess;
   typeLessEqual; typeGreater; typeGreaterEqual; typeApply; typeSort; typeConcat; typeRange;
   typeAssign; typeDescendent; typeAnd; typeOr; typeIn].
Definition has_led (ty : tokentype) : bool :=
  match lookupLed (fun _ => "") (fun s => s) O (fun _ _ => RFuel) ty with
  | Some _ => true | None => false end.
Definition bp_rows_valid : bool :=
  let flat := List.concat bp_rows in
  (fix nodup (l : list tokentype) : bool :=
     match l with [] => true | x :: r => negb (tt_mem x r) && nodup r end) flat
  && forallb (fun ty => Bool.eqb (has_led ty) (negb (bp_of_rows bp_rows ty =? 0))) all_tokentypes.
