(* Model/Ast.v — the syntax tree of jparse, one constructor per Go node type (exported
   nodes, plus the three interim nodes that exist only before [optimize]). Field order
   follows the Go structs so that a dump of the Go tree and a model tree compare field
   by field. *)
From JV Require Export Base.Bytes Base.F64.

Inductive numop := NumAdd | NumSub | NumMul | NumDiv | NumMod.
Inductive cmpop := CmpEq | CmpNe | CmpLt | CmpLe | CmpGt | CmpGe | CmpIn.
Inductive boolop := BoolAnd | BoolOr.
Inductive sortdir := SortDefault | SortAscending | SortDescending.
Inductive paramopt := OptNone | OptOptional | OptVariadic | OptContextable.

(* jparse.ParamType bit mask: n=1 s=2 b=4 l=8 a=16 o=32 f=64 j=128 x=256 *)
Inductive param := Param (typ : N) (opt : paramopt) (sub : option (list param)).
(* [sub = None] is Go's nil SubParams, [Some []] an empty, non-nil slice ("a<>") *)

Definition PT_number : N := 1.   Definition PT_string : N := 2.
Definition PT_bool : N := 4.     Definition PT_null : N := 8.
Definition PT_array : N := 16.   Definition PT_object : N := 32.
Definition PT_func : N := 64.    Definition PT_json : N := 128.
Definition PT_any : N := 256.

Inductive node :=
| NString (s : string)
| NNumber (x : f64)
| NBoolean (b : bool)
| NNull
| NRegex (src : string)                 (* RegexNode.Value.String(): Go syntax, flags already prefixed *)
| NVariable (name : string)
| NName (value : string) (escaped : bool)
| NPath (steps : list node) (keep : bool)
| NNegation (rhs : node)
| NRange (lhs rhs : node)
| NArray (items : list node)
| NObject (pairs : list (node * node))
| NBlock (exprs : list node)
| NWildcard
| NDescendent
| NTransform (pattern updates : node) (deletes : option node)
| NLambda (params : list string) (body : node) (shorthand : bool)
| NTypedLambda (params : list string) (body : node) (shorthand : bool) (sig : list param)
| NPartial (func : node) (args : list node)
| NPlaceholder
| NCall (func : node) (args : list node)
| NPredicate (expr : node) (filters : list node)
| NGroup (expr : node) (pairs : list (node * node))
| NConditional (cond thn : node) (els : option node)
| NAssignment (name : string) (value : node)
| NNumeric (op : numop) (lhs rhs : node)
| NComparison (op : cmpop) (lhs rhs : node)
| NBoolOp (op : boolop) (lhs rhs : node)
| NConcat (lhs rhs : node)
| NSort (expr : node) (terms : list (sortdir * node))
| NApply (lhs rhs : node)
(* interim nodes: produced by the led functions, eliminated by optimize *)
| NDot (lhs rhs : node)
| NSingletonArray (lhs : node)
| NPred (lhs rhs : node).

(* size measure used for fuel bounds *)
Local Open Scope nat_scope.
Fixpoint node_size (n : node) : nat :=
  let fix sizes (l : list node) : nat :=
    match l with [] => 0 | x :: r => node_size x + sizes r end in
  let fix psizes (l : list (node * node)) : nat :=
    match l with [] => 0 | (a, b) :: r => node_size a + node_size b + psizes r end in
  let fix tsizes (l : list (sortdir * node)) : nat :=
    match l with [] => 0 | (_, b) :: r => node_size b + tsizes r end in
  S match n with
    | NString _ | NNumber _ | NBoolean _ | NNull | NRegex _ | NVariable _ | NName _ _
    | NWildcard | NDescendent | NPlaceholder => 0
    | NPath steps _ => sizes steps
    | NNegation r => node_size r
    | NRange l r | NNumeric _ l r | NComparison _ l r | NBoolOp _ l r | NConcat l r
    | NApply l r | NDot l r | NPred l r => node_size l + node_size r
    | NArray items => sizes items
    | NObject pairs => psizes pairs
    | NBlock exprs => sizes exprs
    | NTransform p u d => node_size p + node_size u + match d with Some x => node_size x | None => 0 end
    | NLambda _ b _ | NTypedLambda _ b _ _ => node_size b
    | NPartial f args | NCall f args => node_size f + sizes args
    | NPredicate e fs => node_size e + sizes fs
    | NGroup e pairs => node_size e + psizes pairs
    | NConditional c t e => node_size c + node_size t + match e with Some x => node_size x | None => 0 end
    | NAssignment _ v => node_size v
    | NSort e terms => node_size e + tsizes terms
    | NSingletonArray l => node_size l
    end.
