(* Model/LibNumberInst.v — LibNumber / LibFormatNumber with their Section parameters
   instantiated by JV.Base.Decimal (strconv/fmt re-implementations).  math.Pow stays a
   parameter of [go_power] (oracle: the evaluator ships the Go result), everything else is
   closed. *)
From Coq Require Import ZArith Bool List Ascii String.
From JV.Base Require Import Bytes Utf8 F64 Res Decimal.
From JV.Model Require Import LibNumber LibFormatNumber.
Open Scope Z_scope.

Definition pf_of_decimal (r : pf_result) : pfres :=
  match r with PFOk x => PfOk x | PFRange x => PfRange x | PFSyntax => PfSyntax end.

Definition go_parse_float (s : string) : pfres := pf_of_decimal (parse_float s).

Definition go_number_of_string : string -> lres f64 := number_of_string go_parse_float.
(* the digits of strconv.FormatFloat(x, 'e', -1, 64) as an integer, and the power of ten *)
Definition go_shortest (x : f64) : Z * Z :=
  match x with S754_finite _ m e => shortest_core m e | _ => (0, 0) end.
Definition go_round : f64 -> option Z -> f64 :=
  round go_parse_float format_int go_shortest.
Definition go_power (pow_fn : f64 -> f64 -> f64) : f64 -> f64 -> lres f64 := power pow_fn.
Definition go_sqrt : f64 -> lres f64 := sqrt.
Definition go_format_base : f64 -> option f64 -> lres string :=
  format_base go_parse_float format_int go_shortest.

Definition go_format_number : nat -> f64 -> string -> decimal_format -> lres string :=
  format_number format_float_fixed.
Definition go_lib_format_number
  : nat -> f64 -> string -> option (list (string * string)) -> lres string :=
  lib_format_number format_float_fixed.

(* fuel that is enough for every double (701 suffices, see Proofs/LibFormatNumberProofs.v) *)
Definition format_number_fuel : nat := 1500.
