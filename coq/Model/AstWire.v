(* Model/AstWire.v — the wire format of syntax trees: space-separated prefix tokens.

     strings   S<lowercase hex of the bytes>          (empty string: S)
     floats    D<16 lowercase hex digits of the IEEE-754 bits>
     booleans  T | F
     lists     L<decimal count> item ... item
     options   ?0 | ?1 item

     Str S.. | Num D.. | Bool T|F | Null | Regex S.. | Var S.. | Name S.. <escaped T|F>
     Path L<n> steps.. <keep T|F> | Neg n | Range l r | Array L<n> .. | Object L<n> k1 v1 ..
     Block L<n> .. | Wild | Desc | Transform pat upd ?0|?1 del
     Lambda L<n> S-names.. body <shorthand T|F>
     TLambda L<n> S-names.. body <shorthand T|F> L<n> params..
        param:  P <typ decimal> <opt 0|1|2|3> ?0 | ?1 L<n> subparams..
     Partial f L<n> .. | Placeholder | Call f L<n> .. | Pred expr L<n> filters..
     Group expr L<n> k1 v1 .. | Cond c t ?0|?1 e | Assign S.. value
     NumOp <+ - * / %> l r | CmpOp <= != < <= > >= in> l r | BoolOp <and|or> l r | Concat l r
     Sort expr L<n> <dir 0|1|2> term .. | Apply l r
     interim: Dot l r | Singleton l | PredI l r

   [node_to_wire] prints, [node_of_wire] parses; Proofs/ParserProofs.v relates the two. *)
From JV Require Export Model.Ast.
Open Scope string_scope.

Definition wS (s : string) : string := String "S" (hex_of_string s).
Definition wB (b : bool) : string := if b then "T" else "F".
Definition wL (n : nat) : string := String "L" (string_of_nat n).
Definition wD (x : f64) : string := String "D" (hex16_of_Z (bits_of_f x)).

Definition wopt (o : paramopt) : string :=
  match o with OptNone => "0" | OptOptional => "1" | OptVariadic => "2" | OptContextable => "3" end.
Definition wdir (d : sortdir) : string :=
  match d with SortDefault => "0" | SortAscending => "1" | SortDescending => "2" end.
Definition wnumop (o : numop) : string :=
  match o with NumAdd => "+" | NumSub => "-" | NumMul => "*" | NumDiv => "/" | NumMod => "%" end.
Definition wcmpop (o : cmpop) : string :=
  match o with CmpEq => "=" | CmpNe => "!=" | CmpLt => "<" | CmpLe => "<=" | CmpGt => ">"
             | CmpGe => ">=" | CmpIn => "in" end.
Definition wboolop (o : boolop) : string := match o with BoolAnd => "and" | BoolOr => "or" end.

Fixpoint param_tokens (p : param) : list string :=
  match p with
  | Param typ opt sub =>
      "P" :: string_of_Z (Z.of_N typ) :: wopt opt ::
      match sub with
      | None => ["?0"]
      | Some l => "?1" :: wL (List.length l) ::
                  (fix go (l : list param) : list string :=
                     match l with [] => [] | x :: r => (param_tokens x ++ go r)%list end) l
      end
  end.

Fixpoint params_tokens (l : list param) : list string :=
  match l with [] => [] | x :: r => (param_tokens x ++ params_tokens r)%list end.

Fixpoint node_tokens (n : node) : list string :=
  let fix toks (l : list node) : list string :=
    match l with [] => [] | x :: r => (node_tokens x ++ toks r)%list end in
  let fix ptoks (l : list (node * node)) : list string :=
    match l with [] => [] | (k, v) :: r => (node_tokens k ++ node_tokens v ++ ptoks r)%list end in
  let fix ttoks (l : list (sortdir * node)) : list string :=
    match l with [] => [] | (d, e) :: r => (wdir d :: node_tokens e ++ ttoks r)%list end in
  let otoks (o : option node) : list string :=
    match o with None => ["?0"] | Some x => "?1" :: node_tokens x end in
  match n with
  | NString s => ["Str"; wS s]
  | NNumber x => ["Num"; wD x]
  | NBoolean b => ["Bool"; wB b]
  | NNull => ["Null"]
  | NRegex s => ["Regex"; wS s]
  | NVariable s => ["Var"; wS s]
  | NName v e => ["Name"; wS v; wB e]
  | NPath steps keep => ("Path" :: wL (List.length steps) :: toks steps ++ [wB keep])%list
  | NNegation r => "Neg" :: node_tokens r
  | NRange l r => ("Range" :: node_tokens l ++ node_tokens r)%list
  | NArray items => "Array" :: wL (List.length items) :: toks items
  | NObject pairs => "Object" :: wL (List.length pairs) :: ptoks pairs
  | NBlock exprs => "Block" :: wL (List.length exprs) :: toks exprs
  | NWildcard => ["Wild"]
  | NDescendent => ["Desc"]
  | NTransform p u d => ("Transform" :: node_tokens p ++ node_tokens u ++ otoks d)%list
  | NLambda params body sh =>
      ("Lambda" :: wL (List.length params) :: map wS params ++ node_tokens body ++ [wB sh])%list
  | NTypedLambda params body sh sig =>
      ("TLambda" :: wL (List.length params) :: map wS params ++ node_tokens body
                 ++ wB sh :: wL (List.length sig) :: params_tokens sig)%list
  | NPartial f args => ("Partial" :: node_tokens f ++ wL (List.length args) :: toks args)%list
  | NPlaceholder => ["Placeholder"]
  | NCall f args => ("Call" :: node_tokens f ++ wL (List.length args) :: toks args)%list
  | NPredicate e fs => ("Pred" :: node_tokens e ++ wL (List.length fs) :: toks fs)%list
  | NGroup e pairs => ("Group" :: node_tokens e ++ wL (List.length pairs) :: ptoks pairs)%list
  | NConditional c t e => ("Cond" :: node_tokens c ++ node_tokens t ++ otoks e)%list
  | NAssignment name v => "Assign" :: wS name :: node_tokens v
  | NNumeric o l r => ("NumOp" :: wnumop o :: node_tokens l ++ node_tokens r)%list
  | NComparison o l r => ("CmpOp" :: wcmpop o :: node_tokens l ++ node_tokens r)%list
  | NBoolOp o l r => ("BoolOp" :: wboolop o :: node_tokens l ++ node_tokens r)%list
  | NConcat l r => ("Concat" :: node_tokens l ++ node_tokens r)%list
  | NSort e terms => ("Sort" :: node_tokens e ++ wL (List.length terms) :: ttoks terms)%list
  | NApply l r => ("Apply" :: node_tokens l ++ node_tokens r)%list
  | NDot l r => ("Dot" :: node_tokens l ++ node_tokens r)%list
  | NSingletonArray l => "Singleton" :: node_tokens l
  | NPred l r => ("PredI" :: node_tokens l ++ node_tokens r)%list
  end.

Definition node_to_wire (n : node) : string := sjoin " " (node_tokens n).

(* ---------------------------------------------------------------- reading *)

Definition rS (t : string) : option string :=
  match t with String "S" h => string_of_hex h | _ => None end.
Definition rB (t : string) : option bool :=
  if seqb t "T" then Some true else if seqb t "F" then Some false else None.
(* a count can never exceed the number of tokens that follow *)
Definition rL (t : string) (avail : nat) : option nat :=
  match t with
  | String "L" d =>
      match Z_of_dec d with
      | Some z => if ((0 <=? z) && (z <=? Z.of_nat avail))%Z then Some (Z.to_nat z) else None
      | None => None
      end
  | _ => None
  end.
Definition rD (t : string) : option f64 :=
  match t with
  | String "D" h => if Nat.eqb (slen h) 16 then option_map f_of_bits (Z_of_hex h) else None
  | _ => None
  end.
Definition ropt (t : string) : option paramopt :=
  if seqb t "0" then Some OptNone else if seqb t "1" then Some OptOptional
  else if seqb t "2" then Some OptVariadic else if seqb t "3" then Some OptContextable else None.
Definition rdir (t : string) : option sortdir :=
  if seqb t "0" then Some SortDefault else if seqb t "1" then Some SortAscending
  else if seqb t "2" then Some SortDescending else None.
Definition rnumop (t : string) : option numop :=
  if seqb t "+" then Some NumAdd else if seqb t "-" then Some NumSub
  else if seqb t "*" then Some NumMul else if seqb t "/" then Some NumDiv
  else if seqb t "%" then Some NumMod else None.
Definition rcmpop (t : string) : option cmpop :=
  if seqb t "=" then Some CmpEq else if seqb t "!=" then Some CmpNe
  else if seqb t "<" then Some CmpLt else if seqb t "<=" then Some CmpLe
  else if seqb t ">" then Some CmpGt else if seqb t ">=" then Some CmpGe
  else if seqb t "in" then Some CmpIn else None.
Definition rboolop (t : string) : option boolop :=
  if seqb t "and" then Some BoolAnd else if seqb t "or" then Some BoolOr else None.

Definition obind {A B} (o : option A) (k : A -> option B) : option B :=
  match o with Some a => k a | None => None end.

(* n items, each read by [rd] *)
Fixpoint read_n {A} (rd : list string -> option (A * list string)) (n : nat) (ts : list string)
  : option (list A * list string) :=
  match n with
  | O => Some ([], ts)
  | S n' => obind (rd ts) (fun '(x, ts1) =>
            obind (read_n rd n' ts1) (fun '(r, ts2) => Some (x :: r, ts2)))
  end.

Definition read_counted {A} (rd : list string -> option (A * list string)) (ts : list string)
  : option (list A * list string) :=
  match ts with
  | t :: ts1 => obind (rL t (List.length ts1)) (fun n => read_n rd n ts1)
  | [] => None
  end.

Definition read_S (ts : list string) : option (string * list string) :=
  match ts with t :: r => obind (rS t) (fun s => Some (s, r)) | [] => None end.
Definition read_B (ts : list string) : option (bool * list string) :=
  match ts with t :: r => obind (rB t) (fun s => Some (s, r)) | [] => None end.

Fixpoint param_of_tokens (fuel : nat) (ts : list string) : option (param * list string) :=
  match fuel with
  | O => None
  | S f =>
      match ts with
      | "P" :: ty :: o :: q :: r =>
          obind (Z_of_dec ty) (fun z => if (z <? 0)%Z then None else
          obind (ropt o) (fun opt =>
          if seqb q "?0" then Some (Param (Z.to_N z) opt None, r)
          else if seqb q "?1" then
            obind (read_counted (param_of_tokens f) r) (fun '(sub, r2) =>
            Some (Param (Z.to_N z) opt (Some sub), r2))
          else None))
      | _ => None
      end
  end.

Fixpoint node_of_tokens (fuel : nat) (ts : list string) : option (node * list string) :=
  match fuel with
  | O => None
  | S f =>
      let rd := node_of_tokens f in
      let rd_pair (ts : list string) : option ((node * node) * list string) :=
        obind (rd ts) (fun '(k, t1) => obind (rd t1) (fun '(v, t2) => Some ((k, v), t2))) in
      let rd_term (ts : list string) : option ((sortdir * node) * list string) :=
        match ts with
        | d :: t1 => obind (rdir d) (fun dir => obind (rd t1) (fun '(e, t2) => Some ((dir, e), t2)))
        | [] => None
        end in
      let rd_opt (ts : list string) : option (option node * list string) :=
        match ts with
        | q :: t1 => if seqb q "?0" then Some (None, t1)
                     else if seqb q "?1" then obind (rd t1) (fun '(x, t2) => Some (Some x, t2))
                     else None
        | [] => None
        end in
      let rd2 (mk : node -> node -> node) (ts : list string) : option (node * list string) :=
        obind (rd ts) (fun '(l, t1) => obind (rd t1) (fun '(r, t2) => Some (mk l r, t2))) in
      match ts with
      | [] => None
      | tag :: r =>
          if seqb tag "Str" then obind (read_S r) (fun '(s, t1) => Some (NString s, t1))
          else if seqb tag "Num" then
            match r with t :: t1 => obind (rD t) (fun x => Some (NNumber x, t1)) | [] => None end
          else if seqb tag "Bool" then obind (read_B r) (fun '(b, t1) => Some (NBoolean b, t1))
          else if seqb tag "Null" then Some (NNull, r)
          else if seqb tag "Regex" then obind (read_S r) (fun '(s, t1) => Some (NRegex s, t1))
          else if seqb tag "Var" then obind (read_S r) (fun '(s, t1) => Some (NVariable s, t1))
          else if seqb tag "Name" then
            obind (read_S r) (fun '(s, t1) => obind (read_B t1) (fun '(b, t2) => Some (NName s b, t2)))
          else if seqb tag "Path" then
            obind (read_counted rd r) (fun '(steps, t1) =>
            obind (read_B t1) (fun '(b, t2) => Some (NPath steps b, t2)))
          else if seqb tag "Neg" then obind (rd r) (fun '(x, t1) => Some (NNegation x, t1))
          else if seqb tag "Range" then rd2 NRange r
          else if seqb tag "Array" then
            obind (read_counted rd r) (fun '(items, t1) => Some (NArray items, t1))
          else if seqb tag "Object" then
            obind (read_counted rd_pair r) (fun '(pairs, t1) => Some (NObject pairs, t1))
          else if seqb tag "Block" then
            obind (read_counted rd r) (fun '(items, t1) => Some (NBlock items, t1))
          else if seqb tag "Wild" then Some (NWildcard, r)
          else if seqb tag "Desc" then Some (NDescendent, r)
          else if seqb tag "Transform" then
            obind (rd r) (fun '(p, t1) => obind (rd t1) (fun '(u, t2) =>
            obind (rd_opt t2) (fun '(d, t3) => Some (NTransform p u d, t3))))
          else if seqb tag "Lambda" then
            obind (read_counted read_S r) (fun '(names, t1) =>
            obind (rd t1) (fun '(body, t2) =>
            obind (read_B t2) (fun '(sh, t3) => Some (NLambda names body sh, t3))))
          else if seqb tag "TLambda" then
            obind (read_counted read_S r) (fun '(names, t1) =>
            obind (rd t1) (fun '(body, t2) =>
            obind (read_B t2) (fun '(sh, t3) =>
            obind (read_counted (param_of_tokens (List.length t3)) t3) (fun '(sig, t4) =>
            Some (NTypedLambda names body sh sig, t4)))))
          else if seqb tag "Partial" then
            obind (rd r) (fun '(fn, t1) =>
            obind (read_counted rd t1) (fun '(args, t2) => Some (NPartial fn args, t2)))
          else if seqb tag "Placeholder" then Some (NPlaceholder, r)
          else if seqb tag "Call" then
            obind (rd r) (fun '(fn, t1) =>
            obind (read_counted rd t1) (fun '(args, t2) => Some (NCall fn args, t2)))
          else if seqb tag "Pred" then
            obind (rd r) (fun '(e, t1) =>
            obind (read_counted rd t1) (fun '(fs, t2) => Some (NPredicate e fs, t2)))
          else if seqb tag "Group" then
            obind (rd r) (fun '(e, t1) =>
            obind (read_counted rd_pair t1) (fun '(pairs, t2) => Some (NGroup e pairs, t2)))
          else if seqb tag "Cond" then
            obind (rd r) (fun '(c, t1) => obind (rd t1) (fun '(t, t2) =>
            obind (rd_opt t2) (fun '(e, t3) => Some (NConditional c t e, t3))))
          else if seqb tag "Assign" then
            obind (read_S r) (fun '(s, t1) => obind (rd t1) (fun '(v, t2) => Some (NAssignment s v, t2)))
          else if seqb tag "NumOp" then
            match r with o :: t1 => obind (rnumop o) (fun op => rd2 (NNumeric op) t1) | [] => None end
          else if seqb tag "CmpOp" then
            match r with o :: t1 => obind (rcmpop o) (fun op => rd2 (NComparison op) t1) | [] => None end
          else if seqb tag "BoolOp" then
            match r with o :: t1 => obind (rboolop o) (fun op => rd2 (NBoolOp op) t1) | [] => None end
          else if seqb tag "Concat" then rd2 NConcat r
          else if seqb tag "Sort" then
            obind (rd r) (fun '(e, t1) =>
            obind (read_counted rd_term t1) (fun '(terms, t2) => Some (NSort e terms, t2)))
          else if seqb tag "Apply" then rd2 NApply r
          else if seqb tag "Dot" then rd2 NDot r
          else if seqb tag "Singleton" then obind (rd r) (fun '(x, t1) => Some (NSingletonArray x, t1))
          else if seqb tag "PredI" then rd2 NPred r
          else None
      end
  end.

Definition node_of_wire (w : string) : option node :=
  let ts := ssplit_char " " w in
  match node_of_tokens (S (List.length ts)) ts with
  | Some (n, []) => Some n
  | _ => None
  end.
