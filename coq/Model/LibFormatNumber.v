(* Model/LibFormatNumber.v — jlib/jxpath/formatnumber.go (whole file) and
   newDecimalFormat/updateDecimalFormat from jlib/string.go, transcribed function by function.

   * Go slices that can go out of range give [LPanic]; the two exponent scaling loops of
     FormatNumber take [fuel] and give [LFuel] when it runs out.  (On the original tree they
     ran on the signed value and never terminated for value <= 0; since /repo f28523c they
     scale |value| and are skipped for zero, and fuel 701 is enough for every double, see
     Proofs/LibFormatNumberProofs.v.)  No other function consumes the caller's fuel: all
     string loops are bounded by the string length.
   * The model follows the repaired code: round uses math.Round for non-ties,
     insertSeparatorsAt skips integer positions the number does not reach and counts
     fractional positions from the decimal separator, and FormatNumber tests for NaN and
     infinity after the percent / per-mille scaling.
   * strings.IndexFunc/LastIndexFunc/IndexRune/Count/TrimLeftFunc/TrimRightFunc, bytes.Map,
     utf8.DecodeLastRuneInString, math.Pow10, math.Pow(10, n) for integral n, math.Ldexp are
     re-implemented here from the go1.23 sources.
   * strconv.AppendFloat(.., 'f', dp, 64) is the Section parameter [fmt_fixed]
     (JV.Base.Decimal.format_float_fixed, see Model/LibNumberInst.v).
   * runes in a DecimalFormat are Go int32 values; `r - ZeroDigit` and `ZeroDigit + offset`
     wrap modulo 2^32.

   Stdlib + JV.Base (+ Model.LibNumber for is_halfway/modf) only, no axioms. *)
From Coq Require Import ZArith Bool List Ascii String.
From JV.Base Require Import Bytes Utf8 F64 Res.
From JV.Model Require Import LibNumber.
Open Scope Z_scope.

(* ------------------------------------------------------------------------------------ *)
(* Go strings / utf8 helpers                                                             *)
(* ------------------------------------------------------------------------------------ *)

Definition wrap32 (z : Z) : Z := (z + 2 ^ 31) mod 2 ^ 32 - 2 ^ 31.

Definition zlen (s : string) : Z := Z.of_nat (slen s).

(* s[i:] and s[:i] with Go's bounds check *)
Definition go_slice_from (s : string) (i : Z) : lres string :=
  if (0 <=? i) && (i <=? zlen s) then LOk (sdrop (Z.to_nat i) s)
  else LPanic "slice bounds out of range".

Definition byte_at (s : string) (i : Z) : Z :=
  match String.get (Z.to_nat i) s with Some c => byte_of c | None => 0 end.

(* utf8.RuneStart *)
Definition rune_start (b : Z) : bool := negb (b / 64 =? 2).

(* the backwards scan of utf8.DecodeLastRuneInString:
     for start--; start >= lim; start-- { if RuneStart(s[start]) { break } } *)
Fixpoint scan_back (fuel : nat) (s : string) (start lim : Z) : Z :=
  match fuel with
  | O => start
  | S f =>
      if start <? lim then start
      else if rune_start (byte_at s start) then start
      else scan_back f s (start - 1) lim
  end.

(* utf8.DecodeLastRuneInString *)
Definition decode_last_rune (s : string) : rune * nat :=
  let en := zlen s in
  if en =? 0 then (RuneError, 0%nat)
  else
    let b := byte_at s (en - 1) in
    if b <? 128 then (b, 1%nat)
    else
      let lim := Z.max (en - 4) 0 in
      let start := scan_back 5 s (en - 2) lim in
      let start := if start <? 0 then 0 else start in
      let '(r, size) := decode_rune (sdrop (Z.to_nat start) s) in
      if start + Z.of_nat size =? en then (r, size) else (RuneError, 1%nat).

(* strings.IndexFunc(s, f) with the truth flag of indexFunc; None = -1 *)
Fixpoint index_func_in (l : list (nat * rune)) (f : rune -> bool) (truth : bool) : option nat :=
  match l with
  | [] => None
  | (i, r) :: t => if Bool.eqb (f r) truth then Some i else index_func_in t f truth
  end.
Definition index_func (s : string) (f : rune -> bool) : option nat :=
  index_func_in (runes_pos s) f true.

(* strings.lastIndexFunc *)
Fixpoint last_index_func_aux (fuel : nat) (s : string) (i : nat) (f : rune -> bool)
         (truth : bool) : option nat :=
  match fuel with
  | O => None
  | S fu =>
      if (i =? 0)%nat then None
      else
        let '(r, size) := decode_last_rune (stake i s) in
        let i' := (i - size)%nat in
        if Bool.eqb (f r) truth then Some i' else last_index_func_aux fu s i' f truth
  end.
Definition last_index_func (s : string) (f : rune -> bool) (truth : bool) : option nat :=
  last_index_func_aux (S (slen s)) s (slen s) f truth.

(* strings.IndexRune *)
Definition index_rune (s : string) (r : rune) : option nat :=
  if (0 <=? r) && (r <? 128) then sindex (string_of_bytes [r]) s
  else if r =? RuneError then index_func s (fun c => c =? RuneError)
  else if negb (valid_rune r) then None
  else sindex (encode_rune r) s.

Definition contains_rune (s : string) (r : rune) : bool :=
  match index_rune s r with Some _ => true | None => false end.

(* strings.Count *)
Fixpoint count_from (fuel : nat) (sub s : string) : Z :=
  match fuel with
  | O => 0
  | S f =>
      match sindex sub s with
      | None => 0
      | Some i => 1 + count_from f sub (sdrop (i + slen sub) s)
      end
  end.
Definition scount (s sub : string) : Z :=
  match sub with
  | EmptyString => Z.of_nat (rune_count s) + 1
  | _ => count_from (S (slen s)) sub s
  end.

(* runeCountInStringFunc *)
Definition rune_count_func (s : string) (f : rune -> bool) : Z :=
  Z.of_nat (List.length (filter f (runes s))).

(* strings.TrimLeftFunc *)
Definition trim_left_func (s : string) (f : rune -> bool) : string :=
  match index_func_in (runes_pos s) f false with
  | None => EmptyString
  | Some i => sdrop i s
  end.

(* strings.TrimRightFunc *)
Definition trim_right_func (s : string) (f : rune -> bool) : string :=
  match last_index_func s f false with
  | Some i =>
      if 128 <=? byte_at s (Z.of_nat i) then
        let '(_, wid) := decode_rune (sdrop i s) in stake (i + wid) s
      else stake (i + 1) s
  | None => EmptyString                                   (* i = -1; i++ ; s[0:0] *)
  end.

(* firstRuneInString / lastRuneInString *)
Definition first_rune (s : string) : rune := fst (decode_rune s).
Definition last_rune (s : string) : rune := fst (decode_last_rune s).

(* doubleRune: string([]rune{r, r}) *)
Definition double_rune (r : rune) : string := encode_rune r ++ encode_rune r.

(* bytes.Map *)
Definition map_runes (f : rune -> rune) (s : string) : string :=
  sconcat (map (fun r => let r' := f r in if 0 <=? r' then encode_rune r' else EmptyString)
               (runes s)).

(* ------------------------------------------------------------------------------------ *)
(* math.Pow10, math.Ldexp, math.Pow(10, n)                                               *)
(* ------------------------------------------------------------------------------------ *)

(* the float64 nearest (ties to even) to 10^n : the entries of pow10tab, pow10postab32 and
   pow10negtab32 are correctly rounded decimal literals *)
Definition dec_pow10 (n : Z) : f64 :=
  if 0 <=? n then f_of_Z (10 ^ n)
  else
    let d := 10 ^ (- n) in
    let k := Z.log2 d + 120 in
    let q := 2 ^ k / d in
    let sticky := if 2 ^ k mod d =? 0 then 0 else 1 in
    f_of_Zexp (2 * q + sticky) (- k - 1) false.

(* math.Pow10 *)
Definition pow10 (n : Z) : f64 :=
  if (0 <=? n) && (n <=? 308) then fmul (dec_pow10 (32 * (n / 32))) (dec_pow10 (n mod 32))
  else if (-323 <=? n) && (n <=? 0) then
    fdiv (dec_pow10 (- (32 * ((- n) / 32)))) (dec_pow10 ((- n) mod 32))
  else if 0 <? n then f_inf
  else fzero.

(* math.Ldexp *)
Definition ldexp (frac : f64) (e : Z) : f64 :=
  match frac with
  | S754_finite s m ex => f_of_Zexp (if s then Zneg m else Zpos m) (ex + e) s
  | _ => frac
  end.

(* the squaring loop of math.pow; i = remaining bits of yi *)
Fixpoint pow_loop (fuel : nat) (i : Z) (a1 : f64) (ae : Z) (x1 : f64) (xe : Z) : f64 * Z :=
  match fuel with
  | O => (a1, ae)
  | S f =>
      if i =? 0 then (a1, ae)
      else if (xe <? -4096) || (4096 <? xe) then (a1, ae + xe)
      else
        let '(a1', ae') := if Z.odd i then (fmul a1 x1, ae + xe) else (a1, ae) in
        let x1' := fmul x1 x1 in
        let xe' := 2 * xe in
        let '(x1'', xe'') := if fltb x1' f_half then (fadd x1' x1', xe' - 1) else (x1', xe') in
        pow_loop f (i / 2) a1' ae' x1'' xe''
  end.

Definition f_ten : f64 := Eval vm_compute in f_of_Z 10.
Definition f_frexp10 : f64 := Eval vm_compute in f_of_Zexp 5 (-3) false.   (* Frexp(10) = 0.625, 4 *)

(* math.Pow(10, float64(n)) for a Go int n with |n| < 2^53 (yf = 0, yi = |n| < 2^63) *)
Definition go_pow10 (n : Z) : f64 :=
  if n =? 0 then fone
  else if n =? 1 then f_ten
  else
    let '(a1, ae) := pow_loop 64 (Z.abs n) fone 0 f_frexp10 4 in
    let '(a1, ae) := if n <? 0 then (fdiv fone a1, - ae) else (a1, ae) in
    ldexp a1 ae.

(* ------------------------------------------------------------------------------------ *)
(* DecimalFormat                                                                         *)
(* ------------------------------------------------------------------------------------ *)

Record decimal_format := mk_decimal_format {
  df_decimal_separator : rune;
  df_group_separator : rune;
  df_exponent_separator : rune;
  df_minus_sign : rune;
  df_infinity : string;
  df_nan : string;
  df_percent : string;
  df_per_mille : string;
  df_zero_digit : rune;
  df_optional_digit : rune;
  df_pattern_separator : rune
}.

(* jxpath.NewDecimalFormat *)
Definition default_decimal_format : decimal_format :=
  mk_decimal_format 46 44 101 45 "Infinity" "NaN" "%" (encode_rune 8240) 48 35 59.

Definition is_zero_digit (fmt : decimal_format) (r : rune) : bool := r =? df_zero_digit fmt.

Definition is_decimal_digit (fmt : decimal_format) (r : rune) : bool :=
  let d := wrap32 (r - df_zero_digit fmt) in (0 <=? d) && (d <=? 9).

Definition is_digit (fmt : decimal_format) (r : rune) : bool :=
  (r =? df_optional_digit fmt) || is_decimal_digit fmt r.

Definition is_active (fmt : decimal_format) (r : rune) : bool :=
  if (r =? df_decimal_separator fmt) || (r =? df_exponent_separator fmt) ||
     (r =? df_group_separator fmt) || (r =? df_pattern_separator fmt) ||
     (r =? df_optional_digit fmt)
  then true else is_decimal_digit fmt r.

(* ------------------------------------------------------------------------------------ *)
(* picture analysis                                                                      *)
(* ------------------------------------------------------------------------------------ *)

(* splitStringAtRune *)
Definition split_string_at_rune (s : string) (r : rune) : lres (string * string) :=
  match index_rune s r with
  | None => LOk (s, EmptyString)
  | Some pos =>
      lbind (go_slice_from s (Z.of_nat pos + rune_len r)) (fun s2 =>
      if negb (contains_rune s2 r) then LOk (stake pos s, s2)
      else LOk (EmptyString, EmptyString))
  end.

(* splitStringAtByte *)
Definition split_string_at_byte (s : string) (b : Z) : string * string :=
  let bs := string_of_bytes [b] in
  match sindex bs s with
  | None => (s, EmptyString)
  | Some pos =>
      let s2 := sdrop (pos + 1) s in
      match sindex bs s2 with
      | None => (stake pos s, s2)
      | Some _ => (EmptyString, EmptyString)
      end
  end.

Record subpicture_parts := mk_parts {
  sp_prefix : string;
  sp_suffix : string;
  sp_mantissa : string;
  sp_exponent : string;
  sp_integer : string;
  sp_fractional : string;
  sp_picture : string;
  sp_active : string
}.

(* extractSubpictureParts *)
Definition extract_subpicture_parts (subpicture : string) (fmt : decimal_format)
  : lres subpicture_parts :=
  let isActive := fun r => negb (r =? df_exponent_separator fmt) && is_active fmt r in
  let first := match index_func subpicture isActive with Some i => i | None => 0%nat end in
  let last :=
    match last_index_func subpicture isActive true with
    | None => slen subpicture
    | Some l => let '(_, w) := decode_rune (sdrop l subpicture) in (l + w)%nat
    end in
  let prefix := stake first subpicture in
  let suffix := sdrop last subpicture in
  if (last <? first)%nat then LPanic "slice bounds out of range" else
  let activePart := sslice first last subpicture in
  lbind
    (match index_rune activePart (df_exponent_separator fmt) with
     | Some pos =>
         lbind (go_slice_from activePart (Z.of_nat pos + rune_len (df_exponent_separator fmt)))
               (fun ex => LOk (stake pos activePart, ex))
     | None => LOk (activePart, EmptyString)
     end) (fun '(mantissaPart, exponentPart) =>
  lbind
    (match index_rune mantissaPart (df_decimal_separator fmt) with
     | Some pos =>
         lbind (go_slice_from mantissaPart (Z.of_nat pos + rune_len (df_decimal_separator fmt)))
               (fun fr => LOk (stake pos mantissaPart, fr))
     | None => LOk (mantissaPart, suffix)
     end) (fun '(integerPart, fractionalPart) =>
  LOk (mk_parts prefix suffix mantissaPart exponentPart integerPart fractionalPart
                subpicture activePart))).

(* validateSubpictureParts; LOk tt = nil error *)
Definition validate_subpicture_parts (parts : subpicture_parts) (fmt : decimal_format)
  : lres unit :=
  let pic := sp_picture parts in
  if 1 <? scount pic (encode_rune (df_decimal_separator fmt)) then
    LErr "a subpicture cannot contain more than one decimal separator"
  else
  let percents := scount pic (df_percent fmt) in
  if 1 <? percents then LErr "a subpicture cannot contain more than one percent character"
  else
  let permilles := scount pic (df_per_mille fmt) in
  if 1 <? permilles then LErr "a subpicture cannot contain more than one per-mille character"
  else
  if (0 <? percents) && (0 <? permilles) then
    LErr "a subpicture cannot contain both percent and per-mille characters"
  else
  match index_func (sp_mantissa parts) (is_digit fmt) with
  | None => LErr "a mantissa part must contain at least one decimal or optional digit"
  | Some _ =>
  match index_func (sp_active parts) (fun r => negb (is_active fmt r)) with
  | Some _ => LErr "a subpicture cannot contain a passive character that is both preceded by and followed by an active character"
  | None =>
  if (last_rune (sp_integer parts) =? df_group_separator fmt) ||
     (first_rune (sp_fractional parts) =? df_group_separator fmt) then
    (if contains_rune pic (df_decimal_separator fmt)
     then LErr "a group separator cannot be adjacent to a decimal separator"
     else LErr "an integer part cannot end with a group separator")
  else
  if scontains (double_rune (df_group_separator fmt)) pic then
    LErr "a subpicture cannot contain adjacent group separators"
  else
  lbind
    (match index_func (sp_integer parts) (is_decimal_digit fmt) with
     | Some pos =>
         lbind (go_slice_from (sp_integer parts)
                              (Z.of_nat pos + rune_len (df_zero_digit fmt))) (fun rest =>
         if contains_rune rest (df_optional_digit fmt)
         then LErr "an integer part cannot contain a decimal digit followed by an optional digit"
         else LOk tt)
     | None => LOk tt
     end) (fun _ =>
  lbind
    (match index_rune (sp_fractional parts) (df_optional_digit fmt) with
     | Some pos =>
         lbind (go_slice_from (sp_fractional parts)
                              (Z.of_nat pos + rune_len (df_optional_digit fmt))) (fun rest =>
         match index_func rest (is_decimal_digit fmt) with
         | Some _ => LErr "a fractional part cannot contain an optional digit followed by a decimal digit"
         | None => LOk tt
         end)
     | None => LOk tt
     end) (fun _ =>
  let exponents := scount pic (encode_rune (df_exponent_separator fmt)) in
  if 1 <? exponents then
    LErr "a subpicture cannot contain more than one exponent separator"
  else if (0 <? exponents) && ((0 <? percents) || (0 <? permilles)) then
    LErr "a subpicture cannot contain a percent/per-mille character and an exponent separator"
  else if (0 <? exponents) &&
          match index_func (sp_exponent parts) (fun r => negb (is_decimal_digit fmt r)) with
          | Some _ => true | None => false end then
    LErr "an exponent part must consist solely of one or more decimal digits"
  else LOk tt))
  end end.

(* numberType: 0 = none, 1 = typePercent, 2 = typePermille *)
Record subpicture_variables := mk_vars {
  sv_number_type : Z;
  sv_integer_group_positions : list Z;
  sv_group_size : Z;
  sv_min_integer_size : Z;
  sv_scaling_factor : Z;
  sv_fractional_group_positions : list Z;
  sv_min_fractional_size : Z;
  sv_max_fractional_size : Z;
  sv_min_exponent_size : Z;
  sv_prefix : string;
  sv_suffix : string
}.

Definition empty_vars : subpicture_variables :=
  mk_vars 0 [] 0 0 0 [] 0 0 0 EmptyString EmptyString.

(* getGroupPositions; [acc] is the positions slice reversed *)
Fixpoint get_group_positions_aux (fuel : nat) (s : string) (sep : rune) (fn : rune -> bool)
         (lookLeft : bool) (acc : list Z) : lres (list Z) :=
  match fuel with
  | O => LOk (rev acc)
  | S f =>
      match index_rune s sep with
      | None => LOk (rev acc)
      | Some pos =>
          lbind (go_slice_from s (Z.of_nat pos + rune_len sep)) (fun after =>
          let rest := if lookLeft then stake pos s else after in
          let c := rune_count_func rest fn in
          let c' := if lookLeft then match acc with p :: _ => c + p | [] => c end else c in
          get_group_positions_aux f after sep fn lookLeft (c' :: acc))
      end
  end.
Definition get_group_positions (s : string) (sep : rune) (fn : rune -> bool) (lookLeft : bool)
  : lres (list Z) :=
  get_group_positions_aux (S (slen s)) s sep fn lookLeft [].

(* gcd (Euclid on Go ints; the arguments are non-negative counts) *)
Fixpoint gcd_fuel (fuel : nat) (a b : Z) : Z :=
  match fuel with
  | O => a
  | S f => if b =? 0 then a else gcd_fuel f b (Z.rem a b)
  end.
Definition go_gcd (a b : Z) : Z := gcd_fuel (S (Z.to_nat b)) a b.
Definition gcd_of (values : list Z) : Z := fold_left go_gcd values 0.

(* indexInt(values, want) != -1 *)
Definition index_int_found (values : list Z) (want : Z) : bool :=
  existsb (fun n => n =? want) values.

(* getGroupSize *)
Definition get_group_size (positions : list Z) : Z :=
  match positions with
  | [] => 0
  | _ =>
      let factor := gcd_of positions in
      if forallb (fun i => index_int_found positions (factor * (Z.of_nat i + 1)))
                 (seq 0 (List.length positions))
      then factor else 0
  end.

(* analyseSubpictureParts *)
Definition analyse_subpicture_parts (parts : subpicture_parts) (fmt : decimal_format)
  : lres subpicture_variables :=
  let pic := sp_picture parts in
  let typ := if scontains (df_percent fmt) pic then 1
             else if scontains (df_per_mille fmt) pic then 2 else 0 in
  lbind (get_group_positions (sp_integer parts) (df_group_separator fmt) (is_digit fmt) false)
        (fun integerGroupPositions =>
  lbind (get_group_positions (sp_fractional parts) (df_group_separator fmt) (is_digit fmt) true)
        (fun fractionalGroupPositions =>
  let groupSize := get_group_size integerGroupPositions in
  let minIntegerSize := rune_count_func (sp_integer parts) (is_decimal_digit fmt) in
  let scalingFactor := minIntegerSize in
  let minFractionalSize := rune_count_func (sp_fractional parts) (is_decimal_digit fmt) in
  let maxFractionalSize := rune_count_func (sp_fractional parts) (is_digit fmt) in
  let hasExp := negb (seqb (sp_exponent parts) EmptyString) in
  let '(minIntegerSize, minFractionalSize, maxFractionalSize) :=
    if (minIntegerSize =? 0) && (maxFractionalSize =? 0) then
      (if hasExp then (minIntegerSize, 1, 1) else (1, minFractionalSize, maxFractionalSize))
    else (minIntegerSize, minFractionalSize, maxFractionalSize) in
  let minIntegerSize :=
    if hasExp && (minIntegerSize =? 0) &&
       contains_rune (sp_integer parts) (df_optional_digit fmt)
    then 1 else minIntegerSize in
  let minFractionalSize :=
    if (minIntegerSize =? 0) && (minFractionalSize =? 0) then 1 else minFractionalSize in
  let minExponentSize := rune_count_func (sp_exponent parts) (is_decimal_digit fmt) in
  LOk (mk_vars typ integerGroupPositions groupSize minIntegerSize scalingFactor
               fractionalGroupPositions minFractionalSize maxFractionalSize minExponentSize
               (sp_prefix parts) (sp_suffix parts)))).

(* processSubpicture *)
Definition process_subpicture (subpicture : string) (fmt : decimal_format)
  : lres subpicture_variables :=
  lbind (extract_subpicture_parts subpicture fmt) (fun parts =>
  lbind (validate_subpicture_parts parts fmt) (fun _ =>
  analyse_subpicture_parts parts fmt)).

Definition set_prefix (v : subpicture_variables) (p : string) : subpicture_variables :=
  mk_vars (sv_number_type v) (sv_integer_group_positions v) (sv_group_size v)
          (sv_min_integer_size v) (sv_scaling_factor v) (sv_fractional_group_positions v)
          (sv_min_fractional_size v) (sv_max_fractional_size v) (sv_min_exponent_size v)
          p (sv_suffix v).

(* processPicture *)
Definition process_picture (picture : string) (fmt : decimal_format) (isNegative : bool)
  : lres subpicture_variables :=
  lbind (split_string_at_rune picture (df_pattern_separator fmt)) (fun '(pic1, pic2) =>
  if seqb pic1 EmptyString then LErr "picture string must contain 1 or 2 subpictures"
  else
  lbind (process_subpicture pic1 fmt) (fun vars1 =>
  lbind (if seqb pic2 EmptyString then LOk empty_vars else process_subpicture pic2 fmt)
        (fun vars2 =>
  if isNegative then
    (if negb (seqb pic2 EmptyString) then LOk vars2
     else LOk (set_prefix vars1 (encode_rune (df_minus_sign fmt) ++ sv_prefix vars1)))
  else LOk vars1))).

(* ------------------------------------------------------------------------------------ *)
(* number formatting                                                                     *)
(* ------------------------------------------------------------------------------------ *)

(* insertSeparatorsEvery *)
Fixpoint ise_loop (n : nat) (s : string) (en : Z) (interval : Z) (acc : list string)
  : lres (list string) :=
  match n with
  | O => LOk (stake (Z.to_nat en) s :: acc)
  | S n' =>
      let '(_, w) := decode_last_rune (stake (Z.to_nat en) s) in
      let pos := interval * Z.of_nat w in
      if en - pos <? 0 then LPanic "slice bounds out of range"
      else ise_loop n' s (en - pos) interval
                    (sslice (Z.to_nat (en - pos)) (Z.to_nat en) s :: acc)
  end.

Definition insert_separators_every (s : string) (sep : rune) (interval : Z) : lres string :=
  let l := Z.of_nat (rune_count s) in
  if (interval <=? 0) || (l <=? interval) then LOk s
  else
    let n := (l - 1) / interval in
    lbind (ise_loop (Z.to_nat n) s (zlen s) interval []) (fun chunks =>
    LOk (sjoin (encode_rune sep) chunks)).

(* the inner loop of insertSeparatorsAt: for n > 0 { _, w := Decode(s[pos:]); pos += w; n-- } *)
Fixpoint advance_runes (n : nat) (s : string) (pos : nat) : nat :=
  match n with
  | O => pos
  | S n' => let '(_, w) := decode_rune (sdrop pos s) in advance_runes n' s (pos + w)
  end.

(* insertSeparatorsAt: [done] is the position of the previous cut (fractional part only);
   `continue` when an integer position has no digit to its left, `break` when a fractional
   position has no digit to its right *)
Definition isa_cut (n : Z) (s : string) : nat :=
  (* at most rune_count s + 1 iterations change pos *)
  advance_runes (Z.to_nat (Z.min n (Z.of_nat (slen s) + 1))) s 0.

Fixpoint isa_loop (positions : list Z) (s : string) (fromRight : bool) (done : Z)
         (acc : list string) : list string :=
  match positions with
  | [] => rev (s :: acc)
  | p :: rest =>
      if fromRight then
        let n := Z.of_nat (rune_count s) - p in
        if n <=? 0 then isa_loop rest s fromRight done acc
        else
          let pos := isa_cut n s in
          isa_loop rest (sdrop pos s) fromRight done (stake pos s :: acc)
      else
        let n := p - done in
        if Z.of_nat (rune_count s) <=? n then rev (s :: acc)
        else
          let pos := isa_cut n s in
          isa_loop rest (sdrop pos s) fromRight p (stake pos s :: acc)
  end.

Definition insert_separators_at (integer : string) (sep : rune) (positions : list Z)
           (fromRight : bool) : string :=
  sjoin (encode_rune sep) (isa_loop positions integer fromRight 0 []).

Definition pad_count (padding : Z) : nat := Z.to_nat padding.

(* formatIntegerPart *)
Definition format_integer_part (integer : string) (vars : subpicture_variables)
           (fmt : decimal_format) : lres string :=
  let integer := trim_left_func integer (is_zero_digit fmt) in
  let padding := sv_min_integer_size vars - Z.of_nat (rune_count integer) in
  let zd := encode_rune (df_zero_digit fmt) in
  let integer :=
    if padding =? 1 then zd ++ integer
    else if 1 <? padding then srepeat zd (pad_count padding) ++ integer
    else integer in
  if 0 <? sv_group_size vars then
    insert_separators_every integer (df_group_separator fmt) (sv_group_size vars)
  else
    match sv_integer_group_positions vars with
    | _ :: _ => LOk (insert_separators_at integer (df_group_separator fmt)
                                          (sv_integer_group_positions vars) true)
    | [] => LOk integer
    end.

(* formatFractionalPart *)
Definition format_fractional_part (fractional : string) (vars : subpicture_variables)
           (fmt : decimal_format) : string :=
  let fractional := trim_right_func fractional (is_zero_digit fmt) in
  let padding := sv_min_fractional_size vars - Z.of_nat (rune_count fractional) in
  let zd := encode_rune (df_zero_digit fmt) in
  let fractional :=
    if padding =? 1 then fractional ++ zd
    else if 1 <? padding then fractional ++ srepeat zd (pad_count padding)
    else fractional in
  match sv_fractional_group_positions vars with
  | _ :: _ => insert_separators_at fractional (df_group_separator fmt)
                                   (sv_fractional_group_positions vars) false
  | [] => fractional
  end.

(* formatExponentPart *)
Definition format_exponent_part (exponent : string) (vars : subpicture_variables)
           (fmt : decimal_format) : string :=
  let padding := sv_min_exponent_size vars - Z.of_nat (rune_count exponent) in
  let zd := encode_rune (df_zero_digit fmt) in
  if padding =? 1 then zd ++ exponent
  else if 1 <? padding then srepeat zd (pad_count padding) ++ exponent
  else exponent.

(* jxpath.round (gonum RoundEven with math.Pow10) *)
Definition xround (x : f64) (prec : Z) : f64 :=
  if feqb x fzero then fzero
  else if (0 <=? prec) && feqb x (ftrunc x) then x
  else
    let pow := pow10 prec in
    let intermed := fmul x pow in
    if is_inf intermed then x
    else
      let x' :=
        if is_halfway intermed then
          let '(correction, _) := modf (fmod intermed f_two) in
          let intermed := fadd intermed correction in
          if fltb fzero intermed then ffloor intermed else fceil intermed
        else fround intermed in        (* math.Round; was floor(intermed + 0.5), repaired *)
      if feqb x' fzero then fzero else fdiv x' pow.

(* the two scaling loops of FormatNumber *)
Fixpoint scale_up (fuel : nat) (value minM : f64) (exponent : Z) : option (f64 * Z) :=
  match fuel with
  | O => if fltb value minM then None else Some (value, exponent)
  | S f =>
      if fltb value minM then scale_up f (fmul value f_ten) minM (exponent - 1)
      else Some (value, exponent)
  end.

Fixpoint scale_down (fuel : nat) (value maxM : f64) (exponent : Z) : option (f64 * Z) :=
  match fuel with
  | O => if fltb maxM value then None else Some (value, exponent)
  | S f =>
      if fltb maxM value then scale_down f (fdiv value f_ten) maxM (exponent + 1)
      else Some (value, exponent)
  end.

Definition f_100 : f64 := Eval vm_compute in f_of_Z 100.
Definition f_1000 : f64 := Eval vm_compute in f_of_Z 1000.

Section FormatNumber.
  Variable fmt_fixed : f64 -> Z -> string.   (* strconv.AppendFloat(nil, x, 'f', dp, 64) *)

  (* makeNumberString *)
  Definition make_number_string (value : f64) (dp : Z) (fmt : decimal_format) : string :=
    let s := fmt_fixed (fabs value) dp in
    if negb (df_zero_digit fmt =? 48) then
      map_runes (fun r => let offset := r - 48 in
                          if (offset <? 0) || (9 <? offset) then r
                          else wrap32 (df_zero_digit fmt + offset)) s
    else s.

  (* jxpath.FormatNumber; [fuel] bounds each of the two scaling loops *)
  Definition format_number (fuel : nat) (value : f64) (picture : string) (fmt : decimal_format)
    : lres string :=
    if seqb picture EmptyString then LErr "picture string cannot be empty"
    else
    lbind (process_picture picture fmt (fltb value fzero)) (fun vars =>
    let value :=
      if sv_number_type vars =? 1 then fmul value f_100
      else if sv_number_type vars =? 2 then fmul value f_1000
      else value in
    (* the scaled value can be infinite when the number is not (repaired: tested after scaling) *)
    if is_nan value then LOk (sv_prefix vars ++ df_nan fmt ++ sv_suffix vars)
    else if is_inf value then LOk (sv_prefix vars ++ df_infinity fmt ++ sv_suffix vars)
    else
    lbind
      (if negb (sv_min_exponent_size vars =? 0) && negb (feqb value fzero) then
         (* the magnitude is scaled; zero is not scaled at all (repaired in /repo f28523c) *)
         let value := fabs value in
         let maxMantissa := go_pow10 (sv_scaling_factor vars) in
         let minMantissa := go_pow10 (sv_scaling_factor vars - 1) in
         match scale_up fuel value minMantissa 0 with
         | None => LFuel
         | Some (value, exponent) =>
             match scale_down fuel value maxMantissa exponent with
             | None => LFuel
             | Some ve => LOk ve
             end
         end
       else LOk (value, 0)) (fun '(value, exponent) =>
    let value := xround value (sv_max_fractional_size vars) in
    let s := make_number_string value (sv_max_fractional_size vars) fmt in
    let '(sint, sfrac) := split_string_at_byte s 46 in
    lbind (if negb (seqb sint EmptyString) then format_integer_part sint vars fmt
           else LOk EmptyString) (fun integerPart =>
    let fractionalPart :=
      if negb (seqb sfrac EmptyString) then format_fractional_part sfrac vars fmt
      else EmptyString in
    let exponentPart :=
      if negb (sv_min_exponent_size vars =? 0) then
        format_exponent_part (make_number_string (f_of_Z exponent) 0 fmt) vars fmt
      else EmptyString in
    LOk (sv_prefix vars ++ integerPart ++
         (if negb (seqb fractionalPart EmptyString)
          then encode_rune (df_decimal_separator fmt) ++ fractionalPart else EmptyString) ++
         (if negb (seqb exponentPart EmptyString)
          then encode_rune (df_exponent_separator fmt) ++
               (if exponent <? 0 then encode_rune (df_minus_sign fmt) else EmptyString) ++
               exponentPart
          else EmptyString) ++
         sv_suffix vars)))).
End FormatNumber.

(* ------------------------------------------------------------------------------------ *)
(* jlib.newDecimalFormat / updateDecimalFormat                                           *)
(* ------------------------------------------------------------------------------------ *)

Definition set_rune_field (f : decimal_format) (key : string) (r : rune) : option decimal_format :=
  let 'mk_decimal_format ds gs es ms inf nan pc pm zd od ps := f in
  if seqb key "decimal-separator" then Some (mk_decimal_format r gs es ms inf nan pc pm zd od ps)
  else if seqb key "grouping-separator" then Some (mk_decimal_format ds r es ms inf nan pc pm zd od ps)
  else if seqb key "exponent-separator" then Some (mk_decimal_format ds gs r ms inf nan pc pm zd od ps)
  else if seqb key "minus-sign" then Some (mk_decimal_format ds gs es r inf nan pc pm zd od ps)
  else if seqb key "zero-digit" then Some (mk_decimal_format ds gs es ms inf nan pc pm r od ps)
  else if seqb key "digit" then Some (mk_decimal_format ds gs es ms inf nan pc pm zd r ps)
  else if seqb key "pattern-separator" then Some (mk_decimal_format ds gs es ms inf nan pc pm zd od r)
  else None.

(* updateDecimalFormat *)
Definition update_decimal_format (f : decimal_format) (key value : string) : lres decimal_format :=
  let 'mk_decimal_format ds gs es ms inf nan pc pm zd od ps := f in
  if seqb key "infinity" then LOk (mk_decimal_format ds gs es ms value nan pc pm zd od ps)
  else if seqb key "NaN" then LOk (mk_decimal_format ds gs es ms inf value pc pm zd od ps)
  else if seqb key "percent" then LOk (mk_decimal_format ds gs es ms inf nan value pm zd od ps)
  else if seqb key "per-mille" then LOk (mk_decimal_format ds gs es ms inf nan pc value zd od ps)
  else
    let '(r, w) := decode_rune value in
    if (r =? RuneError) || negb (w =? slen value)%nat then LErr "invalid value for option"
    else match set_rune_field f key r with
         | Some f' => LOk f'
         | None => LErr "unknown option"
         end.

(* newDecimalFormat over the (key, value) pairs of the options object, all values strings
   (non-string values are rejected by the caller); Go iterates the map in random order, which
   only affects which of several errors is reported *)
Fixpoint new_decimal_format_from (f : decimal_format) (opts : list (string * string))
  : lres decimal_format :=
  match opts with
  | [] => LOk f
  | (k, v) :: rest => lbind (update_decimal_format f k v) (fun f' => new_decimal_format_from f' rest)
  end.
Definition new_decimal_format (opts : list (string * string)) : lres decimal_format :=
  new_decimal_format_from default_decimal_format opts.

(* jlib.FormatNumber: options = None when the optional third argument is not set *)
Definition lib_format_number (fmt_fixed : f64 -> Z -> string) (fuel : nat) (value : f64)
           (picture : string) (options : option (list (string * string))) : lres string :=
  match options with
  | None => format_number fmt_fixed fuel value picture default_decimal_format
  | Some opts =>
      lbind (new_decimal_format opts) (fun f => format_number fmt_fixed fuel value picture f)
  end.
