(* Model/LibDate.v — the Go `time` machinery that /repo/jlib/date.go relies on, as pure Z arithmetic:
     * proleptic-Gregorian calendar (days since 1970-01-01 <-> year/month/day, weekday, year-day,
       ISO week) valid for ALL integers, re-implementing what time.Time.Date/Weekday/YearDay/ISOWeek
       compute (validated against Go for years -5000..15000 and for the extreme int64 instants);
     * `gotime`: a Go time.Time as this code sees it = (Unix seconds, nanoseconds, fixed zone
       offset in seconds, zone name);
     * date.go: msToTime (followed by the .UTC() of FromMillis), timeToMS (as repaired in /repo
       commit 321eb7c: t.Unix()*1000 + t.Nanosecond()/1e6 in int64 arithmetic; the pre-repair
       t.UnixNano()/1e6 survives as [unix_nano]), parseTimeZone (with strconv.Atoi);
     * Go's time.Parse (time/format.go of go1.23: nextStdChunk, skip, getnum, getnum3, atoi,
       lookup, parseTimeZone, parseGMT, parseSignedOffset, parseNanoseconds, leadingInt and
       the `parse` loop) — EVERY layout element is modelled, so no layout is "unsupported".
   Modelling assumption (stated once): the process' local zone (time.Local) is UTC, so that
   time.Parse never finds a non-UTC local zone matching a parsed offset/abbreviation; the instant
   returned by Parse does not depend on this, only the Location attached to it could.
   Stdlib + JV.Base only; no axioms. *)
From JV Require Import Base.Bytes Base.Utf8 Base.Res.
Open Scope Z_scope.

(* ------------------------------------------------------------------------------------------ *)
(** * int64 wrap-around *)

Definition two63 : Z := 9223372036854775808.
Definition two64 : Z := 18446744073709551616.
(* the value an int64 computation yields when the mathematical result is z *)
Definition wrap64 (z : Z) : Z := ((z + two63) mod two64) - two63.

(* ------------------------------------------------------------------------------------------ *)
(** * Calendar *)

(* time.isLeap *)
Definition is_leap (y : Z) : bool :=
  (y mod 4 =? 0) && (negb (y mod 100 =? 0) || (y mod 400 =? 0)).

(* time.daysIn, for 1 <= m <= 12 *)
Definition days_in_month (y m : Z) : Z :=
  if m =? 2 then (if is_leap y then 29 else 28)
  else if (m =? 4) || (m =? 6) || (m =? 9) || (m =? 11) then 30
  else 31.

(* days since 1970-01-01 of the civil date y-m-d (m in 1..12; any d: day overflow is linear) *)
Definition days_of_civil (y m d : Z) : Z :=
  let y' := if m <=? 2 then y - 1 else y in
  let era := y' / 400 in
  let yoe := y' - era * 400 in
  let mp := if 2 <? m then m - 3 else m + 9 in
  let doy := (153 * mp + 2) / 5 + d - 1 in
  let doe := yoe * 365 + yoe / 4 - yoe / 100 + doy in
  era * 146097 + doe - 719468.

(* the year-of-era / month / day of a day-of-era 0 <= doe < 146097 (era = 400 years from 0000-03-01) *)
Definition civil_of_doe (doe : Z) : Z * Z * Z :=
  let yoe := (doe - doe / 1460 + doe / 36524 - doe / 146096) / 365 in
  let doy := doe - (365 * yoe + yoe / 4 - yoe / 100) in
  let mp := (5 * doy + 2) / 153 in
  let d := doy - (153 * mp + 2) / 5 + 1 in
  let m := if mp <? 10 then mp + 3 else mp - 9 in
  (yoe, m, d).

(* (year, month, day) of the day z days after 1970-01-01 — Time.Date() *)
Definition civil_of_days (z : Z) : Z * Z * Z :=
  let z' := z + 719468 in
  let era := z' / 146097 in
  let doe := z' - era * 146097 in
  let '(yoe, m, d) := civil_of_doe doe in
  let y := yoe + era * 400 in
  (if m <=? 2 then y + 1 else y, m, d).

(* Time.Weekday(): 0 = Sunday .. 6 = Saturday; 1970-01-01 was a Thursday *)
Definition weekday_of_days (z : Z) : Z := (z + 4) mod 7.

(* Time.YearDay(): 1..366 *)
Definition yearday (z : Z) : Z :=
  let '(y, _, _) := civil_of_days z in z - days_of_civil y 1 1 + 1.

(* Time.ISOWeek(): go to the Thursday of the (Monday-based) week of z; its year is the ISO
   week-year, and the week number is (zero-based year-day of that Thursday)/7 + 1 *)
Definition iso_week (z : Z) : Z * Z :=
  let d := 4 - weekday_of_days z in
  let d := if d =? 4 then -3 else d in
  let thu := z + d in
  let '(y, _, _) := civil_of_days thu in
  (y, (thu - days_of_civil y 1 1) / 7 + 1).

(* ------------------------------------------------------------------------------------------ *)
(** * time.Time as used here *)

Record gotime := { unix_sec : Z; nsec : Z; offset : Z; zname : string }.

Definition t_local_sec (t : gotime) : Z := unix_sec t + offset t.
Definition t_days (t : gotime) : Z := t_local_sec t / 86400.
Definition t_sod (t : gotime) : Z := t_local_sec t mod 86400.
Definition t_year (t : gotime) : Z := let '(y, _, _) := civil_of_days (t_days t) in y.
Definition t_month (t : gotime) : Z := let '(_, m, _) := civil_of_days (t_days t) in m.
Definition t_day (t : gotime) : Z := let '(_, _, d) := civil_of_days (t_days t) in d.
Definition t_yearday (t : gotime) : Z := yearday (t_days t).
Definition t_weekday (t : gotime) : Z := weekday_of_days (t_days t).
Definition t_isoweek (t : gotime) : Z * Z := iso_week (t_days t).
Definition t_hour (t : gotime) : Z := t_sod t / 3600.
Definition t_minute (t : gotime) : Z := (t_sod t mod 3600) / 60.
Definition t_second (t : gotime) : Z := t_sod t mod 60.
Definition t_nanosecond (t : gotime) : Z := nsec t.

(* time.Unix(sec, nsec) (normalising nsec into [0,1e9)) viewed in UTC.
   date.go: msToTime(ms) = time.Unix(ms/1000, (ms%1000)*1e6) with Go's truncated / and %;
   FromMillis immediately applies .UTC(), which is what [ms_to_time] returns. *)
Definition go_time_unix (sec ns : Z) (off : Z) (name : string) : gotime :=
  let '(sec, ns) :=
    if (ns <? 0) || (1000000000 <=? ns) then
      let n := Z.quot ns 1000000000 in
      let sec := sec + n in
      let ns := ns - n * 1000000000 in
      if ns <? 0 then (sec - 1, ns + 1000000000) else (sec, ns)
    else (sec, ns) in
  {| unix_sec := sec; nsec := ns; offset := off; zname := name |}.

Definition ms_to_time (ms : Z) : gotime :=
  go_time_unix (Z.quot ms 1000) (Z.rem ms 1000 * 1000000) 0 "UTC".

(* Time.In(time.FixedZone(name, off)) *)
Definition time_in (t : gotime) (off : Z) (name : string) : gotime :=
  {| unix_sec := unix_sec t; nsec := nsec t; offset := off; zname := name |}.

(* Time.UnixNano() is int64 arithmetic: wraps outside 1677-09-21 .. 2262-04-11 *)
Definition unix_nano (t : gotime) : Z := wrap64 (unix_sec t * 1000000000 + nsec t).
(* date.go: timeToMS(t); before the repair it was t.UnixNano() / int64(time.Millisecond) *)
(* repaired in /repo: t.Unix()*1000 + int64(t.Nanosecond())/1e6, no nanosecond overflow
   (0 <= nsec < 10^9, so the division is a floor; int64 arithmetic wraps only beyond ±292 million years) *)
Definition time_to_ms (t : gotime) : Z := wrap64 (wrap64 (unix_sec t * 1000) + nsec t / 1000000).

(* ------------------------------------------------------------------------------------------ *)
(** * small string helpers *)

Definition byte_at (s : string) (i : nat) : Z :=
  match String.get i s with Some c => byte_of c | None => -1 end.
Definition is_digit_byte (b : Z) : bool := (48 <=? b) && (b <=? 57).
(* time.isDigit(s, i) *)
Definition is_digit_at (s : string) (i : nat) : bool := is_digit_byte (byte_at s i).

(* strconv.Atoi (base 10, optional sign, no underscores, int64 range) *)
Definition go_atoi (s : string) : option Z :=
  let body := match s with
              | String "+" r => r
              | String "-" r => r
              | _ => s
              end in
  match body with
  | EmptyString => None
  | _ => match Z_of_dec_acc body 0 with
         | None => None
         | Some n =>
             let v := match s with String "-" _ => - n | _ => n end in
             if (- two63 <=? v) && (v <? two63) then Some v else None
         end
  end.

(* date.go: parseTimeZone (as repaired: a sign and exactly four digits, hours <= 23,
   minutes <= 59).  Result: (offset in seconds, zone name = the tz string itself) *)
Definition parse_time_zone (tz : string) : lres (Z * string) :=
  if negb (slen tz =? 5)%nat then LErr "invalid timezone"
  else
    let b0 := byte_at tz 0 in
    let mult := if b0 =? 45 then Some (-1) else if b0 =? 43 then Some 1 else None in
    match mult with
    | None => LErr "invalid timezone"
    | Some mult =>
        (* `for _, c := range tz[1:]`: a non-ASCII byte decodes to a rune >= 0x80, never a digit *)
        if negb (forallb is_digit_byte (bytes_of (sdrop 1 tz))) then LErr "invalid timezone"
        else
        match go_atoi (sslice 1 3 tz) with
        | None => LErr "invalid timezone"
        | Some hours =>
            if 23 <? hours then LErr "invalid timezone"
            else
            match go_atoi (sslice 3 5 tz) with
            | None => LErr "invalid timezone"
            | Some minutes =>
                if 59 <? minutes then LErr "invalid timezone"
                else LOk (mult * (60 * ((60 * hours) + minutes)), tz)
            end
        end
    end.

(* ------------------------------------------------------------------------------------------ *)
(** * time.Parse *)

Inductive std :=
| StdNone
| StdLongMonth | StdMonth | StdNumMonth | StdZeroMonth
| StdLongWeekDay | StdWeekDay
| StdDay | StdUnderDay | StdZeroDay | StdUnderYearDay | StdZeroYearDay
| StdHour | StdHour12 | StdZeroHour12 | StdMinute | StdZeroMinute | StdSecond | StdZeroSecond
| StdLongYear | StdYear | StdPM | Stdpm | StdTZ
| StdISO8601TZ | StdISO8601SecondsTZ | StdISO8601ShortTZ | StdISO8601ColonTZ | StdISO8601ColonSecondsTZ
| StdNumTZ | StdNumSecondsTz | StdNumShortTZ | StdNumColonTZ | StdNumColonSecondsTZ
| StdFracSecond0 (ndigits : Z) | StdFracSecond9 (ndigits : Z).

Definition starts_with_lower (s : string) : bool :=
  let b := byte_at s 0 in (97 <=? b) && (b <=? 122).

Fixpoint count_run (ch : Z) (s : string) : nat :=
  match s with
  | String c r => if byte_of c =? ch then S (count_run ch r) else O
  | EmptyString => O
  end.

(* the `switch` of nextStdChunk at position i, s = layout[i:].  Result: Some (u, std, suffix)
   where u = true in the "_2006" case (the '_' then belongs to the prefix) *)
Definition std_at (s : string) : option (bool * std * string) :=
  match s with
  | EmptyString => None
  | String c _ =>
      let b := byte_of c in
      let b1 := byte_at s 1 in
      let b2 := byte_at s 2 in
      if b =? 74 (* J *) then
        if sprefix "Jan" s then
          if sprefix "January" s then Some (false, StdLongMonth, sdrop 7 s)
          else if negb (starts_with_lower (sdrop 3 s)) then Some (false, StdMonth, sdrop 3 s)
          else None
        else None
      else if b =? 77 (* M *) then
        if sprefix "Mon" s then
          if sprefix "Monday" s then Some (false, StdLongWeekDay, sdrop 6 s)
          else if negb (starts_with_lower (sdrop 3 s)) then Some (false, StdWeekDay, sdrop 3 s)
          else None
        else if sprefix "MST" s then Some (false, StdTZ, sdrop 3 s)
        else None
      else if b =? 48 (* 0 *) then
        if (49 <=? b1) && (b1 <=? 54) then
          let st := if b1 =? 49 then StdZeroMonth else if b1 =? 50 then StdZeroDay
                    else if b1 =? 51 then StdZeroHour12 else if b1 =? 52 then StdZeroMinute
                    else if b1 =? 53 then StdZeroSecond else StdYear in
          Some (false, st, sdrop 2 s)
        else if (b1 =? 48) && (b2 =? 50) then Some (false, StdZeroYearDay, sdrop 3 s)
        else None
      else if b =? 49 (* 1 *) then
        if b1 =? 53 then Some (false, StdHour, sdrop 2 s)
        else Some (false, StdNumMonth, sdrop 1 s)
      else if b =? 50 (* 2 *) then
        if sprefix "2006" s then Some (false, StdLongYear, sdrop 4 s)
        else Some (false, StdDay, sdrop 1 s)
      else if b =? 95 (* _ *) then
        if b1 =? 50 then
          if sprefix "2006" (sdrop 1 s) then Some (true, StdLongYear, sdrop 5 s)
          else Some (false, StdUnderDay, sdrop 2 s)
        else if (b1 =? 95) && (b2 =? 50) then Some (false, StdUnderYearDay, sdrop 3 s)
        else None
      else if b =? 51 then Some (false, StdHour12, sdrop 1 s)
      else if b =? 52 then Some (false, StdMinute, sdrop 1 s)
      else if b =? 53 then Some (false, StdSecond, sdrop 1 s)
      else if b =? 80 (* P *) then
        if b1 =? 77 then Some (false, StdPM, sdrop 2 s) else None
      else if b =? 112 (* p *) then
        if b1 =? 109 then Some (false, Stdpm, sdrop 2 s) else None
      else if b =? 45 (* - *) then
        if sprefix "-070000" s then Some (false, StdNumSecondsTz, sdrop 7 s)
        else if sprefix "-07:00:00" s then Some (false, StdNumColonSecondsTZ, sdrop 9 s)
        else if sprefix "-0700" s then Some (false, StdNumTZ, sdrop 5 s)
        else if sprefix "-07:00" s then Some (false, StdNumColonTZ, sdrop 6 s)
        else if sprefix "-07" s then Some (false, StdNumShortTZ, sdrop 3 s)
        else None
      else if b =? 90 (* Z *) then
        if sprefix "Z070000" s then Some (false, StdISO8601SecondsTZ, sdrop 7 s)
        else if sprefix "Z07:00:00" s then Some (false, StdISO8601ColonSecondsTZ, sdrop 9 s)
        else if sprefix "Z0700" s then Some (false, StdISO8601TZ, sdrop 5 s)
        else if sprefix "Z07:00" s then Some (false, StdISO8601ColonTZ, sdrop 6 s)
        else if sprefix "Z07" s then Some (false, StdISO8601ShortTZ, sdrop 3 s)
        else None
      else if (b =? 46) || (b =? 44) (* . , *) then
        if (b1 =? 48) || (b1 =? 57) then
          let run := count_run b1 (sdrop 1 s) in
          let j := S run in
          if negb (is_digit_at s j) then
            let n := Z.of_nat run mod 4096 in
            Some (false, (if b1 =? 57 then StdFracSecond9 n else StdFracSecond0 n), sdrop j s)
          else None
        else None
      else None
  end.

(* nextStdChunk(layout) = (prefix, std, suffix) *)
Fixpoint next_std_chunk_aux (s : string) (pre : string) : string * std * string :=
  match s with
  | EmptyString => (srev pre, StdNone, EmptyString)
  | String c r =>
      match std_at s with
      | Some (u, st, suf) => (srev (if u then String c pre else pre), st, suf)
      | None => next_std_chunk_aux r (String c pre)
      end
  end.
Definition next_std_chunk (layout : string) : string * std * string :=
  next_std_chunk_aux layout EmptyString.

(* time.cutspace *)
Fixpoint cutspace (s : string) : string :=
  match s with
  | String c r => if ascii_eqb c " " then cutspace r else s
  | EmptyString => s
  end.

(* time.skip(value, prefix): None = errBad.  [inrun] = we are inside a run of spaces of the
   prefix whose first space has already been processed (Go removes the whole run at once). *)
Fixpoint skip_aux (prefix : string) (inrun : bool) (value : string) : option string :=
  match prefix with
  | EmptyString => Some value
  | String pc pr =>
      if ascii_eqb pc " " then
        if inrun then skip_aux pr true value
        else
          match value with
          | String vc _ =>
              if negb (ascii_eqb vc " ") then None else skip_aux pr true (cutspace value)
          | EmptyString => skip_aux pr true value
          end
      else
        match value with
        | String vc vr => if ascii_eqb vc pc then skip_aux pr false vr else None
        | EmptyString => None
        end
  end.
Definition skip (value prefix : string) : option string := skip_aux prefix false value.

(* time.leadingInt: (x, rem), None = overflow error *)
Fixpoint leading_int_aux (s : string) (x : Z) : option (Z * string) :=
  match s with
  | EmptyString => Some (x, s)
  | String c r =>
      let b := byte_of c in
      if is_digit_byte b then
        if two63 / 10 <? x then None
        else
          let x := x * 10 + (b - 48) in
          if two63 <? x then None else leading_int_aux r x
      else Some (x, s)
  end.
Definition leading_int (s : string) : option (Z * string) := leading_int_aux s 0.

(* time.atoi: optional sign, then digits up to the end of the string ("" gives 0) *)
Definition time_atoi (s : string) : option Z :=
  let '(neg, body) :=
    match s with
    | String "-" r => (true, r)
    | String "+" r => (false, r)
    | _ => (false, s)
    end in
  match leading_int body with
  | None => None
  | Some (q, rem) =>
      match rem with
      | EmptyString => let x := wrap64 q in Some (if neg then wrap64 (- x) else x)
      | _ => None
      end
  end.

(* time.getnum *)
Definition getnum (s : string) (fixed : bool) : option (Z * string) :=
  if negb (is_digit_at s 0) then None
  else if negb (is_digit_at s 1) then
    if fixed then None else Some (byte_at s 0 - 48, sdrop 1 s)
  else Some ((byte_at s 0 - 48) * 10 + (byte_at s 1 - 48), sdrop 2 s).

(* time.getnum3 *)
Definition getnum3 (s : string) (fixed : bool) : option (Z * string) :=
  let i := if negb (is_digit_at s 0) then 0%nat
           else if negb (is_digit_at s 1) then 1%nat
           else if negb (is_digit_at s 2) then 2%nat else 3%nat in
  let n := match i with
           | 0%nat => 0
           | 1%nat => byte_at s 0 - 48
           | 2%nat => (byte_at s 0 - 48) * 10 + (byte_at s 1 - 48)
           | _ => ((byte_at s 0 - 48) * 10 + (byte_at s 1 - 48)) * 10 + (byte_at s 2 - 48)
           end in
  if (i =? 0)%nat || (fixed && negb (i =? 3)%nat) then None else Some (n, sdrop i s).

(* time.match: equal ignoring ASCII case (strings of the same length) *)
Fixpoint match_fold (s1 s2 : string) : bool :=
  match s1, s2 with
  | String a r1, String b r2 =>
      let c1 := byte_of a in
      let c2 := byte_of b in
      (if c1 =? c2 then true
       else
         let l1 := Z.lor c1 32 in
         let l2 := Z.lor c2 32 in
         (l1 =? l2) && (97 <=? l1) && (l1 <=? 122))
      && match_fold r1 r2
  | _, _ => true
  end.

(* time.lookup: index of the first table entry that prefixes val ignoring case *)
Fixpoint lookup_tab (tab : list string) (val : string) (i : Z) : option (Z * string) :=
  match tab with
  | [] => None
  | v :: tab' =>
      if (slen v <=? slen val)%nat && match_fold (stake (slen v) val) v
      then Some (i, sdrop (slen v) val)
      else lookup_tab tab' val (i + 1)
  end.

Definition long_day_names : list string :=
  ["Sunday"; "Monday"; "Tuesday"; "Wednesday"; "Thursday"; "Friday"; "Saturday"].
Definition short_day_names : list string := ["Sun"; "Mon"; "Tue"; "Wed"; "Thu"; "Fri"; "Sat"].
Definition short_month_names : list string :=
  ["Jan"; "Feb"; "Mar"; "Apr"; "May"; "Jun"; "Jul"; "Aug"; "Sep"; "Oct"; "Nov"; "Dec"].
Definition long_month_names : list string :=
  ["January"; "February"; "March"; "April"; "May"; "June"; "July"; "August"; "September";
   "October"; "November"; "December"].

(* time.parseSignedOffset: length of "+N"/"-N" with N <= 23 at the start of value, else 0.
   value must be non-empty (Go indexes value[0]; callers guarantee it). *)
Definition parse_signed_offset (value : string) : nat :=
  match value with
  | EmptyString => 0%nat
  | String c r =>
      if negb ((byte_of c =? 45) || (byte_of c =? 43)) then 0%nat
      else match leading_int r with
           | None => 0%nat
           | Some (x, rem) =>
               if (slen rem =? slen r)%nat then 0%nat
               else if 23 <? x then 0%nat
               else (slen value - slen rem)%nat
           end
  end.

(* time.parseGMT (value starts with "GMT") *)
Definition parse_gmt (value : string) : nat :=
  let v := sdrop 3 value in
  match v with
  | EmptyString => 3%nat
  | _ => (3 + parse_signed_offset v)%nat
  end.

Fixpoint count_upper (n : nat) (s : string) : nat :=
  match n with
  | O => O
  | S n' =>
      match s with
      | EmptyString => O
      | String c r =>
          let b := byte_of c in
          if (b <? 65) || (90 <? b) then O else S (count_upper n' r)
      end
  end.

(* time.parseTimeZone: Some length, None = not ok *)
Definition go_parse_time_zone (value : string) : option nat :=
  if (slen value <? 3)%nat then None
  else if (4 <=? slen value)%nat && (seqb (stake 4 value) "ChST" || seqb (stake 4 value) "MeST")
  then Some 4%nat
  else if seqb (stake 3 value) "GMT" then Some (parse_gmt value)
  else if (byte_at value 0 =? 43) || (byte_at value 0 =? 45) then
    let l := parse_signed_offset value in
    if (0 <? l)%nat then Some l else None
  else
    match count_upper 6 value with
    | 5%nat => if byte_at value 4 =? 84 then Some 5%nat else None
    | 4%nat => if (byte_at value 3 =? 84) || seqb (stake 4 value) "WITA" then Some 4%nat else None
    | 3%nat => Some 3%nat
    | _ => None
    end.

(* time.parseNanoseconds(value, nbytes): Some ns, None = error or range error.
   value[0] must exist (callers guarantee len(value) >= nbytes >= 1). *)
Definition parse_nanoseconds (value : string) (nbytes : nat) : option Z :=
  let b0 := byte_at value 0 in
  if negb ((b0 =? 46) || (b0 =? 44)) then None
  else
    let nbytes := if (10 <? nbytes)%nat then 10%nat else nbytes in
    match time_atoi (sslice 1 nbytes value) with
    | None => None
    | Some ns =>
        if ns <? 0 then None
        else Some (ns * 10 ^ (Z.of_nat (10 - nbytes)))
    end.

(* number of consecutive decimal digits of s starting at byte index k *)
Fixpoint count_digits (s : string) : nat :=
  match s with
  | String c r => if is_digit_byte (byte_of c) then S (count_digits r) else O
  | EmptyString => O
  end.
Definition count_digits_from (s : string) (k : nat) : nat := count_digits (sdrop k s).

Record pstate := {
  p_year : Z; p_month : Z; p_day : Z; p_yday : Z;
  p_hour : Z; p_min : Z; p_sec : Z; p_nsec : Z;
  p_utc : bool;            (* z = UTC *)
  p_zoff : Z;              (* zoneOffset, -1 = unset *)
  p_zname : string;
  p_am : bool; p_pm : bool }.

Definition pstate0 : pstate :=
  {| p_year := 0; p_month := -1; p_day := -1; p_yday := -1; p_hour := 0; p_min := 0; p_sec := 0;
     p_nsec := 0; p_utc := false; p_zoff := -1; p_zname := EmptyString; p_am := false;
     p_pm := false |}.

Definition set_year v p := {| p_year := v; p_month := p_month p; p_day := p_day p; p_yday := p_yday p; p_hour := p_hour p; p_min := p_min p; p_sec := p_sec p; p_nsec := p_nsec p; p_utc := p_utc p; p_zoff := p_zoff p; p_zname := p_zname p; p_am := p_am p; p_pm := p_pm p |}.
Definition set_month v p := {| p_year := p_year p; p_month := v; p_day := p_day p; p_yday := p_yday p; p_hour := p_hour p; p_min := p_min p; p_sec := p_sec p; p_nsec := p_nsec p; p_utc := p_utc p; p_zoff := p_zoff p; p_zname := p_zname p; p_am := p_am p; p_pm := p_pm p |}.
Definition set_day v p := {| p_year := p_year p; p_month := p_month p; p_day := v; p_yday := p_yday p; p_hour := p_hour p; p_min := p_min p; p_sec := p_sec p; p_nsec := p_nsec p; p_utc := p_utc p; p_zoff := p_zoff p; p_zname := p_zname p; p_am := p_am p; p_pm := p_pm p |}.
Definition set_yday v p := {| p_year := p_year p; p_month := p_month p; p_day := p_day p; p_yday := v; p_hour := p_hour p; p_min := p_min p; p_sec := p_sec p; p_nsec := p_nsec p; p_utc := p_utc p; p_zoff := p_zoff p; p_zname := p_zname p; p_am := p_am p; p_pm := p_pm p |}.
Definition set_hour v p := {| p_year := p_year p; p_month := p_month p; p_day := p_day p; p_yday := p_yday p; p_hour := v; p_min := p_min p; p_sec := p_sec p; p_nsec := p_nsec p; p_utc := p_utc p; p_zoff := p_zoff p; p_zname := p_zname p; p_am := p_am p; p_pm := p_pm p |}.
Definition set_min v p := {| p_year := p_year p; p_month := p_month p; p_day := p_day p; p_yday := p_yday p; p_hour := p_hour p; p_min := v; p_sec := p_sec p; p_nsec := p_nsec p; p_utc := p_utc p; p_zoff := p_zoff p; p_zname := p_zname p; p_am := p_am p; p_pm := p_pm p |}.
Definition set_sec v p := {| p_year := p_year p; p_month := p_month p; p_day := p_day p; p_yday := p_yday p; p_hour := p_hour p; p_min := p_min p; p_sec := v; p_nsec := p_nsec p; p_utc := p_utc p; p_zoff := p_zoff p; p_zname := p_zname p; p_am := p_am p; p_pm := p_pm p |}.
Definition set_nsec v p := {| p_year := p_year p; p_month := p_month p; p_day := p_day p; p_yday := p_yday p; p_hour := p_hour p; p_min := p_min p; p_sec := p_sec p; p_nsec := v; p_utc := p_utc p; p_zoff := p_zoff p; p_zname := p_zname p; p_am := p_am p; p_pm := p_pm p |}.
Definition set_utc p := {| p_year := p_year p; p_month := p_month p; p_day := p_day p; p_yday := p_yday p; p_hour := p_hour p; p_min := p_min p; p_sec := p_sec p; p_nsec := p_nsec p; p_utc := true; p_zoff := p_zoff p; p_zname := p_zname p; p_am := p_am p; p_pm := p_pm p |}.
Definition set_zoff v p := {| p_year := p_year p; p_month := p_month p; p_day := p_day p; p_yday := p_yday p; p_hour := p_hour p; p_min := p_min p; p_sec := p_sec p; p_nsec := p_nsec p; p_utc := p_utc p; p_zoff := v; p_zname := p_zname p; p_am := p_am p; p_pm := p_pm p |}.
Definition set_zname v p := {| p_year := p_year p; p_month := p_month p; p_day := p_day p; p_yday := p_yday p; p_hour := p_hour p; p_min := p_min p; p_sec := p_sec p; p_nsec := p_nsec p; p_utc := p_utc p; p_zoff := p_zoff p; p_zname := v; p_am := p_am p; p_pm := p_pm p |}.
Definition set_am p := {| p_year := p_year p; p_month := p_month p; p_day := p_day p; p_yday := p_yday p; p_hour := p_hour p; p_min := p_min p; p_sec := p_sec p; p_nsec := p_nsec p; p_utc := p_utc p; p_zoff := p_zoff p; p_zname := p_zname p; p_am := true; p_pm := p_pm p |}.
Definition set_pm p := {| p_year := p_year p; p_month := p_month p; p_day := p_day p; p_yday := p_yday p; p_hour := p_hour p; p_min := p_min p; p_sec := p_sec p; p_nsec := p_nsec p; p_utc := p_utc p; p_zoff := p_zoff p; p_zname := p_zname p; p_am := p_am p; p_pm := true |}.

Definition is_iso_tz (st : std) : bool :=
  match st with
  | StdISO8601TZ | StdISO8601SecondsTZ | StdISO8601ShortTZ | StdISO8601ColonTZ
  | StdISO8601ColonSecondsTZ => true
  | _ => false
  end.

(* the numeric-zone part shared by the stdISO8601* (after the 'Z' test) and stdNum* cases *)
Definition parse_num_tz (st : std) (value : string) (p : pstate) : option (pstate * string) :=
  let n := slen value in
  let parts : option (string * string * string * string * string) :=
    match st with
    | StdISO8601ColonTZ | StdNumColonTZ =>
        if (n <? 6)%nat then None
        else if negb (byte_at value 3 =? 58) then None
        else Some (sslice 0 1 value, sslice 1 3 value, sslice 4 6 value, "00"%string, sdrop 6 value)
    | StdNumShortTZ | StdISO8601ShortTZ =>
        if (n <? 3)%nat then None
        else Some (sslice 0 1 value, sslice 1 3 value, "00"%string, "00"%string, sdrop 3 value)
    | StdISO8601ColonSecondsTZ | StdNumColonSecondsTZ =>
        if (n <? 9)%nat then None
        else if negb (byte_at value 3 =? 58) || negb (byte_at value 6 =? 58) then None
        else Some (sslice 0 1 value, sslice 1 3 value, sslice 4 6 value, sslice 7 9 value,
                   sdrop 9 value)
    | StdISO8601SecondsTZ | StdNumSecondsTz =>
        if (n <? 7)%nat then None
        else Some (sslice 0 1 value, sslice 1 3 value, sslice 3 5 value, sslice 5 7 value,
                   sdrop 7 value)
    | _ =>
        if (n <? 5)%nat then None
        else Some (sslice 0 1 value, sslice 1 3 value, sslice 3 5 value, "00"%string, sdrop 5 value)
    end in
  match parts with
  | None => None
  | Some (sign, hour, mi, seconds, value') =>
      match getnum hour true with
      | None => None
      | Some (hr, _) =>
          match getnum mi true with
          | None => None
          | Some (mm, _) =>
              match getnum seconds true with
              | None => None
              | Some (ss, _) =>
                  if (24 <? hr) || (60 <? mm) || (60 <? ss) then None
                  else
                    let zo := (hr * 60 + mm) * 60 + ss in
                    let sg := byte_at sign 0 in
                    if sg =? 43 then Some (set_zoff zo p, value')
                    else if sg =? 45 then Some (set_zoff (- zo) p, value')
                    else None
              end
          end
      end
  end.

(* one iteration of the `switch std & stdMask` of time.parse.  [layout] is the remaining layout
   (needed by the seconds case to peek at the next element).  None = the iteration ends in an
   error (err != nil or rangeErrString != ""). *)
Definition parse_elem (st : std) (layout : string) (value : string) (p : pstate)
  : option (pstate * string) :=
  match st with
  | StdNone => Some (p, value)
  | StdYear =>
      if (slen value <? 2)%nat then None
      else match time_atoi (stake 2 value) with
           | None => None
           | Some y => Some (set_year (if 69 <=? y then y + 1900 else y + 2000) p, sdrop 2 value)
           end
  | StdLongYear =>
      if (slen value <? 4)%nat || negb (is_digit_at value 0) then None
      else match time_atoi (stake 4 value) with
           | None => None
           | Some y => Some (set_year y p, sdrop 4 value)
           end
  | StdMonth =>
      match lookup_tab short_month_names value 0 with
      | None => None
      | Some (i, v) => Some (set_month (i + 1) p, v)
      end
  | StdLongMonth =>
      match lookup_tab long_month_names value 0 with
      | None => None
      | Some (i, v) => Some (set_month (i + 1) p, v)
      end
  | StdNumMonth | StdZeroMonth =>
      match getnum value (match st with StdZeroMonth => true | _ => false end) with
      | None => None
      | Some (m, v) => if (m <=? 0) || (12 <? m) then None else Some (set_month m p, v)
      end
  | StdWeekDay =>
      match lookup_tab short_day_names value 0 with
      | None => None
      | Some (_, v) => Some (p, v)
      end
  | StdLongWeekDay =>
      match lookup_tab long_day_names value 0 with
      | None => None
      | Some (_, v) => Some (p, v)
      end
  | StdDay | StdUnderDay | StdZeroDay =>
      let value := match st, value with
                   | StdUnderDay, String c r => if ascii_eqb c " " then r else value
                   | _, _ => value
                   end in
      match getnum value (match st with StdZeroDay => true | _ => false end) with
      | None => None
      | Some (d, v) => Some (set_day d p, v)
      end
  | StdUnderYearDay | StdZeroYearDay =>
      let strip1 (v : string) :=
        match st, v with
        | StdUnderYearDay, String c r => if ascii_eqb c " " then r else v
        | _, _ => v
        end in
      let value := strip1 (strip1 value) in
      match getnum3 value (match st with StdZeroYearDay => true | _ => false end) with
      | None => None
      | Some (yd, v) => Some (set_yday yd p, v)
      end
  | StdHour =>
      match getnum value false with
      | None => None
      | Some (h, v) => if (h <? 0) || (24 <=? h) then None else Some (set_hour h p, v)
      end
  | StdHour12 | StdZeroHour12 =>
      match getnum value (match st with StdZeroHour12 => true | _ => false end) with
      | None => None
      | Some (h, v) => if (h <? 0) || (12 <? h) then None else Some (set_hour h p, v)
      end
  | StdMinute | StdZeroMinute =>
      match getnum value (match st with StdZeroMinute => true | _ => false end) with
      | None => None
      | Some (m, v) => if (m <? 0) || (60 <=? m) then None else Some (set_min m p, v)
      end
  | StdSecond | StdZeroSecond =>
      match getnum value (match st with StdZeroSecond => true | _ => false end) with
      | None => None
      | Some (s, v) =>
          if (s <? 0) || (60 <=? s) then None
          else
            let p := set_sec s p in
            let b0 := byte_at v 0 in
            if (2 <=? slen v)%nat && ((b0 =? 46) || (b0 =? 44)) && is_digit_at v 1 then
              let '(_, nst, _) := next_std_chunk layout in
              match nst with
              | StdFracSecond0 _ | StdFracSecond9 _ => Some (p, v)
              | _ =>
                  let n := (2 + count_digits_from v 2)%nat in
                  match parse_nanoseconds v n with
                  | None => None
                  | Some ns => Some (set_nsec ns p, sdrop n v)
                  end
              end
            else Some (p, v)
      end
  | StdPM =>
      if (slen value <? 2)%nat then None
      else
        let w := stake 2 value in
        if seqb w "PM" then Some (set_pm p, sdrop 2 value)
        else if seqb w "AM" then Some (set_am p, sdrop 2 value)
        else None
  | Stdpm =>
      if (slen value <? 2)%nat then None
      else
        let w := stake 2 value in
        if seqb w "pm" then Some (set_pm p, sdrop 2 value)
        else if seqb w "am" then Some (set_am p, sdrop 2 value)
        else None
  | StdISO8601TZ | StdISO8601SecondsTZ | StdISO8601ShortTZ | StdISO8601ColonTZ
  | StdISO8601ColonSecondsTZ =>
      if byte_at value 0 =? 90 then Some (set_utc p, sdrop 1 value)
      else parse_num_tz st value p
  | StdNumTZ | StdNumSecondsTz | StdNumShortTZ | StdNumColonTZ | StdNumColonSecondsTZ =>
      parse_num_tz st value p
  | StdTZ =>
      if (3 <=? slen value)%nat && seqb (stake 3 value) "UTC" then Some (set_utc p, sdrop 3 value)
      else match go_parse_time_zone value with
           | None => None
           | Some n => Some (set_zname (stake n value) p, sdrop n value)
           end
  | StdFracSecond0 nd =>
      let ndigit := Z.to_nat (1 + nd) in
      if (slen value <? ndigit)%nat then None
      else match parse_nanoseconds value ndigit with
           | None => None
           | Some ns => Some (set_nsec ns p, sdrop ndigit value)
           end
  | StdFracSecond9 _ =>
      let b0 := byte_at value 0 in
      if (slen value <? 2)%nat || negb ((b0 =? 46) || (b0 =? 44)) || negb (is_digit_at value 1)
      then Some (p, value)
      else
        let i := count_digits_from value 1 in
        match parse_nanoseconds value (1 + i) with
        | None => None
        | Some ns => Some (set_nsec ns p, sdrop (1 + i) value)
        end
  end.

(* the `for { ... }` loop of time.parse; fuel = len(layout)+1 always suffices because every
   iteration but the last removes at least one byte from the layout *)
Fixpoint parse_loop (fuel : nat) (layout value : string) (p : pstate) : lres pstate :=
  match fuel with
  | O => LFuel
  | S f =>
      let '(prefix, st, suffix) := next_std_chunk layout in
      match skip value prefix with
      | None => LErr "parse: literal text mismatch"
      | Some value =>
          match st with
          | StdNone =>
              match value with
              | EmptyString => LOk p
              | _ => LErr "parse: extra text"
              end
          | _ =>
              match parse_elem st suffix value p with
              | None => LErr "parse: bad or out-of-range element"
              | Some (p', value') => parse_loop f suffix value' p'
              end
          end
      end
  end.

(* time.daysBefore *)
Definition days_before : list Z := [0; 31; 59; 90; 120; 151; 181; 212; 243; 273; 304; 334; 365].
Definition days_before_at (m : Z) : Z := nth (Z.to_nat m) days_before 0.

(* the part of time.parse after the loop (am/pm, year-day, day validation, zone application),
   with time.Local = UTC *)
Definition parse_finish (p : pstate) : lres gotime :=
  let hour := if p_pm p && (p_hour p <? 12) then p_hour p + 12
              else if p_am p && (p_hour p =? 12) then 0
              else p_hour p in
  let year := p_year p in
  let md : lres (Z * Z) :=
    if 0 <=? p_yday p then
      let yday := p_yday p in
      let '(m0, d0, yday) :=
        if is_leap year then
          if yday =? 60 then (2, 29, yday)
          else if 60 <? yday then (0, 0, yday - 1)
          else (0, 0, yday)
        else (0, 0, yday) in
      if (yday <? 1) || (365 <? yday) then LErr "parse: day-of-year out of range"
      else
        let '(m, d) :=
          if m0 =? 0 then
            let m := (yday - 1) / 31 + 1 in
            let m := if days_before_at m <? yday then m + 1 else m in
            (m, yday - days_before_at (m - 1))
          else (m0, d0) in
        if (0 <=? p_month p) && negb (p_month p =? m) then LErr "parse: day-of-year does not match month"
        else if (0 <=? p_day p) && negb (p_day p =? d) then LErr "parse: day-of-year does not match day"
        else LOk (m, d)
    else
      LOk (if p_month p <? 0 then 1 else p_month p, if p_day p <? 0 then 1 else p_day p) in
  match md with
  | LOk (month, day) =>
      if (day <? 1) || (days_in_month year month <? day) then LErr "parse: day out of range"
      else
        let base := days_of_civil year month day * 86400 + hour * 3600 + p_min p * 60 + p_sec p in
        if p_utc p then
          LOk {| unix_sec := base; nsec := p_nsec p; offset := 0; zname := "UTC" |}
        else if negb (p_zoff p =? -1) then
          let name := if (p_zoff p =? 0) && seqb (p_zname p) "" then "UTC"%string else p_zname p in
          LOk {| unix_sec := base - p_zoff p; nsec := p_nsec p; offset := p_zoff p; zname := name |}
        else if negb (seqb (p_zname p) "") then
          let off :=
            if (3 <? slen (p_zname p))%nat && seqb (stake 3 (p_zname p)) "GMT" then
              match time_atoi (sdrop 3 (p_zname p)) with
              | Some o => o * 3600
              | None => 0
              end
            else 0 in
          LOk {| unix_sec := base; nsec := p_nsec p; offset := off; zname := p_zname p |}
        else
          LOk {| unix_sec := base; nsec := p_nsec p; offset := 0; zname := "UTC" |}
  | LErr e => LErr e
  | LUndef => LUndef
  | LPanic w => LPanic w
  | LFuel => LFuel
  end.

(* time.Parse(layout, value) *)
Definition go_time_parse (layout value : string) : lres gotime :=
  lbind (parse_loop (S (slen layout)) layout value pstate0) parse_finish.
