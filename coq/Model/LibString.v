(* Model/LibString.v — the string function library of jsonata-go (/repo/jlib/string.go) and the Go
   standard-library functions it calls (strings.Index/Split/Replace/Repeat/TrimSpace/Map/ToUpper/
   ToLower, utf8.RuneCountInString, encoding/base64 StdEncoding, net/url QueryEscape/QueryUnescape),
   transcribed at the level the Go code is written: byte offsets, rune counts, 64-bit `int`
   wrap-around, slice expressions that panic.

   Conventions
   * Go `int` parameters are `Z` (meant to be in [min_int, max_int]); the only places where 64-bit
     wrap-around is observable (`abs(width)`, `abs(width) - RuneCount`, `nums[i]*10 + d`) wrap
     explicitly with [wrap_int].
   * `jtypes.OptionalInt` / `jtypes.OptionalString` are `option Z` / `option string`; Go reads the
     `.Int` / `.String` field of an unset optional as 0 / "" ([opt_int], [opt_str]).
   * Outcomes are `lres` (Base/Res.v): `LErr` = Go `error`, `LPanic` = Go run-time panic.
   Stdlib + JV.Base only; no axioms; everything computes. *)
From JV Require Import Base.Bytes Base.Utf8 Base.F64 Base.Res.
Open Scope Z_scope.

(* ------------------------------------------------------------------------------------------ *)
(** * Go `int` (64 bit) *)
Definition min_int : Z := - 9223372036854775808.
Definition max_int : Z := 9223372036854775807.
Definition wrap_int (z : Z) : Z := (z + 9223372036854775808) mod 18446744073709551616 - 9223372036854775808.
Definition is_int (z : Z) : Prop := min_int <= z <= max_int.

(* string.go: func abs(n int) int — note abs(min_int) = min_int *)
Definition go_abs (n : Z) : Z := if n <? 0 then wrap_int (- n) else n.

Definition opt_int (o : option Z) : Z := match o with Some n => n | None => 0 end.
Definition opt_str (o : option string) : string := match o with Some s => s | None => "" end.
Definition is_set {A} (o : option A) : bool := match o with Some _ => true | None => false end.

Definition zlen (s : string) : Z := Z.of_nat (slen s).

(* s[lo:] and s[:hi] with Go's bounds check *)
Definition go_slice_from (s : string) (lo : Z) : lres string :=
  if (lo <? 0) || (zlen s <? lo) then LPanic "slice bounds out of range"
  else LOk (sdrop (Z.to_nat lo) s).
Definition go_slice_to (s : string) (hi : Z) : lres string :=
  if (hi <? 0) || (zlen s <? hi) then LPanic "slice bounds out of range"
  else LOk (stake (Z.to_nat hi) s).

(* ------------------------------------------------------------------------------------------ *)
(** * utf8.RuneCountInString  ($length is bound directly to it in env.go) *)
Definition length (s : string) : Z := Z.of_nat (rune_count s).

(** * string.go: positionOfNthRune — byte offset of the n-th (0-based) rune of `for pos := range s`,
      -1 when the string has no such rune. *)
Fixpoint ponr_loop (fuel : nat) (s : string) (pos : nat) (i n : Z) : Z :=
  match fuel with
  | O => -1
  | S f =>
      match s with
      | EmptyString => -1
      | _ => if i =? n then Z.of_nat pos
             else let '(_, w) := decode_rune s in ponr_loop f (sdrop w s) (pos + w) (i + 1) n
      end
  end.
Definition position_of_nth_rune (s : string) (n : Z) : Z := ponr_loop (slen s) s 0 0 n.

(* ------------------------------------------------------------------------------------------ *)
(** * Substring *)
Definition substring (s : string) (start : Z) (len : option Z) : lres string :=
  if (is_set len && (opt_int len <=? 0)) || (start >=? length s) then LOk ""
  else
    let start := if start <? 0 then start + length s else start in
    lbind (if start >? 0 then go_slice_from s (position_of_nth_rune s start) else LOk s)
      (fun s =>
         if is_set len && (opt_int len <? length s)
         then go_slice_to s (position_of_nth_rune s (opt_int len))
         else LOk s).

(** * SubstringBefore / SubstringAfter   (strings.Index = Bytes.sindex) *)
Definition substring_before (s sub : string) : string :=
  match sindex sub s with
  | Some i => stake i s
  | None => s
  end.
Definition substring_after (s sub : string) : string :=
  match sindex sub s with
  | Some i => sdrop (i + slen sub) s
  | None => s
  end.

(* ------------------------------------------------------------------------------------------ *)
(** * strings.Repeat.  Explicit panics: negative count, len(s)*count overflowing int; then
      Builder.Grow(n) -> bytealg.MakeNoZero(n) panics "makeslice: len out of range" for
      n > maxAlloc (= 2^48 on linux/amd64).  Below that bound the real program needs n bytes of
      memory (fatal, unrecoverable "out of memory" if it has not got them) — not modelled. *)
Definition max_alloc : Z := 281474976710656.
Definition go_repeat (s : string) (count : Z) : lres string :=
  if count =? 0 then LOk ""
  else if count =? 1 then LOk s
  else if count <? 0 then LPanic "strings: negative Repeat count"
  else if zlen s >? max_int / count then LPanic "strings: Repeat output length overflow"
  else if zlen s =? 0 then LOk ""
  else if zlen s * count >? max_alloc then LPanic "makeslice: len out of range"
  else LOk (srepeat s (Z.to_nat count)).

(** * Pad *)
Definition pad (s : string) (width : Z) (chars : option string) : lres string :=
  let padlen := wrap_int (go_abs width - length s) in
  if padlen <=? 0 then LOk s
  else
    let ch := opt_str chars in
    let ch := if seqb ch "" then " " else ch in
    lbind (go_repeat ch padlen) (fun padding =>
    lbind (if length padding >? padlen
           then go_slice_to padding (position_of_nth_rune padding padlen)
           else LOk padding) (fun padding =>
    if width <? 0 then LOk (padding ++ s) else LOk (s ++ padding))).

(* ------------------------------------------------------------------------------------------ *)
(** * Trim = strings.TrimSpace(regexp(`\s+`).ReplaceAllString(s, " ")) *)

(* RE2 `\s` = [\t\n\f\r ]  (no \v).  All five are ASCII, so matching on bytes is exact for every
   byte string (an ASCII byte is never part of a multi-byte sequence, valid or not). *)
Definition re_space (b : Z) : bool :=
  (b =? 9) || (b =? 10) || (b =? 12) || (b =? 13) || (b =? 32).

(* leftmost-longest `\s+` -> " " : [inrun] = the previous byte belonged to a run *)
Fixpoint collapse_ws (s : string) (inrun : bool) : string :=
  match s with
  | EmptyString => EmptyString
  | String c r =>
      if re_space (byte_of c)
      then if inrun then collapse_ws r true else String " " (collapse_ws r true)
      else String c (collapse_ws r false)
  end.

(* strings.asciiSpace *)
Definition ascii_space (b : Z) : bool :=
  (b =? 9) || (b =? 10) || (b =? 11) || (b =? 12) || (b =? 13) || (b =? 32).

(* unicode.IsSpace: Latin-1 switch, then isExcludingLatin(White_Space, r) *)
Definition is_space (r : rune) : bool :=
  if (0 <=? r) && (r <=? 255)
  then (r =? 9) || (r =? 10) || (r =? 11) || (r =? 12) || (r =? 13) || (r =? 32)
       || (r =? 133) || (r =? 160)
  else (r =? 5760) || ((8192 <=? r) && (r <=? 8202)) || (r =? 8232) || (r =? 8233)
       || (r =? 8239) || (r =? 8287) || (r =? 12288).

Fixpoint sget (s : string) (n : nat) : Z :=
  match s, n with
  | EmptyString, _ => 0
  | String c _, O => byte_of c
  | String _ r, S n' => sget r n'
  end.

(* utf8.RuneStart *)
Definition rune_start (b : Z) : bool := negb (is_cont b).

(* the backward scan of utf8.DecodeLastRuneInString: for start--; start >= lim; start-- *)
Fixpoint dlr_scan (fuel : nat) (s : string) (start lim : Z) : Z :=
  match fuel with
  | O => start
  | S f => if start <? lim then start
           else if rune_start (sget s (Z.to_nat start)) then start
           else dlr_scan f s (start - 1) lim
  end.

(* utf8.DecodeLastRuneInString *)
Definition decode_last_rune (s : string) : rune * nat :=
  let e := zlen s in
  if e =? 0 then (RuneError, 0%nat)
  else
    let start := e - 1 in
    let r := sget s (Z.to_nat start) in
    if r <? 128 then (r, 1%nat)
    else
      let lim := if e - 4 <? 0 then 0 else e - 4 in
      let start := dlr_scan 5 s (start - 1) lim in
      let start := if start <? 0 then 0 else start in
      let '(r, size) := decode_rune (sdrop (Z.to_nat start) s) in
      if negb (start + Z.of_nat size =? e) then (RuneError, 1%nat) else (r, size).

(* strings.indexFunc(s, unicode.IsSpace, false): offset of the first non-space rune *)
Fixpoint index_nonspace (fuel : nat) (s : string) (off : nat) : option nat :=
  match fuel with
  | O => None
  | S f =>
      match s with
      | EmptyString => None
      | _ => let '(r, w) := decode_rune s in
             if negb (is_space r) then Some off else index_nonspace f (sdrop w s) (off + w)
      end
  end.

(* strings.TrimLeftFunc(s, unicode.IsSpace) *)
Definition trim_left_space (s : string) : string :=
  match index_nonspace (slen s) s 0 with
  | None => EmptyString
  | Some i => sdrop i s
  end.

(* strings.lastIndexFunc(s, unicode.IsSpace, false) on s[0:i]; result -1 = none *)
Fixpoint last_index_nonspace (fuel : nat) (s : string) (i : Z) : Z :=
  match fuel with
  | O => -1
  | S f =>
      if i >? 0 then
        let '(r, size) := decode_last_rune (stake (Z.to_nat i) s) in
        let i := i - Z.of_nat size in
        if negb (is_space r) then i else last_index_nonspace f s i
      else -1
  end.

(* strings.TrimRightFunc(s, unicode.IsSpace) *)
Definition trim_right_space (s : string) : string :=
  let i := last_index_nonspace (slen s) s (zlen s) in
  let i := if (i >=? 0) && (sget s (Z.to_nat i) >=? 128)
           then i + Z.of_nat (snd (decode_rune (sdrop (Z.to_nat i) s)))
           else i + 1 in
  stake (Z.to_nat i) s.

(* second loop of strings.TrimSpace, on t = s[start:]: scan from the end *)
Fixpoint trim_space_stop (fuel : nat) (t : string) (stop : Z) : string :=
  match fuel with
  | O => stake (Z.to_nat stop) t
  | S f =>
      if stop >? 0 then
        let c := sget t (Z.to_nat (stop - 1)) in
        if c >=? 128 then trim_right_space (stake (Z.to_nat stop) t)
        else if ascii_space c then trim_space_stop f t (stop - 1)
        else stake (Z.to_nat stop) t
      else stake (Z.to_nat stop) t
  end.

(* strings.TrimSpace: first loop on the bytes from the front *)
Fixpoint trim_space (s : string) : string :=
  match s with
  | EmptyString => EmptyString
  | String c r =>
      let b := byte_of c in
      if b >=? 128 then trim_right_space (trim_left_space s)       (* TrimFunc(s[start:], IsSpace) *)
      else if ascii_space b then trim_space r
      else trim_space_stop (slen s) s (zlen s)
  end.

Definition trim (s : string) : string := trim_space (collapse_ws s false).

(* ------------------------------------------------------------------------------------------ *)
(** * Contains / Split / Join / Replace with string patterns *)
Definition contains_str (s pat : string) : bool := scontains pat s.

(* strings.explode(s, n) *)
Fixpoint explode_n (k : nat) (s : string) : list string :=
  match k with
  | O => [s]
  | S k' => let '(_, w) := decode_rune s in stake w s :: explode_n k' (sdrop w s)
  end.
Definition explode (s : string) (n : Z) : list string :=
  let l := length s in
  let n := if (n <? 0) || (n >? l) then l else n in
  if n =? 0 then [] else explode_n (Z.to_nat (n - 1)) s.

(* strings.genSplit(s, sep, 0, -1) for sep <> "": cut at successive leftmost occurrences.
   (Go pre-computes n = Count(s, sep) + 1 and loops n-1 times; Count counts exactly the
   successive leftmost non-overlapping occurrences, so both loops cut at the same places.)
   Each step consumes at least len(sep) >= 1 bytes, fuel = len(s)+1 is never exhausted. *)
Fixpoint split_loop (fuel : nat) (s sep : string) : list string :=
  match fuel with
  | O => [s]
  | S f =>
      match sindex sep s with
      | None => [s]
      | Some m => stake m s :: split_loop f (sdrop (m + slen sep) s) sep
      end
  end.
(* strings.Split *)
Definition strings_split (s sep : string) : list string :=
  if seqb sep "" then explode s (-1) else split_loop (S (slen s)) s sep.

Definition split_str (s sep : string) (limit : option Z) : lres (list string) :=
  if opt_int limit <? 0 then LErr "split: third argument must be a positive number"
  else
    let parts := strings_split s sep in
    if is_set limit && (opt_int limit <? Z.of_nat (List.length parts))
    then LOk (firstn (Z.to_nat (opt_int limit)) parts)
    else LOk parts.

(* Join on a []string (the reflect-level checks are the caller's) *)
Definition join (vs : list string) (sep : option string) : string := sjoin (opt_str sep) vs.

(* strings.Replace(s, old, new, n) for old <> "" : n < 0 = all.
   (Go pre-computes m = Count(s, old) and performs min(n, m) replacements at successive leftmost
   occurrences.) *)
Fixpoint replace_loop (fuel : nat) (s old new : string) (n : Z) : string :=
  match fuel with
  | O => s
  | S f =>
      if n =? 0 then s
      else match sindex old s with
           | None => s
           | Some j => stake j s ++ new ++ replace_loop f (sdrop (j + slen old) s) old new (n - 1)
           end
  end.
(* old = "" (insert between runes) is never reached from jlib: replaceString rejects it first;
   the branch is modelled as in Go for completeness of [strings_replace]. *)
Fixpoint replace_empty (k : nat) (s new : string) (first : bool) : string :=
  match k with
  | O => s
  | S k' =>
      if first then new ++ replace_empty k' s new false
      else match s with
           | EmptyString => EmptyString
           | _ => let '(_, w) := decode_rune s in
                  stake w s ++ new ++ replace_empty k' (sdrop w s) new false
           end
  end.
Definition strings_replace (s old new : string) (n : Z) : string :=
  if seqb old new || (n =? 0) then s
  else if seqb old "" then
    let m := length s + 1 in
    let n := if (n <? 0) || (m <? n) then m else n in
    replace_empty (Z.to_nat n) s new true
  else replace_loop (S (slen s)) s old new n.

(* string.go: replaceString (the replacement already known to be a string) *)
Definition replace_str (src pat repl : string) (limit : Z) : lres string :=
  if seqb pat "" then LErr "replace: second argument can't be an empty string"
  else LOk (strings_replace src pat repl limit).

(* string.go: Replace with a string pattern and a string replacement *)
Definition replace (src pat repl : string) (limit : option Z) : lres string :=
  if opt_int limit <? 0 then LErr "replace: fourth argument must be a positive number"
  else replace_str src pat repl (match limit with Some n => n | None => -1 end).

(* ------------------------------------------------------------------------------------------ *)
(** * encoding/base64 StdEncoding *)
Definition b64_char (v : Z) : ascii :=
  ascii_of_Z (if v <? 26 then 65 + v
              else if v <? 52 then 97 + (v - 26)
              else if v <? 62 then 48 + (v - 52)
              else if v =? 62 then 43 else 47).
Definition b64_val (b : Z) : option Z :=
  if (65 <=? b) && (b <=? 90) then Some (b - 65)
  else if (97 <=? b) && (b <=? 122) then Some (b - 97 + 26)
  else if (48 <=? b) && (b <=? 57) then Some (b - 48 + 52)
  else if b =? 43 then Some 62
  else if b =? 47 then Some 63
  else None.

Fixpoint base64_encode (s : string) : string :=
  match s with
  | EmptyString => EmptyString
  | String c0 EmptyString =>
      let v := byte_of c0 * 65536 in
      String (b64_char (v / 262144 mod 64)) (String (b64_char (v / 4096 mod 64)) "==")
  | String c0 (String c1 EmptyString) =>
      let v := byte_of c0 * 65536 + byte_of c1 * 256 in
      String (b64_char (v / 262144 mod 64)) (String (b64_char (v / 4096 mod 64))
        (String (b64_char (v / 64 mod 64)) "="))
  | String c0 (String c1 (String c2 r)) =>
      let v := byte_of c0 * 65536 + byte_of c1 * 256 + byte_of c2 in
      String (b64_char (v / 262144 mod 64)) (String (b64_char (v / 4096 mod 64))
        (String (b64_char (v / 64 mod 64)) (String (b64_char (v mod 64)) (base64_encode r))))
  end.

Definition is_nl (b : Z) : bool := (b =? 10) || (b =? 13).
Fixpoint skip_nl (s : string) : string :=
  match s with
  | String c r => if is_nl (byte_of c) then skip_nl r else s
  | EmptyString => EmptyString
  end.

Definition b64_corrupt {A} : lres A := LErr "base64: illegal base64 data".

(* Decode = a sequence of decodeQuantum calls (the 8- and 4-character fast paths of Decode produce
   the same bytes as decodeQuantum on four alphabet characters).  j = digits collected in the
   current quantum (0..3), v = their value, out = decoded bytes so far, reversed. *)
Fixpoint b64_decode_loop (s : string) (j : nat) (v : Z) (out : string) : lres string :=
  match s with
  | EmptyString =>
      match j with
      | O => LOk (srev out)
      | _ => b64_corrupt                 (* j = 1, or padding required *)
      end
  | String c r =>
      let b := byte_of c in
      match b64_val b with
      | Some d =>
          let v := v * 64 + d in
          match j with
          | 3%nat => b64_decode_loop r 0 0
                       (String (ascii_of_Z (v mod 256))
                          (String (ascii_of_Z (v / 256 mod 256))
                             (String (ascii_of_Z (v / 65536 mod 256)) out)))
          | _ => b64_decode_loop r (S j) v out
          end
      | None =>
          if is_nl b then b64_decode_loop r j v out
          else if negb (b =? 61) then b64_corrupt
          else
            match j with
            | 0%nat | 1%nat => b64_corrupt                               (* incorrect padding *)
            | 2%nat =>
                match skip_nl r with
                | EmptyString => b64_corrupt                            (* not enough padding *)
                | String c2 r2 =>
                    if negb (byte_of c2 =? 61) then b64_corrupt
                    else match skip_nl r2 with
                         | EmptyString => LOk (srev (String (ascii_of_Z (v / 16 mod 256)) out))
                         | _ => b64_corrupt                             (* trailing garbage *)
                         end
                end
            | _ =>
                match skip_nl r with
                | EmptyString => LOk (srev (String (ascii_of_Z (v / 4 mod 256))
                                              (String (ascii_of_Z (v / 1024 mod 256)) out)))
                | _ => b64_corrupt
                end
            end
      end
  end.
Definition base64_decode (s : string) : lres string := b64_decode_loop s 0 0 EmptyString.

(* ------------------------------------------------------------------------------------------ *)
(** * net/url QueryEscape / QueryUnescape (mode encodeQueryComponent) *)
Definition url_unreserved (b : Z) : bool :=
  ((97 <=? b) && (b <=? 122)) || ((65 <=? b) && (b <=? 90)) || ((48 <=? b) && (b <=? 57))
  || (b =? 45) || (b =? 95) || (b =? 46) || (b =? 126).
Definition should_escape (b : Z) : bool := negb (url_unreserved b).

Definition upper_hex (n : Z) : ascii := ascii_of_Z (if n <? 10 then 48 + n else 55 + n).

Fixpoint url_query_escape (s : string) : string :=
  match s with
  | EmptyString => EmptyString
  | String c r =>
      let b := byte_of c in
      if b =? 32 then String "+" (url_query_escape r)
      else if should_escape b
      then String "%" (String (upper_hex (b / 16)) (String (upper_hex (b mod 16)) (url_query_escape r)))
      else String c (url_query_escape r)
  end.

Fixpoint url_query_unescape (s : string) : lres string :=
  match s with
  | EmptyString => LOk EmptyString
  | String c r =>
      let b := byte_of c in
      if b =? 37 then
        match r with
        | String h1 (String h2 r') =>
            match hex_val h1, hex_val h2 with
            | Some x, Some y => lmap (String (ascii_of_Z (16 * x + y))) (url_query_unescape r')
            | _, _ => LErr "invalid URL escape"
            end
        | _ => LErr "invalid URL escape"
        end
      else if b =? 43 then lmap (String " ") (url_query_unescape r)
      else lmap (String c) (url_query_unescape r)
  end.

(* string.go: DecodeURL (bound to both $decodeUrl and $decodeUrlComponent) *)
Definition decode_url (s : string) : lres string := url_query_unescape s.

(* string.go: EncodeURLComponent — the lone U+FFFD (EF BF BD) is rejected *)
Definition replacement_char : string := string_of_bytes [239; 191; 189].
Definition encode_url_component (s : string) : lres string :=
  if seqb s replacement_char then LErr "invalid character" else LOk (url_query_escape s).

(* ------------------------------------------------------------------------------------------ *)
(** * strings.ToUpper / strings.ToLower over an abstract rune mapping *)
Section CaseMap.
  Variable case_map_upper case_map_lower : rune -> rune.

  (* first loop of strings.Map: find the first rune that changes (or an invalid byte); returns the
     output written so far (s[:i] ++ encoded r) and the unread remainder s[i+width:] *)
  Fixpoint map_scan (fuel : nat) (mapping : rune -> rune) (s0 s : string) (i : nat)
    : option (string * string) :=
    match fuel with
    | O => None
    | S f =>
        match s with
        | EmptyString => None
        | _ =>
            let '(c, w) := decode_rune s in
            let r := mapping c in
            if (r =? c) && negb (c =? RuneError) then map_scan f mapping s0 (sdrop w s) (i + w)
            else if (c =? RuneError) && negb (w =? 1)%nat && (r =? c)
                 then map_scan f mapping s0 (sdrop w s) (i + w)
            else
              let width := if c =? RuneError then w else Z.to_nat (rune_len c) in
              Some (stake i s0 ++ (if r >=? 0 then encode_rune r else ""), sdrop (i + width) s0)
        end
    end.

  (* second loop of strings.Map *)
  Fixpoint map_rest (mapping : rune -> rune) (l : list rune) : string :=
    match l with
    | [] => EmptyString
    | c :: t => let r := mapping c in
                (if r >=? 0 then encode_rune r else "") ++ map_rest mapping t
    end.

  Definition strings_map (mapping : rune -> rune) (s : string) : string :=
    match map_scan (slen s) mapping s s 0 with
    | None => s
    | Some (done, rest) => done ++ map_rest mapping (runes rest)
    end.

  Fixpoint is_ascii (s : string) : bool :=
    match s with
    | EmptyString => true
    | String c r => (byte_of c <? 128) && is_ascii r
    end.
  Definition is_lower_byte (b : Z) : bool := (97 <=? b) && (b <=? 122).
  Definition is_upper_byte (b : Z) : bool := (65 <=? b) && (b <=? 90).
  Fixpoint has_byte (p : Z -> bool) (s : string) : bool :=
    match s with
    | EmptyString => false
    | String c r => p (byte_of c) || has_byte p r
    end.
  Fixpoint ascii_upper (s : string) : string :=
    match s with
    | EmptyString => EmptyString
    | String c r => let b := byte_of c in
                    String (if is_lower_byte b then ascii_of_Z (b - 32) else c) (ascii_upper r)
    end.
  Fixpoint ascii_lower (s : string) : string :=
    match s with
    | EmptyString => EmptyString
    | String c r => let b := byte_of c in
                    String (if is_upper_byte b then ascii_of_Z (b + 32) else c) (ascii_lower r)
    end.

  Definition uppercase (s : string) : string :=
    if is_ascii s then (if has_byte is_lower_byte s then ascii_upper s else s)
    else strings_map case_map_upper s.
  Definition lowercase (s : string) : string :=
    if is_ascii s then (if has_byte is_upper_byte s then ascii_lower s else s)
    else strings_map case_map_lower s.
End CaseMap.

(* ------------------------------------------------------------------------------------------ *)
(** * string.go: runesToNumbers / expandReplaceString *)

(* nums[i] = the decimal number written by runes[0..i], computed in 64-bit int (wraps) *)
Definition num_prefix (l : list rune) : Z :=
  fold_left (fun acc r => wrap_int (acc * 10 + (r - 48))) l 0.
Definition runes_to_numbers (l : list rune) : list Z :=
  map (fun i => num_prefix (firstn (S i) l)) (seq 0 (List.length l)).

(* `for _, r := range s { if r < '0' || r > '9' { break }; digits = append(digits, r) }` — digits
   are ASCII, a byte >= 0x80 starts a rune that is not a digit, so scanning bytes is the same *)
Fixpoint leading_digits (s : string) : list rune :=
  match s with
  | EmptyString => []
  | String c r => let b := byte_of c in
                  if (48 <=? b) && (b <=? 57) then b :: leading_digits r else []
  end.

(* strings.IndexRune(s, '$') = IndexByte *)
Fixpoint index_byte (b : Z) (s : string) (off : nat) : option nat :=
  match s with
  | EmptyString => None
  | String c r => if byte_of c =? b then Some off else index_byte b r (S off)
  end.

(* `for i := len(indexes)-1; i >= 0; i--`: [l] = [(i, indexes[i])] from the highest i down.
   None = no index selects a group (a negative index — the 64-bit accumulation in
   runesToNumbers wraps from 19 digits on — names no group; repaired in /repo d8cda2c) *)
Fixpoint backoff (l : list (nat * Z)) (groups : list string) : option (lres (string * nat)) :=
  match l with
  | [] => None
  | (i, n) :: t =>
      let index := wrap_int (n - 1) in
      if (0 <=? index) && (index <? Z.of_nat (List.length groups)) then
        Some (LOk (nth (Z.to_nat index) groups "", S i))
      else backoff t groups
  end.

Fixpoint ers_loop (fuel : nat) (s result mvalue : string) (groups : list string) : lres string :=
  match fuel with
  | O => LFuel
  | S f =>
      match index_byte 36 s 0 with
      | None => LOk (result ++ s)
      | Some pos =>
          let result := result ++ stake pos s in
          let s := sdrop (S pos) s in
          match s with
          | EmptyString => LOk (result ++ "$")
          | String _ s1 =>
              let r := fst (decode_rune s) in
              if (r =? 36) || (r <? 48) || (r >? 57) then
                ers_loop f (if r =? 36 then s1 else s) (result ++ "$") mvalue groups
              else if r =? 48 then ers_loop f s1 (result ++ mvalue) mvalue groups
              else
                let indexes := runes_to_numbers (leading_digits s) in
                match backoff (rev (combine (seq 0 (List.length indexes)) indexes)) groups with
                | Some (LOk (g, k)) => ers_loop f (sdrop k s) (result ++ g) mvalue groups
                | Some (LErr t) => LErr t
                | Some LUndef => LUndef
                | Some (LPanic w) => LPanic w
                | Some LFuel => LFuel
                | None => ers_loop f s1 result mvalue groups
                end
          end
      end
  end.
(* every iteration removes at least the '$' from s: fuel len(s)+1 is never exhausted *)
Definition expand_replace_string (s mvalue : string) (groups : list string) : lres string :=
  ers_loop (S (slen s)) s "" mvalue groups.
