(* Model/Wire.v — the textual interchange format between the Go harness and the model:
   values, outcomes, oracle tables, case lines.  Everything is parsed and printed here, in
   Gallina, so that the extracted program and `vm_compute` inside coqc run the very same
   function on the very same text; the OCaml driver only moves lines. *)
From JV Require Export Model.Eval Model.AstWire.
Local Open Scope nat_scope.
Local Open Scope list_scope.

(* ---- values ----
   N | T | F | D<16 hex> | S<hex> | A<n> v… | O<n> S<key> v … | L            *)
Fixpoint value_tokens (v : value) : list string :=
  let fix tl (l : list value) : list string :=
    match l with [] => [] | x :: r => value_tokens x ++ tl r end in
  let fix tm (m : list (string * value)) : list string :=
    match m with [] => [] | (k, x) :: r => String "S" (hex_of_string k) :: value_tokens x ++ tm r end in
  match v with
  | VNull => ["N"%string]
  | VBool true => ["T"%string]
  | VBool false => ["F"%string]
  | VNum x => [String "D" (hex16_of_Z (bits_of_f x))]
  | VStr s => [String "S" (hex_of_string s)]
  | VArr l => String "A" (string_of_nat (List.length l)) :: tl l
  | VObj m => String "O" (string_of_nat (List.length m)) :: tm m
  | VFun _ => ["L"%string]
  end.
Definition value_to_wire (v : value) : string := sjoin " " (value_tokens v).

Definition nat_of_dec (s : string) : option nat :=
  match Z_of_dec s with Some z => if (z <? 0)%Z then None else Some (Z.to_nat z) | None => None end.

Fixpoint value_of_tokens (fuel : nat) (ts : list string) : option (value * list string) :=
  match fuel with
  | O => None
  | S f =>
      match ts with
      | [] => None
      | String c rest :: r =>
          let rd_list :=
            fix rd (n : nat) (ts : list string) : option (list value * list string) :=
              match n with
              | O => Some ([], ts)
              | S n' => match value_of_tokens f ts with
                        | Some (x, ts1) => match rd n' ts1 with
                                           | Some (xs, ts2) => Some (x :: xs, ts2)
                                           | None => None
                                           end
                        | None => None
                        end
              end in
          let rd_obj :=
            fix rd (n : nat) (ts : list string) : option (list (string * value) * list string) :=
              match n with
              | O => Some ([], ts)
              | S n' =>
                  match ts with
                  | String "S" kh :: ts0 =>
                      match string_of_hex kh, value_of_tokens f ts0 with
                      | Some k, Some (x, ts1) =>
                          match rd n' ts1 with
                          | Some (xs, ts2) => Some ((k, x) :: xs, ts2)
                          | None => None
                          end
                      | _, _ => None
                      end
                  | _ => None
                  end
              end in
          if Ascii.eqb c "N" then Some (VNull, r)
          else if Ascii.eqb c "T" then Some (VBool true, r)
          else if Ascii.eqb c "F" then Some (VBool false, r)
          else if Ascii.eqb c "L" then Some (VFun (CUndef "wire"), r)
          else if Ascii.eqb c "D" then
            match Z_of_hex rest with Some z => Some (VNum (f_of_bits z), r) | None => None end
          else if Ascii.eqb c "S" then
            match string_of_hex rest with Some s => Some (VStr s, r) | None => None end
          else if Ascii.eqb c "A" then
            match nat_of_dec rest with
            | Some n => if List.length r <? n then None else
                        match rd_list n r with Some (l, r') => Some (VArr l, r') | None => None end
            | None => None
            end
          else if Ascii.eqb c "O" then
            match nat_of_dec rest with
            | Some n => if List.length r <? n then None else
                        match rd_obj n r with Some (m, r') => Some (VObj (obj_of_list m), r') | None => None end
            | None => None
            end
          else None
      | EmptyString :: _ => None
      end
  end.

Definition tokens (s : string) : list string :=
  filter (fun t => negb (seqb t "")) (ssplit_char " " s).

Definition value_of_wire (s : string) : option value :=
  let ts := tokens s in
  match value_of_tokens (S (List.length ts)) ts with
  | Some (v, []) => Some v
  | _ => None
  end.

(* ---- outcomes ---- *)
Definition err_to_wire (e : err) : string :=
  match e with
  | EEval t => "E eval " ++ string_of_nat (evalerr_code t)
  | EArgCount fn => "E argcount " ++ String "S" (hex_of_string fn)
  | EArgType fn k => "E argtype " ++ String "S" (hex_of_string fn) ++ " " ++ string_of_nat k
  | ELib tag => "E lib " ++ String "S" (hex_of_string tag)
  end%string.

Definition res_to_wire (r : res ovalue) : string :=
  match r with
  | Ok (Some v) _ => ("V " ++ value_to_wire v)%string
  | Ok None _ => "U"%string
  | Err e => err_to_wire e
  | Panic why => ("P " ++ String "S" (hex_of_string why))%string
  | OutOfFuel => "X fuel"%string
  | Need q => ("Q " ++ q)%string
  end.

(* ---- oracle table: tokens  key=answer  (both space-free) ---- *)
Definition split_eq (t : string) : option (string * string) :=
  match sindex "=" t with
  | Some i => Some (stake i t, sdrop (S i) t)
  | None => None
  end.
Definition oracle_table (s : string) : list (string * string) :=
  somes (map split_eq (tokens s)).

(* answer to an RE query:  matches separated by ';', each "a,b,c,d,…" byte offsets (-1 = absent) *)
Fixpoint pair_up (l : list Z) : list (Z * Z) :=
  match l with a :: b :: r => (a, b) :: pair_up r | _ => [] end.
Definition parse_matches (a : string) : option (list (list (Z * Z))) :=
  if seqb a "" then Some [] else
  let ms := ssplit_char ";" a in
  let parse1 := fun m =>
    let nums := map Z_of_dec (ssplit_char "," m) in
    if forallb (fun o => match o with Some _ => true | None => false end) nums
    then Some (pair_up (somes nums)) else None in
  let rs := map parse1 ms in
  if forallb (fun o => match o with Some _ => true | None => false end) rs then Some (somes rs) else None.

Definition regex_from_table (tbl : list (string * string)) (src subj : string)
  : option (list (list (Z * Z))) :=
  match assoc_get (regex_key src subj) tbl with
  | Some a => parse_matches a
  | None => None
  end.
Definition pow_from_table (tbl : list (string * string)) (x y : f64) : option f64 :=
  match assoc_get (pow_key x y) tbl with
  | Some a => option_map f_of_bits (Z_of_hex a)
  | None => None
  end.

(* fields of a case line are separated by '|' *)
Definition fields (s : string) : list string := ssplit_char "|" s.
