(* Proofs/C04Proofs.v — property C04: the parse is fixed by precedence, associativity and
   parentheses.  Theorems about the model of Model/Lexer.v + Model/Parser.v against the
   specification of Spec/C04.v and the tables generated from the running Go code
   (Gen/ParseTables.v, regenerated on every run; the table lemmas of part 1 are re-proved
   against it every time).

   1. Table lemmas: bp_table_matches, led_nud_tables_match, symbols_match, keywords_match,
      token_names_match, bp_rows_ok (the binding powers induce exactly the ten rows of the
      property), bp_row_order, every_led_has_bp, no_bp_without_led, assign_is_lowest, bp_gap,
      nud_set_ok.
   2. Lexer-level clauses: C04_ws, C04_quotes (from scan_string_spec), C04_regex_div (+ the
      allowRegex flag of every advance in the Pratt loop), C04_kw_names.
   3. C04_paren.
   4. The grouping theorem: pratt_wf (the abstract Pratt loop yields a well-grouped tree with
      the right yield), pratt_complete (every well-grouped tree is what the loop returns on its
      yield), wf_unique, wf_climb; the equations that make the abstract loop the model's loop
      (led_* lemmas, parseExpression_unfold, ledLoop_unfold) and the token-level simulation
      C04_pratt_model. *)
From JV Require Import Model.Lexer Model.Parser Proofs.LexerProofs Proofs.ParserProofs
  Proofs.Utf8Proofs Gen.ParseTables Spec.C04.
From Coq Require Import Lia ZifyBool ZifyNat.
Open Scope Z_scope.

(* ==================================================================================== *)
(* 1. Table lemmas                                                                       *)
(* ==================================================================================== *)

(* [token_types] (Spec) lists every token type at its own number *)
Lemma token_types_complete t : nth_error token_types (tt_num t) = Some t.
Proof. destruct t; reflexivity. Qed.

Lemma token_types_length : List.length token_types = 42%nat.
Proof. reflexivity. Qed.

Lemma tt_num_inj a b : tt_num a = tt_num b -> a = b.
Proof. destruct a, b; simpl; intros H; try reflexivity; discriminate H. Qed.

(* ---- binding powers ---- *)

(* the model's bps table is the table of the running implementation, entry by entry *)
Lemma bp_table_matches : map lookupBp token_types = gen_bps.
Proof. vm_compute. reflexivity. Qed.

Lemma bp_table_matches_at t : nth (tt_num t) gen_bps 0 = lookupBp t.
Proof. rewrite <- bp_table_matches. destruct t; vm_compute; reflexivity. Qed.

(* ---- nud / led presence ---- *)

Section Tables.
Variable parse_number : string -> numlit.
Variable regex_check : string -> option string.
Variable fmt_g : f64 -> string.
Variable quote : string -> string.
Variable lf : nat.
Variable pe : Z -> PM node.

Definition model_has_led (t : tokentype) : bool :=
  is_some (lookupLed fmt_g quote lf pe t).
Definition model_has_nud (t : tokentype) : bool :=
  is_some (lookupNud parse_number regex_check lf pe t).

(* the model's leds / nuds are defined exactly on the token types for which the running
   implementation has one (whatever the oracles, the fuel and the recursive call) *)
Lemma led_nud_tables_match :
  map model_has_led token_types = gen_has_led /\ map model_has_nud token_types = gen_has_nud.
Proof. split; reflexivity. Qed.

Lemma led_table_at t : model_has_led t = nth (tt_num t) gen_has_led false.
Proof. destruct t; reflexivity. Qed.
Lemma nud_table_at t : model_has_nud t = nth (tt_num t) gen_has_nud false.
Proof. destruct t; reflexivity. Qed.

Lemma model_has_led_has_led t : model_has_led t = has_led t.
Proof. destruct t; reflexivity. Qed.

(* and, or, in (and nothing else among the infix tokens that are words) have the NAME nud *)
Lemma nud_set_ok :
  lookupNud parse_number regex_check lf pe typeAnd = Some parseName /\
  lookupNud parse_number regex_check lf pe typeOr = Some parseName /\
  lookupNud parse_number regex_check lf pe typeIn = Some parseName.
Proof. repeat split; reflexivity. Qed.

End Tables.

(* ---- symbols and keywords ---- *)

Definition byte_range : list Z := map Z.of_nat (seq 0 256).

Definition str1 (b : Z) : string := String (ascii_of_Z b) EmptyString.
Definition str2 (a b : Z) : string := String (ascii_of_Z a) (String (ascii_of_Z b) EmptyString).

(* every entry of lookupSymbol1 / lookupSymbol2 as (spelling, token-type number) *)
Definition model_symbols1 : list (string * nat) :=
  flat_map (fun b => let t := lookupSymbol1 b in
                     if tt_pos t then [(str1 b, tt_num t)] else []) byte_range.
Definition model_symbols2 : list (string * nat) :=
  flat_map (fun b => map (fun rt : rune * tokentype => (str2 b (fst rt), tt_num (snd rt)))
                         (lookupSymbol2 b)) byte_range.

Definition entry_eqb (a b : string * nat) : bool := seqb (fst a) (fst b) && Nat.eqb (snd a) (snd b).
Definition subset (l1 l2 : list (string * nat)) : bool :=
  forallb (fun a => existsb (entry_eqb a) l2) l1.
Definition same_entries (l1 l2 : list (string * nat)) : bool := subset l1 l2 && subset l2 l1.

Lemma subset_In l1 l2 : subset l1 l2 = true -> forall a, In a l1 -> In a l2.
Proof.
  unfold subset. rewrite forallb_forall. intros H a Ha. specialize (H a Ha).
  apply existsb_exists in H as (b & Hb & He). unfold entry_eqb in He.
  apply andb_true_iff in He as [H1 H2]. apply seqb_eq in H1. apply Nat.eqb_eq in H2.
  destruct a, b; simpl in *; subst; exact Hb.
Qed.

(* outside the byte range the symbol tables are empty (so [byte_range] enumerates them all) *)
Lemma lookupSymbol1_range r : tt_pos (lookupSymbol1 r) = true -> 0 <= r < 126.
Proof.
  unfold lookupSymbol1, symbol1Count. destruct ((r <? 0) || (126 <=? r)) eqn:E; [discriminate|lia].
Qed.
Lemma lookupSymbol2_range r : lookupSymbol2 r <> [] -> 0 <= r < 127.
Proof.
  unfold lookupSymbol2, symbol2Count. destruct ((r <? 0) || (127 <=? r)) eqn:E; [congruence|lia].
Qed.

(* the one- and two-character symbols of the lexer are those of the running implementation *)
Lemma symbols_match :
  same_entries model_symbols1 gen_symbols1 = true /\ same_entries model_symbols2 gen_symbols2 = true.
Proof. split; vm_compute; reflexivity. Qed.

Lemma In_byte_range r : 0 <= r < 256 -> In r byte_range.
Proof.
  intros H. unfold byte_range. apply in_map_iff. exists (Z.to_nat r). split; [lia|].
  apply in_seq. lia.
Qed.

(* consequence, in words: a rune is a one-character symbol of the model iff the generated table
   lists its spelling, with the same token type *)
Lemma symbols1_iff r t : t <> typeEOF ->
  (lookupSymbol1 r = t <-> 0 <= r < 256 /\ In (str1 r, tt_num t) gen_symbols1).
Proof.
  intros Ht. destruct symbols_match as [H1 _]. apply andb_true_iff in H1 as [Ha Hb]. split.
  - intros Hl.
    assert (Hp : tt_pos (lookupSymbol1 r) = true).
    { rewrite Hl. destruct t; try reflexivity. congruence. }
    pose proof (lookupSymbol1_range r Hp) as Hr. split; [lia|].
    apply (subset_In _ _ Ha). unfold model_symbols1. apply in_flat_map.
    exists r. split; [apply In_byte_range; lia|]. rewrite Hp, Hl. left; reflexivity.
  - intros [Hr Hin]. apply (subset_In _ _ Hb) in Hin. unfold model_symbols1 in Hin.
    apply in_flat_map in Hin as (b & Hbr & Hin).
    destruct (tt_pos (lookupSymbol1 b)) eqn:Hp; [|destruct Hin].
    destruct Hin as [Hin|[]]. injection Hin as Hs Hn.
    apply tt_num_inj in Hn.
    assert (b = r).
    { unfold byte_range in Hbr. apply in_map_iff in Hbr as (n & <- & Hn'). apply in_seq in Hn'.
      unfold str1 in Hs; try (injection Hs as Hs).
      assert (E : byte_of (ascii_of_Z (Z.of_nat n)) = byte_of (ascii_of_Z r)) by (rewrite Hs; reflexivity).
      rewrite !byte_of_ascii_of_Z in E by lia. exact E. }
    subst b. exact Hn.
Qed.

Definition model_keywords : list (string * nat) :=
  map (fun s => (s, tt_num (lookupKeyword s))) ["and"; "false"; "in"; "null"; "or"; "true"]%string.

(* the keywords: same words, same token types; and no other word is a keyword *)
Lemma keywords_match : same_entries model_keywords gen_keywords = true.
Proof. vm_compute. reflexivity. Qed.

Lemma keywords_only s : lookupKeyword s <> typeEOF ->
  In (s, tt_num (lookupKeyword s)) gen_keywords.
Proof.
  intros H. destruct (proj1 (andb_true_iff _ _) keywords_match) as [Ha _].
  apply (subset_In _ _ Ha). unfold model_keywords.
  unfold lookupKeyword in *.
  destruct (seqb s "and") eqn:E1; [apply seqb_eq in E1; subst; simpl; auto|].
  destruct (seqb s "or") eqn:E2; [apply seqb_eq in E2; subst; simpl; auto 6|].
  destruct (seqb s "in") eqn:E3; [apply seqb_eq in E3; subst; simpl; auto|].
  destruct (seqb s "true") eqn:E4; [apply seqb_eq in E4; subst; simpl; auto 8|].
  destruct (seqb s "false") eqn:E5; [apply seqb_eq in E5; subst; simpl; auto|].
  simpl in *.
  destruct (seqb s "null") eqn:E6; [apply seqb_eq in E6; subst; simpl; auto 6|].
  congruence.
Qed.

(* tokenType.String() *)
Lemma token_names_match : map tt_string token_types = gen_token_names.
Proof. vm_compute. reflexivity. Qed.

(* ---- the structure of the binding-power table ---- *)

(* STRUCTURE: grouping the token types by binding power, highest first, gives exactly the ten
   rows of the property — for the table of the running implementation ... *)
Theorem bp_rows_ok : rows_of_bps gen_bps = prec_rows.
Proof. vm_compute. reflexivity. Qed.

(* ... and for the model's own table (jparse.go's argument of initBindingPowers) *)
Lemma bp_rows_model : rows_of_bps (map lookupBp token_types) = prec_rows.
Proof. rewrite bp_table_matches. exact bp_rows_ok. Qed.

(* the rows of the model's source table are the property's rows, up to the order inside a row *)
Lemma bp_rows_same_rows :
  List.length bp_rows = List.length prec_rows /\
  forall t, row_in bp_rows t = row_of t.
Proof. split; [reflexivity|]. intros t; destruct t; reflexivity. Qed.

(* a token type has a row iff it has a positive binding power iff it has an led *)
Lemma every_led_has_bp t : has_led t = true -> 0 < lookupBp t.
Proof. destruct t; intros H; try discriminate H; vm_compute; reflexivity. Qed.

Lemma no_bp_without_led t : has_led t = false -> lookupBp t = 0.
Proof. destruct t; intros H; try discriminate H; vm_compute; reflexivity. Qed.

Lemma row_iff_led t : (exists n, row_of t = Some n) <-> has_led t = true.
Proof.
  split.
  - intros [n H]. destruct t; try discriminate H; reflexivity.
  - intros H. destruct t; try discriminate H; eexists; reflexivity.
Qed.

Lemma bp_nonneg t : 0 <= lookupBp t.
Proof. destruct t; vm_compute; discriminate. Qed.

(* the order of the binding powers is the order of the rows: looser row <-> smaller power *)
Theorem bp_row_order t1 t2 n1 n2 :
  row_of t1 = Some n1 -> row_of t2 = Some n2 ->
  (lookupBp t1 < lookupBp t2 <-> (n2 < n1)%nat) /\ (lookupBp t1 = lookupBp t2 <-> n1 = n2).
Proof.
  intros H1 H2.
  destruct t1; try discriminate H1; injection H1 as <-;
    destruct t2; try discriminate H2; injection H2 as <-; vm_compute; split; split;
      try (intros; reflexivity); try (intros H; discriminate H);
      try (intros H; repeat (apply le_S_n in H); inversion H); try lia.
Qed.

(* := is the loosest operator: every token with a binding power binds at least as tightly *)
Lemma assign_is_lowest t : 0 < lookupBp t -> lookupBp typeAssign <= lookupBp t.
Proof. destruct t; vm_compute; intros H; try discriminate H; discriminate. Qed.

(* different rows differ by more than 1, and the loosest row is above 1: the right binding power
   [bp(:=) - 1] that parseAssignment uses lies strictly between 0 and every row, so that it
   stops at every token that is not an infix/postfix operator, and at no operator *)
Lemma bp_gap t1 t2 : lookupBp t1 < lookupBp t2 -> lookupBp t1 + 1 < lookupBp t2.
Proof.
  destruct t1, t2; vm_compute; intros H; try discriminate H; reflexivity.
Qed.

Lemma assign_rbp_ok :
  0 < lookupBp typeAssign - 1 /\
  forall t, (lookupBp typeAssign - 1 <? lookupBp t) = has_led t.
Proof. split; [reflexivity|]. intros t; destruct t; reflexivity. Qed.

Print Assumptions bp_table_matches.
Print Assumptions led_nud_tables_match.
Print Assumptions symbols_match.
Print Assumptions keywords_match.
Print Assumptions bp_rows_ok.
Print Assumptions bp_row_order.
Print Assumptions nud_set_ok.

(* the statements are not vacuous: some entries *)
Example bp_rows_ex :
  row_of typeConcat = Some 4%nat /\ row_of typeApply = Some 5%nat /\ row_of typeAssign = Some 9%nat
  /\ lookupBp typeConcat = 60 /\ lookupBp typeApply = 50 /\ lookupBp typeAssign = 10
  /\ row_of typeColon = None /\ lookupBp typeColon = 0.
Proof. vm_compute. repeat split. Qed.
Example symbols1_ex : lookupSymbol1 (ch "&") = typeConcat /\ In ("&"%string, 35%nat) gen_symbols1.
Proof. split; [reflexivity|]. vm_compute. auto 10. Qed.
